#!/bin/sh
# tools/thorough_all.sh [seed] [checks...] : thorough tier of every check against an unchanged
# snapshot (for `vp run --with-repo`). Prints one summary line per check.
. "$(dirname "$0")/bg_build.sh"
seed=${1:-1}; [ $# -gt 0 ] && shift
checks="$@"; [ -z "$checks" ] && checks="C01 C02 C03 C04 C05 C06 C07 C08 C09 C10 C11 C12 C13 C14 C15 C16 C17 C18"
for c in $checks; do
  s=$(date +%s)
  out=$(run_check $c thorough $seed); rc=$?
  e=$(date +%s)
  echo "THOROUGH $c seed=$seed rc=$rc $((e-s))s"
  echo "$out" | grep -E "^(violation|VIOLATION|HARNESS|regression|done|cfbsched:)" | cut -c1-700
done
