#!/usr/bin/env python3
"""tools/mk_r6_meta.py: writes seeded/R6-<n>-<a|b|c>/meta.json for the round-6 changes from
seeded/_notes/round6/descriptions.json, confirm.json (phase 1, scratch worktree) and run.json
(phase 2, /repo working tree with the patch applied, restored afterwards)."""
import json, os
desc = json.load(open('/verif/seeded/_notes/round6/descriptions.json'))
for name, (module, change, needs, breaks) in sorted(desc.items()):
    d = '/verif/seeded/' + name
    run = json.load(open(d + '/run.json')) if os.path.exists(d + '/run.json') else {}
    n = name.split('-')[1]
    meta = {
        "property": breaks, "author_says_breaks": breaks, "mutant": name, "round": 6, "module": module,
        "origin": "independent sub-agent confined to one part of the source, given the texts of all 18 properties and one-line descriptions of the earlier changes in that part; prompt: seeded/_notes/round6/agent%s-prompt.txt" % n,
        "change": change, "needs_to_manifest": needs,
        "files": {"patch": "patch.diff (git apply in /repo)", "demonstration": "demo.rs (integration test: fails with the patch, passes without)", "notes": "notes.md (the sub-agent's own notes, all three changes of that agent)"},
        "confirmed": {"how": "tools/r6_confirm.sh in the scratch worktree (demo without and with the patch, full suite with the patch); tools/r5_check.sh applied the patch to /repo's working tree, ran the quick checks listed below and restored the tree",
                      "suite_with_patch": run.get("suite_with_mutant"), "demo_without_patch": run.get("demo_without_mutant"), "demo_with_patch": run.get("demo_with_mutant")},
        "checks_run": run.get("checks", []),
    }
    json.dump(meta, open(d + '/meta.json', 'w'), indent=1)
print(len(desc), "meta files written")
