#!/bin/sh
# tools/sweep.sh <first seed> <last seed> [checks...]
# False-alarm sweep: runs the quick tier of every check under many VERIF_SEED values
# against an UNCHANGED tree. Meant for `vp run --with-repo -- sh tools/sweep.sh 2 40`:
# it builds private copies of both engines against $VP_RUN_REPO (or /repo) with a private
# target directory, so it does not disturb work in /verif or /repo.
first=$1; last=$2; shift 2
checks="$@"; [ -z "$checks" ] && checks="C01 C02 C03 C04 C05 C06 C07 C08 C09 C10 C11 C12 C13 C14 C15 C16 C17 C18"
here=$(cd "$(dirname "$0")/.." && pwd)
repo=${VP_RUN_REPO:-/repo}
tgt=$here/target-sweep
cd "$here/sim" || exit 2
sed -i "s#path = \"/repo\"#path = \"$repo\"#" Cargo.toml
sed -i "s#target-dir = \"/verif/target\"#target-dir = \"$tgt\"#" .cargo/config.toml
cargo build --release 2>&1 | tail -2
bin=$tgt/release/cfbsim
cd "$here/sched" && sed -i "s#/verif/target/sched#$tgt/sched#" .cargo/config.toml
export VERIF_NO_EVIDENCE=1
# witnesses, known findings, replays and scratch files of THIS snapshot (not of the live /verif,
# whose witnesses may belong to fixes this snapshot's repository copy does not have yet)
export VERIF_HOME=$here
mkdir -p $here/target/tmp $here/replays
bad=0; n=0
for seed in $(seq $first $last); do
  for c in $checks; do
    n=$((n+1))
    if [ "$c" = "C14" ]; then
      out=$(cd "$here/sched" && CFB_SRC=$repo/src ./sync-manifest.sh >/dev/null 2>&1; cd "$here/sched" && CFB_SRC=$repo/src cargo build --release --offline >/dev/null 2>&1; $tgt/sched/release/cfbsched run --tier quick --seed $seed --out-root $here/sweep-out 2>&1); rc=$?
    else
      out=$($bin run --check $c --tier quick --seed $seed 2>&1); rc=$?
    fi
    if [ $rc -ne 0 ]; then
      bad=$((bad+1))
      echo "ALARM seed=$seed check=$c rc=$rc"
      echo "$out" | grep -E "^(violation|VIOLATION|HARNESS|regression)" | cut -c1-500
    fi
  done
  echo "sweep: seed $seed done ($n runs so far, $bad alarms)"
done
echo "sweep finished: seeds $first..$last, $n runs, $bad alarms"
