#!/bin/sh
# tools/seeded_eval.sh <Cxx> <a|b> [check ids to run ...]
# 1. confirms in the scratch worktree /tmp/wt_<Cxx> that the mutant compiles, passes the
#    existing suite, and that its demo fails with it and passes without it;
# 2. stores it under /verif/seeded/<Cxx>-<letter>/;
# 3. applies it to /repo's working tree, runs the given quick checks (default: own), undoes it.
id=$1; m=$2; shift 2
checks="$@"; [ -z "$checks" ] && checks=$id
# round 2 mutants live in /tmp/wu_<Cxx> and are stored as <Cxx>-c / <Cxx>-d
wt=${SEEDED_WT:-/tmp/wt_$id}
out=$wt/out
dm=$m
if [ -n "$SEEDED_ROUND2" ]; then wt=/tmp/wu_$id; out=$wt/out; [ "$m" = "a" ] && dm=c; [ "$m" = "b" ] && dm=d; fi
dst=/verif/seeded/$id-$dm
# round 3 (module-targeted): id is the agent number N, worktree /tmp/wv_N, stored as M<N>-<letter>;
# the checks to run must be given explicitly
if [ -n "$SEEDED_ROUND3" ]; then wt=/tmp/wv_$id; out=$wt/out; dst=/verif/seeded/M$id-$m; fi
# round 4 (failure-handling, module-targeted): worktree /tmp/ww_N, stored as F<N>-<letter>
if [ -n "$SEEDED_ROUND4" ]; then wt=/tmp/ww_$id; out=$wt/out; dst=/verif/seeded/F$id-$m; fi
# round 5: worktree /tmp/wy_<Cxx>, stored as <Cxx>-e / <Cxx>-f
if [ -n "$SEEDED_ROUND5" ]; then wt=/tmp/wy_$id; out=$wt/out; [ "$m" = "a" ] && dm=e; [ "$m" = "b" ] && dm=f; dst=/verif/seeded/$id-$dm; fi
[ -f $out/mutant_$m.diff ] || { echo "no mutant $id $m"; exit 2; }
cd $wt || exit 2
git checkout -q -- src 2>/dev/null
rm -f tests/demo_mutant_*.rs
cp $out/demo_mutant_$m.rs tests/demo_mutant_$m.rs
base=$(cargo test --offline --test demo_mutant_$m 2>&1 | grep -E "^test result" | head -1)
git apply $out/mutant_$m.diff || { echo "SEEDED $id-$m APPLY-FAILED in worktree"; exit 3; }
with=$(cargo test --offline --test demo_mutant_$m 2>&1 | grep -E "^test result" | head -1)
rm -f tests/demo_mutant_$m.rs
suite=$(cargo test --offline 2>&1 | grep -E "^test result" | awk '{p+=$4; f+=$6} END {print p" passed "f" failed"}')
git checkout -q -- src
mkdir -p $dst
cp $out/mutant_$m.diff $dst/patch.diff
cp $out/demo_mutant_$m.rs $dst/demo.rs
echo "SEEDED $(basename $dst) worktree: suite with mutant: $suite | demo without: $base | demo with: $with"
# run the checks against /repo with the mutant applied
cd /repo || exit 2
if [ -n "$(git status --porcelain -- src)" ]; then echo "repo working tree not clean"; exit 2; fi
git apply $dst/patch.diff || { echo "SEEDED $id-$m APPLY-FAILED in /repo"; exit 3; }
trap 'cd /repo && git checkout -- . ' EXIT INT TERM
res=""
for c in $checks; do
  o=$(cd /verif && ./check.sh $c quick 2>&1); rc=$?
  sigs=$(echo "$o" | grep -E "^violation sig=" | sed 's/ cases=.*//; s/violation sig=//' | cut -c1-110 | tr '\n' ';')
  [ -z "$sigs" ] && sigs=$(echo "$o" | grep -E "VIOLATION|regression" | head -2 | cut -c1-140 | tr '\n' ';')
  echo "SEEDED $(basename $dst) check $c quick rc=$rc $sigs"
  res="$res{\"check\":\"$c\",\"tier\":\"quick\",\"exit\":$rc,\"signatures\":\"$(echo $sigs | sed 's/"/\\"/g')\"},"
done
cat > $dst/run.json <<EOJ
{"suite_with_mutant":"$suite","demo_without_mutant":"$base","demo_with_mutant":"$with","checks":[${res%,}]}
EOJ
