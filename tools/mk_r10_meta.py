#!/usr/bin/env python3
"""tools/mk_r10_meta.py: writes seeded/R10-*/meta.json from seeded/_notes/round10/descriptions.json,
outcomes.json, confirm.json (scratch worktree) and run.json (tools/r8_eval.sh / tools/bg_mutant.sh)."""
import json, os
base = '/verif/seeded/_notes/round10/'
desc = json.load(open(base + 'descriptions.json'))
outcomes = json.load(open(base + 'outcomes.json'))
for name, (module, change, needs, breaks) in sorted(desc.items()):
    d = '/verif/seeded/' + name
    run = json.load(open(d + '/run.json')) if os.path.exists(d + '/run.json') else json.load(open(d + '/confirm.json'))
    n = name.split('-')[1]
    meta = {
        "property": breaks, "author_says_breaks": breaks, "mutant": name, "round": 10, "module": module,
        "origin": "independent sub-agent with its own scratch worktree, given the texts of two properties, a list of change kinds already tried and a request for changes that need something specific to manifest; prompt: seeded/_notes/round10/agent%s-prompt.txt" % n,
        "change": change, "needs_to_manifest": needs, "outcome": outcomes.get(name, ""),
        "files": {"patch": "patch.diff (git apply in /repo)", "demonstration": "demo.rs (integration test: fails with the patch, passes without)", "notes": "notes.md (the sub-agent's own notes, both changes of that agent)"},
        "confirmed": {"how": "tools/r10_confirm.sh in the scratch worktree (demo without and with the patch, full suite with the patch); tools/r8_eval.sh applied the patch to /repo's working tree, ran the quick checks listed below through check.sh and restored the tree (git checkout -- .); C13 runs marked 'bg' were made by tools/bg_mutant.sh on a private snapshot of /repo (vp run --with-repo)",
                      "suite_with_patch": run.get("suite_with_mutant"), "demo_without_patch": run.get("demo_without_mutant"), "demo_with_patch": run.get("demo_with_mutant")},
        "checks_run": run.get("checks", []),
    }
    json.dump(meta, open(d + '/meta.json', 'w'), indent=1)
print(len(desc), "meta files written")
