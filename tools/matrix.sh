#!/bin/sh
# tools/matrix.sh [mutant dirs...] : every seeded mutant x every check (quick tier), on a
# private snapshot of /repo (for `vp run --with-repo`). One line per (mutant, check).
. "$(dirname "$0")/bg_build.sh"
muts="$@"; [ -z "$muts" ] && muts=$(ls -d $here/seeded/C*-? | xargs -n1 basename)
checks="C01 C02 C03 C04 C05 C06 C07 C08 C09 C10 C11 C12 C13 C14 C15 C16 C17 C18"
for m in $muts; do
  ( cd $repo && git checkout -q -- . && git apply $here/seeded/$m/patch.diff ) || { echo "MATRIX $m APPLY-FAILED"; continue; }
  ( cd "$here/sim" && cargo build --release 2>&1 | grep -E "^error" | head -3 )
  line="MATRIX $m"
  for c in $checks; do
    out=$(run_check $c quick 1); rc=$?
    sig=$(echo "$out" | grep -E "^violation sig=" | head -1 | sed 's/violation sig=//; s/ cases=.*//' | cut -c1-60)
    [ "$c" = "C14" ] && [ $rc -eq 1 ] && sig="deadlock/other"
    line="$line | $c:$rc${sig:+($sig)}"
  done
  echo "$line"
  ( cd $repo && git checkout -q -- . )
done
