#!/usr/bin/env python3
"""tools/apply_reeval.py <log>: folds the `REEVAL <mutant> <check> rc=<n> <sig>` lines of a
tools/reeval.sh run into seeded/<mutant>/meta.json (checks_run[].exit / .signatures, plus a
'reevaluated' note), so that the metas describe the machinery as it is now."""
import json, re, sys, os
log = sys.argv[1]
n = 0
for l in open(log):
    m = re.match(r'REEVAL (\S+) (C\d\d) rc=(\d+) ?(.*)', l)
    if not m: continue
    mut, chk, rc, sig = m.group(1), m.group(2), int(m.group(3)), m.group(4).strip()
    p = f'/verif/seeded/{mut}/meta.json'
    if not os.path.exists(p): continue
    meta = json.load(open(p))
    found = False
    for c in meta.get('checks_run', []):
        if c['check'] == chk:
            if c.get('exit') != rc:
                c['previous_exit'] = c.get('exit')
            c['exit'] = rc
            if sig: c['signatures'] = sig
            c['reevaluated'] = 'tools/reeval.sh against the final machinery'
            found = True
    if not found:
        meta.setdefault('checks_run', []).append({'check': chk, 'tier': 'quick', 'exit': rc, 'signatures': sig, 'reevaluated': 'tools/reeval.sh against the final machinery'})
    json.dump(meta, open(p, 'w'), indent=1)
    n += 1
print('updated', n, 'entries')
