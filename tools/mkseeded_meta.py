#!/usr/bin/env python3
"""Writes /verif/seeded/<id>-<m>/meta.json (+ notes.md copied from the sub-agent's worktree)."""
import json, os, shutil
NEEDS = {
 "C01-a": ("remove_dir_entry: predecessor's parent gets right_sibling = NO_STREAM instead of inheriting the predecessor's left child", ">= 5 siblings inserted in an order giving m(d(-,h(f,-)),x), then removing m: f vanishes from listings and lookups"),
 "C01-b": ("remove_stream: mini-stream test `<` became `<=` for exactly 4096-byte streams", "a stream of exactly 4096 bytes removed via remove_stream / remove_storage_all (with many small streams: another stream's mini chain is freed)"),
 "C02-a": ("append_fat_sector: header num_fat_sectors only written while the DIFAT entry is in the header", "a V3 file > 7.1 MB (more than 109 FAT sectors) and a strict reopen of the bytes"),
 "C02-b": ("remove_dir_entry: after relinking the predecessor only its right-sibling field is written, not its changed left sibling", "removing an entry with two children whose left child has a right subtree; then reopening the bytes (live object unaffected)"),
 "C03-a": ("append_fat_sector: header DIFAT start/count only written when the DIFAT chain is first created", "a second DIFAT sector: V3 file > 15.5 MB"),
 "C03-b": ("write_data_to_stream case 2b: old mini chain only freed when the carried-over prefix is non-empty", "a non-empty small stream overwritten from offset 0 past 4096 bytes in one flush: orphaned mini chain"),
 "C04-a": ("permissive FAT tail stripping `>` became `>=`: the last sector's FAT cell is stripped when it is 0", "a foreign layout whose last physical sector chains to sector 0, opened permissively"),
 "C04-b": ("remove_dir_entry: only the two-children path paints the moved-up entry black", "a foreign real red-black tree; removal of a black entry with one red child and a red parent; strict reopen"),
 "C05-a": ("Directory::validate: loop check skipped for stream entries", "a sibling cycle made only of stream entries (one corrupted sibling field): open spins forever with growing memory"),
 "C05-b": ("next_mini_sector bounds check `>=` became `>`", "a mini stream whose start sector equals the number of MiniFAT entries: index-out-of-bounds panic on first read"),
 "C06-a": ("fill_buf no longer writes the dirty buffer back before refilling", "overwrite ending before EOF followed directly by a read on the same handle: the overwrite is lost"),
 "C06-b": ("mini->regular migration copies old_stream_len bytes of prefix instead of buf_offset", "a flush whose buffer starts inside a 1..4095-byte stream and ends at or past 4096 (not a pure append)"),
 "C07-a": ("as C01-a (predecessor's left subtree unlinked on two-children removal)", "same tree shape, with handles open: the vanished stream is still reachable through its handle only"),
 "C07-b": ("resize_stream case 3b `<` became `<=`: set_len(4096) on a larger stream migrates it into the mini stream while the entry says 4096", "handle.set_len(4096) on a stream > 4096, then further use: other streams' sectors are read / written / freed"),
 "C08-a": ("mini->regular migration on set_len copies chain.len() bytes (incl. the stale tail of the last mini sector)", "mini stream with a length not multiple of 64 and stale bytes in its last mini sector, grown by set_len to >= 4096"),
 "C08-b": ("regular-chain zero fill guarded by new_len > old_chain_len instead of > old_stream_len", "stream >= 4096 shrunk and regrown within its last sector"),
 "C09-a": ("compare_names ASCII fast path folds to lower case", "same-length sibling names where [ ] ^ _ ` meets a letter: wrong listing order; mixed ASCII / non-ASCII sets become intransitive and lose entries on removal"),
 "C09-b": ("as C01-a", "6 siblings in a particular insertion order, then removing the root of the sibling tree"),
 "C10-a": ("parent-is-a-stream refusal moved after allocate_dir_entry()", "refused create under a stream parent while the directory is exactly full: a directory sector is appended before the refusal"),
 "C10-b": ("seek(End(..)) flushes buffered writes before the range check", "a refused SeekFrom::End on a handle holding unflushed writes: the file changes although the call is refused"),
 "C11-a": ("zero_fill loses its start < end guard", "regular stream whose stream_len field exceeds its chain (accepted permissively), then a growing set_len: subtraction overflow"),
 "C11-b": ("free mini-sector list pruned by root_len/64 instead of minifat.len()", "root stream_len larger than the MiniFAT covers, then free the chain owning the last MiniFAT entry and allocate a mini sector: index out of bounds"),
 "C12-a": ("failed refill undoes the offset advance and keeps the (partly overwritten) old window", "stream longer than the buffer, refill with > 1 underlying read, fault at a non-first read, then a backward seek into the previous window and a read (no retry of the failed read)"),
 "C12-b": ("open: FAT read loop ends a sector early on a read error instead of failing", "> 1 FAT sector (V3 > 64 KB), permissive open, one read fault inside a non-last FAT sector: open succeeds with shifted FAT, later reads return wrong data"),
 "C13-a": ("write_data_to_stream skips the directory-entry write when the in-memory entry is unchanged", "a fault on the directory-entry update of a length-changing write-back, then a retried flush returning Ok: the bytes on disk keep the old entry (only visible by reopening the bytes)"),
 "C13-b": ("fill_buf clears the buffer also when the write-back (not the refill) failed", "write then read on the same handle with a fault in the read-triggered write-back: dirty data dropped, next flush returns Ok"),
 "C14-a": ("stack_left_spine takes the read lock again while next() holds it", "a writer queues for the write lock between the two acquisitions inside one next() call"),
 "C14-b": ("Entries holds the read guard for its whole lifetime", "an iterator alive while its own thread makes another read-only call with a writer queued, or does stream I/O inside the loop"),
 "C15-a": ("as C03-b (old mini chain not freed on overwrite from offset 0 past 4096)", "cycle: small stream, overwrite from 0 to >= 4096 through a handle, remove"),
 "C15-b": ("MiniFAT chain extended whenever len % entries_per_sector == 0 (non-empty)", "cycle allocating exactly at a whole-sector multiple of mini sectors in use (128k V3 / 1024k V4)"),
 "C16-a": ("as C04-a", "strict accepts a valid foreign layout (last sector chains to sector 0) that permissive open rejects / misreads"),
 "C16-b": ("Directory::validate passes parent_is_red = false for right siblings", "red/red pair joined by a right link is accepted by strict open"),
 "C17-a": ("timestamps rounded to the nearest tick instead of toward the Unix epoch", "times whose nanoseconds mod 100 are in 50..=99"),
 "C17-b": ("append_mini_sector also sets the root's modified time to now", "root modified time set, then a small-stream write that appends a mini sector"),
 "C18-a": ("Stream::write re-bases the buffer at cursor instead of offset + cursor when the buffer is full", "one handle writing > 2 x max_buffer_size from 0 (or > max_buffer_size from a non-zero offset): results depend on max_buffer_size"),
 "C01-c": ("DirEntry::read_from rejects name_len_bytes >= 64 (was > 64)", "an object whose name is exactly 31 UTF-16 units, then close and reopen: the produced file no longer opens"),
 "C01-d": ("compare_names ASCII fast path folds to lower case", "same-length ASCII siblings where one of [ ] ^ _ ` meets a letter: listings in non-CFB order"),
 "C02-c": ("paint_black writes the colour byte at offset 66 (object type) instead of 67", "a foreign file with red entries, a removal whose replacement entry is red, then a reopen of the bytes"),
 "C02-d": ("name-length field counts code points instead of UTF-16 units", "a name containing a supplementary-plane character, then a reopen of the bytes"),
 "C03-c": ("as C01-a (predecessor's left subtree unlinked on two-children removal)", "the unlinked entries stay allocated: their sectors / mini sectors have no owner"),
 "C03-d": ("as C01-d (lower-case folding in the ASCII fast path)", "the stored sibling tree is no search tree under CFB order although the API looks consistent"),
 "C04-c": ("as C01-d", "a spec-ordered foreign tree with [ ] ^ _ ` against letters is rejected by both open modes"),
 "C04-d": ("MiniFAT vs root-stream size check demands equality", "a foreign file whose mini stream ends in free mini sectors still counted in the root size: strict open rejects"),
 "C05-c": ("permissive validation tolerates repeated MiniFAT cells of value 0", "zero-filled MiniFAT sector with 0 on a cycle, then reading a mini stream that leads to 0: MiniChain::new spins with unbounded memory"),
 "C05-d": ("directory Vec pre-sized from the unvalidated header num_dir_sectors", "V4 file with a huge value at header offset 40: multi-terabyte allocation request, process abort"),
 "C06-c": ("set_len clears the handle's buffer only when the position was clamped", "shrink landing inside the buffered window at or after the position, then reads: bytes beyond the new end are returned"),
 "C06-d": ("a new DIFAT sector is not recorded in the FAT (and so handed out again as a data sector)", "one handle writing a V3 stream past ~7.1 MB, then reading it back"),
 "C07-c": ("free-list sectors are not re-initialised for SectorInit::Zero", "regular sectors with non-zero data freed earlier, then another stream grown by set_len into them: foreign bytes visible"),
 "C07-d": ("remove_dir_entry writes the parent's right link at offset 68 (left link) on disk", "removing a right child, then reopening (the live object is unaffected)"),
 "C08-c": ("as C06-c", "handle with buffered old content, position before the cut: set_len(smaller) then set_len(larger) serves stale bytes from the buffer"),
 "C08-d": ("sector zero-initialisation uses write() instead of write_all()", "a backend returning short write counts and a grow into reused regular sectors"),
 "C09-c": ("case folding done per UTF-16 code unit (surrogates pass through)", "cased supplementary-plane letters (Deseret, Osage, Adlam ...) addressed or re-created under the other case"),
 "C09-d": ("name validation moved below directory-entry allocation", "an invalid-name create issued exactly when the directory has no spare slot: a directory sector is appended before the refusal"),
 "C10-c": ("create_storage_all validates only the leaf name up front", "create_storage_all with a fresh valid ancestor, an invalid middle component and a valid leaf: the ancestor is left behind"),
 "C10-d": ("failed flush restores the dirty marker only for I/O errors, not for NotFound / InvalidInput", "needs TWO handles on one stream (or a handle on a removed stream): outside the statement of every property; recorded, not claimed"),
 "C11-c": ("in-memory relink of the predecessor's parent dropped on two-children removal (disk write kept)", "cached sibling tree gets a cycle: a later lookup / create for a name in that range spins forever"),
 "C11-d": ("append_fat_sector creates the DIFAT sector only when index > len (was >=)", "any allocation needing FAT sector number 110 (V3 file growing past ~6.8 MB): index out of bounds panic"),
 "C12-c": ("sector position cache records the target before the seek can fail", "a seek fault during a stream refill followed by an immediate retry on the same handle: data read from the old offset"),
 "C12-d": ("failed-refill cleanup moved from fill_buf into Read::read", "BufRead users (fill_buf/consume, read_until): retry after a failed refill serves the previous window's bytes"),
 "C13-c": ("free_sector pushes the sector onto the free list before the FAT write", "fault on the FAT update while freeing the first sector of a regular chain, retried: the sector is on the free list twice and later handed to two streams"),
 "C13-d": ("total_len resynced from the directory entry also when the write-back failed", "append buffered, write-back triggered by an out-of-buffer End-/Current-relative seek fails, seek retried: it lands too early (or panics on a debug assertion)"),
 "C14-c": ("failed flush re-acquires the read lock while its own write guard is still alive", "a flush whose write-back fails (injected write failure, or a second handle truncating the stream): self-deadlock that also blocks all readers"),
 "C14-d": ("set_len grows in separately locked 1 MiB steps", "one set_len growing a stream by more than 1 MiB while a reader looks at its length: intermediate lengths become visible"),
 "C15-c": ("mini-stream container chain restarted whenever the mini stream is empty", "the cycle's small stream is the only content of the mini stream when it is released; the old container chain stays allocated"),
 "C15-d": ("free_mini_chain_after marks END_OF_CHAIN before reading the successor: nothing is freed", "in-place shrink of a small stream by at least one whole mini sector, repeated: leaked mini sectors"),
 "C16-c": ("strict MiniFAT sector-count check skipped when the file has no MiniFAT chain", "file without any mini stream whose header claims a MiniFAT sector count: strict accepts the deviation"),
 "C16-d": ("FAT consistency loop runs before the FAT/DIFAT sector marks are repaired", "unmarked FAT/DIFAT sector whose stale cell looks like a live or out-of-range link: permissive rejects the documented deviation"),
 "C17-c": ("with_dir_entry_mut skips the write when the in-memory entry is unchanged", "a setter whose write fails once and is retried with the same value: Ok, but the file keeps the old metadata (visible after reopen)"),
 "C17-d": ("child-pointer update written as 8 bytes: zeroes the first 4 bytes of the parent's CLSID on disk", "storage / root with a CLSID, removal of the top child of its sibling tree, reopen"),
 "C18-c": ("write_data_to_stream mini/regular decision `<` became `<=` for a flush ending exactly at 4096", "whether a flush ends exactly on 4096 depends on max_buffer_size: same history, different outcome per buffer size"),
 "C18-d": ("Chain::write pushes the new sector id only after a successful write", "Interrupted on the first data write into a newly appended sector: the retry allocates a second sector"),
 "C18-b": ("write_clsid uses write() instead of write_all() for the 8-byte tail", "a backend that splits or interrupts exactly that <= 8-byte write"),
}
root = '/verif/seeded'
for d in sorted(os.listdir(root)):
    p = os.path.join(root, d)
    if not os.path.isdir(p) or d not in NEEDS: continue
    prop, m = d.split('-')
    notes = f'/tmp/wt_{prop}/out/notes.md' if m in 'ab' else f'/tmp/wu_{prop}/out/notes.md'
    if os.path.exists(notes): shutil.copy(notes, os.path.join(p, 'notes.md'))
    run = {}
    if os.path.exists(os.path.join(p, 'run.json')):
        try: run = json.load(open(os.path.join(p, 'run.json')))
        except Exception as e: run = {"error": str(e)}
    meta = {
      "property": prop, "mutant": m, "origin": "independent sub-agent given only the property text and a scratch worktree of /repo",
      "change": NEEDS[d][0], "needs_to_manifest": NEEDS[d][1],
      "files": {"patch": "patch.diff (git apply in /repo)", "demonstration": "demo.rs (integration test: fails with the patch, passes without)", "notes": "notes.md (the sub-agent's own notes, both mutants of this property)"},
      "confirmed": {"how": "tools/seeded_eval.sh: in the scratch worktree the demo was run without and with the patch and the full suite with the patch; then the patch was applied to /repo's working tree, the property's quick check was run, and the tree was restored",
                    "suite_with_patch": run.get("suite_with_mutant"), "demo_without_patch": run.get("demo_without_mutant"), "demo_with_patch": run.get("demo_with_mutant")},
      "checks_run": run.get("checks", []),
    }
    json.dump(meta, open(os.path.join(p, 'meta.json'), 'w'), indent=1)
    print(d, [ (c['check'], c['exit']) for c in meta['checks_run']])

# round 3: module-targeted (agent N was confined to a few source files and given all 18 property texts)
NEEDS3 = {
 "M1-a": ("C04/C16", "src/lib.rs (FAT reading)", "permissive FAT tail stripping `>` became `>=`: the last physical sector's FAT cell is dropped when it is 0", "a foreign layout where sector 0 is a non-first chain member whose predecessor is the last sector of the file"),
 "M1-b": ("C18", "src/internal/header.rs", "the 6 reserved header bytes are skipped with read() instead of read_exact()", "a backend cutting that read below 6 bytes or raising Interrupted on exactly that call"),
 "M1-c": ("C02/C04", "src/internal/consts.rs + DIFAT reading", "DIFAT entries per sector hard-wired to 127 when reading", "version 4 AND a DIFAT sector: a self-written file > 457 MB or a foreign V4 layout with > 109 FAT sectors"),
 "M2-a": ("C03/C02", "src/internal/alloc.rs", "append_fat_sector counts the DIFAT sector's link slot as an entry slot", "a V3 file with more than 236 FAT sectors (> 15.5 MB), then the bytes reopened / checked"),
 "M2-b": ("C08", "src/internal/alloc.rs", "free-list sectors are not re-initialised for SectorInit::Zero", "a regular stream with non-zero data freed, then another stream grown by set_len into those sectors"),
 "M2-c": ("C05/C11", "src/internal/alloc.rs", "Allocator::next range check `>=` became `>`", "a corrupted start sector exactly equal to the sector count: index-out-of-bounds panic"),
 "M3-a": ("C13/C02", "src/internal/minialloc.rs", "set_minifat updates the in-memory MiniFAT before the cell is written", "a write fault on exactly a MiniFAT cell write, retried flush returns Ok, then the BYTES reopened: stream cannot be read"),
 "M3-b": ("C04/C11", "src/internal/minialloc.rs", "new mini sector index taken from root.stream_len/64 instead of minifat.len()", "a foreign file whose mini stream ends in free mini sectors, then the first allocation of a new mini sector"),
 "M3-c": ("C03", "src/internal/minichain.rs", "MiniChain::set_len round-up lost its -1", "Stream::set_len(n) below 4096 with n a multiple of 64: one mini sector too many in the chain"),
 "M4-a": ("C06", "src/internal/stream_buffer.rs", "write_bytes sets the filled mark unconditionally", "write N, seek back inside the buffered window, write fewer bytes than remain: dirty tail dropped"),
 "M4-b": ("C18", "src/internal/chain.rs", "Chain::write pops a just-appended sector id again when the first write into it fails", "Interrupted exactly on the first data write into a freshly appended sector of a regular chain"),
 "M4-c": ("C03", "src/internal/chain.rs", "Chain::set_len computes new_len / sector_len + 1 sectors", "Stream::set_len(n) with n >= 4096 an exact multiple of the sector size"),
 "M5-a": ("C15", "src/internal/directory.rs", "free_dir_entry pops trailing Unallocated entries from the in-memory vector", "directory slots in use an exact multiple of 4 (V3) / 32 (V4), then a create+remove cycle: one directory sector leaked per cycle"),
 "M5-b": ("C18", "src/internal/direntry.rs", "write_clsid uses write() instead of write_all() for the 8-byte tail", "a backend splitting or interrupting exactly that <= 8-byte write"),
 "M5-c": ("C16", "src/internal/directory.rs", "Directory::validate passes parent_is_red = false along right-sibling links", "two adjacent red nodes joined by a right link: strict accepts"),
 "M6-a": ("C09/C03/C04", "src/internal/path.rs", "equal-length non-ASCII names compared by upper-cased code points instead of UTF-16 code units", "same-length siblings where a supplementary-plane char meets a char in U+E000..U+FFFF"),
 "M6-b": ("C14", "src/internal/entry.rs", "Entries::next descends through a helper that takes the read lock again", "walk() over a non-empty storage concurrent with a stream writer queued between the two acquisitions"),
 "M6-c": ("C09/C10/C01", "src/internal/path.rs", "`..` above the root is clamped for absolute paths", "an absolute path with more `..` than names: no longer refused, mutating calls act on another object"),
 "M7-a": ("C14", "src/lib.rs", "is_storage holds a read guard while calling a helper that takes it again", "is_storage() concurrent with stream I/O, writer queued between the two acquisitions"),
 "M7-b": ("C01/C09", "src/lib.rs", "create_storage_all returns Ok early when the whole path exists, whatever its type", "create_storage_all(p) where p names an existing STREAM (last component)"),
 "M7-c": ("C16/C18", "src/lib.rs", "OpenOptions::open(path) drops the options (strict, max_buffer_size)", "a real file on disk opened read-only BY PATH with .strict() / .max_buffer_size()"),
 "M8-a": ("C13", "src/internal/stream.rs", "Stream::flush only flushes the underlying file when the handle still holds dirty data", "write, then seek away / read on (write-back happens), then flush() on a backend whose flush matters (write-back cache)"),
 "M8-b": ("C08", "src/internal/stream.rs", "mini->regular migration on set_len copies the whole mini chain incl. the stale tail", "a small stream with stale bytes in its last mini sector grown by set_len past 4096"),
 "M8-c": ("C06/C08/C18", "src/internal/stream.rs", "set_len clears the handle buffer only when the position was clamped", "buffered bytes beyond the new length and position <= new length, then reads"),
}
for d in sorted(os.listdir(root)):
    p = os.path.join(root, d)
    if not os.path.isdir(p) or d not in NEEDS3: continue
    n = d[1:].split('-')[0]
    notes = f'/tmp/wv_{n}/out/notes.md'
    if os.path.exists(notes): shutil.copy(notes, os.path.join(p, 'notes.md'))
    run = {}
    if os.path.exists(os.path.join(p, 'run.json')):
        try: run = json.load(open(os.path.join(p, 'run.json')))
        except Exception as e: run = {"error": str(e)}
    # keep results of earlier evaluations of other checks (run.json holds the latest call only)
    old = {}
    if os.path.exists(os.path.join(p, 'meta.json')):
        try: old = {c['check']: c for c in json.load(open(os.path.join(p, 'meta.json'))).get('checks_run', [])}
        except Exception: old = {}
    for c in run.get("checks", []): old[c['check']] = c
    props, module, change, needs = NEEDS3[d]
    meta = {
      "property": props, "mutant": d, "origin": "independent sub-agent (round 3) confined to the named source file(s), given the texts of all 18 properties and a scratch worktree of /repo; it chose which property to break",
      "module": module, "change": change, "needs_to_manifest": needs,
      "files": {"patch": "patch.diff (git apply in /repo)", "demonstration": "demo.rs (integration test: fails with the patch, passes without)", "notes": "notes.md (the sub-agent's own notes, all three mutants of that agent)"},
      "confirmed": {"how": "SEEDED_ROUND3=1 tools/seeded_eval.sh: in the scratch worktree the demo was run without and with the patch and the full suite with the patch; then the patch was applied to /repo's working tree, the named quick checks were run, and the tree was restored",
                    "suite_with_patch": run.get("suite_with_mutant"), "demo_without_patch": run.get("demo_without_mutant"), "demo_with_patch": run.get("demo_with_mutant")},
      "checks_run": [old[k] for k in sorted(old)],
    }
    json.dump(meta, open(os.path.join(p, 'meta.json'), 'w'), indent=1)
    print(d, [ (c['check'], c['exit']) for c in meta['checks_run']])

# round 4: failure handling / environment (agent N confined to a few source files, given C13 C12 C02 C18 (C16 C17) only)
NEEDS4 = {
 "F1-a": ("C13", "src/internal/alloc.rs", "Allocator::flush skips the underlying flush when an `unflushed` flag is clear, and clears the flag BEFORE the underlying flush succeeded", "the underlying flush() fails once, the flush is retried, and the backend makes bytes durable only on flush() (write-back cache)"),
 "F1-b": ("C13 (author's reading)", "src/internal/alloc.rs", "free_chain_after frees the tail before cutting the chain", "a write failure at the 2nd+ FAT update inside a shrinking set_len (regular stream): the immediate retry fails for good ('next_id invalid'); only a LATER retry through a new handle, after other streams took over the freed sectors, frees those streams' sectors"),
 "F2-a": ("C02 (author's reading)", "src/internal/directory.rs", "allocate_dir_entry pushes the new slot in memory before the directory chain is grown", "V4, the create that starts a new directory sector, one failed write during the growth, successful retry: header num_dir_sectors one too small, STRICT reopen rejects (permissive and live object fine)"),
 "F2-b": ("C13/C17", "src/internal/directory.rs", "Directory::flush skips the flush when a needs_flush flag is clear; flag cleared before the allocator flush succeeded", "one failing underlying flush(), retry without a write in between, write-back-cache backend"),
 "F3-a": ("C18/C12", "src/internal/chain.rs", "Chain::read loops over sectors inside one call and has advanced its offset when a later sector's read fails", "Interrupted on the read of a 2nd or later sector of one multi-sector read (read_exact retries with the same buffer from the advanced offset)"),
 "F3-b": ("C13", "src/internal/sector.rs", "Sectors::flush skips the underlying flush unless a dirty flag is set; flag taken before the flush succeeds", "failed underlying flush() then retry, write-back-cache backend"),
 "F4-a": ("C12", "src/internal/stream.rs", "a failed refill steps back instead of clearing the (already partly overwritten) buffer", "stream longer than the buffer, read error on the 2nd+ underlying read of a refill, then a backward seek into the old window and a read"),
 "F4-b": ("C13", "src/internal/stream.rs", "total_len resynced from the directory entry also when the write-back failed", "failed write-back of appended bytes, then a length-dependent call (len, seek End) on the same handle before the retry"),
 "F5-a": ("C18 (author: C13)", "src/internal/minichain.rs", "MiniChain::write loops over mini sectors in one call and reports Err after earlier pieces were written", "Interrupted on a non-first 64-byte piece of a mini-stream write-back: write_all retries the whole buffer at the advanced offset"),
 "F5-b": ("C18/C12", "src/internal/minichain.rs", "MiniChain::read ignores the count returned by the underlying read", "a short read while reading mini-stream data"),
 "F6-a": ("C13/C02", "src/lib.rs", "create_with_version_and_options writes header/FAT/directory through a BufWriter that is flushed by Drop (errors discarded)", "a write error on the underlying file during create: Ok is returned, nothing (or a prefix) is in the file"),
 "F6-b": ("C18", "src/lib.rs", "OpenOptions::create(path) lost .truncate(true)", "create by PATH over an existing longer file: stale tail stays, bytes differ from the in-memory run"),
}
for d in sorted(os.listdir(root)):
    p = os.path.join(root, d)
    if not os.path.isdir(p) or d not in NEEDS4: continue
    n = d[1:].split('-')[0]
    notes = f'/tmp/ww_{n}/out/notes.md'
    if os.path.exists(notes): shutil.copy(notes, os.path.join(p, 'notes.md'))
    run = {}
    if os.path.exists(os.path.join(p, 'run.json')):
        try: run = json.load(open(os.path.join(p, 'run.json')))
        except Exception as e: run = {"error": str(e)}
    old = {}
    if os.path.exists(os.path.join(p, 'meta.json')):
        try: old = {c['check']: c for c in json.load(open(os.path.join(p, 'meta.json'))).get('checks_run', [])}
        except Exception: old = {}
    for c in run.get("checks", []): old[c['check']] = c
    props, module, change, needs = NEEDS4[d]
    meta = {
      "property": props, "mutant": d, "origin": "independent sub-agent (round 4: failure handling and environment) confined to the named source file(s), given the texts of C13, C12, C02, C18 (and C16/C17 where relevant) and a scratch worktree of /repo",
      "module": module, "change": change, "needs_to_manifest": needs,
      "files": {"patch": "patch.diff (git apply in /repo)", "demonstration": "demo.rs (integration test: fails with the patch, passes without)", "notes": "notes.md (the sub-agent's own notes, both mutants of that agent)"},
      "confirmed": {"how": "SEEDED_ROUND4=1 tools/seeded_eval.sh: in the scratch worktree the demo was run without and with the patch and the full suite with the patch; then the patch was applied to /repo's working tree, the named quick checks were run, and the tree was restored",
                    "suite_with_patch": run.get("suite_with_mutant"), "demo_without_patch": run.get("demo_without_mutant"), "demo_with_patch": run.get("demo_with_mutant")},
      "checks_run": [old[k] for k in sorted(old)],
    }
    json.dump(meta, open(os.path.join(p, 'meta.json'), 'w'), indent=1)
    print(d, [ (c['check'], c['exit']) for c in meta['checks_run']])
