#!/bin/sh
# tools/sensitivity.sh <patch> <mode: apply|reverse> <check id>...
# Applies a property-breaking change to /repo's WORKING TREE, runs the baseline
# suite and the given quick checks, then restores the tree. Prints one line per check.
patch=$1; mode=$2; shift 2
cd /repo || exit 2
if [ -n "$(git status --porcelain -- src Cargo.toml)" ]; then echo "repo working tree not clean"; exit 2; fi
if [ "$mode" = "reverse" ]; then flag="-R"; else flag=""; fi
if ! git apply $flag "$patch" 2>/tmp/sens_apply.err; then echo "APPLY-FAILED $(basename $patch): $(head -1 /tmp/sens_apply.err)"; git checkout -- . ; exit 3; fi
trap 'cd /repo && git checkout -- . ' EXIT INT TERM
tests=$(cargo test --offline 2>&1 | grep -E "^test result" | awk '{p+=$4; f+=$6} END {print p" passed "f" failed"}')
for c in "$@"; do
  out=$(cd /verif && ./check.sh $c quick 2>&1)
  rc=$?
  sigs=$(echo "$out" | grep -E "^violation sig=" | sed 's/ cases=.*//' | cut -c1-120 | tr '\n' ';')
  [ -z "$sigs" ] && sigs=$(echo "$out" | grep -E "VIOLATION|regression" | head -2 | cut -c1-160 | tr '\n' ';')
  echo "SENS $(basename $patch) [$mode] tests: $tests | $c rc=$rc $sigs"
done
