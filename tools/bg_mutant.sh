#!/bin/sh
# tools/bg_mutant.sh <seeded name> <check ids...> : for `vp run --with-repo`: applies a stored seeded
# change to the run's private snapshot of /repo, builds private engines and runs the quick checks.
# One line per check: BGMUT <name> <check> rc=<rc> <signatures>.  Results are NOT evidence.
name=$1; shift
. "$(dirname "$0")/bg_build.sh" >/dev/null 2>&1
( cd $repo && git checkout -q -- . && git apply $here/seeded/$name/patch.diff ) || { echo "BGMUT $name APPLY-FAILED"; exit 3; }
( cd "$here/sim" && cargo build --release 2>&1 | grep -aE "^error" | head -3 )
for c in "$@"; do
  out=$(run_check $c quick 1); rc=$?
  sig=$(echo "$out" | grep -aE "^violation sig=" | sed 's/violation sig=//; s/ cases=.*//' | cut -c1-100 | tr '\n' ';')
  [ -z "$sig" ] && sig=$(echo "$out" | grep -aE "VIOLATION|regression|HARNESS" | head -2 | cut -c1-140 | tr '\n' ';')
  echo "BGMUT $name $c rc=$rc $sig"
done
( cd $repo && git checkout -q -- . )
