#!/usr/bin/env python3
"""Prints the 'which checks catch which seeded change' table from seeded/*/meta.json (markdown)."""
import json, os
root='/verif/seeded'
rows=[]
tot=0; caught=0
for d in sorted(os.listdir(root)):
    p=os.path.join(root,d,'meta.json')
    if not os.path.exists(p): continue
    m=json.load(open(p))
    cs=m.get('checks_run',[])
    c1=[c for c in cs if c.get('exit')==1]
    c0=[c['check'] for c in cs if c.get('exit')==0]
    tot+=1; caught+= 1 if c1 else 0
    sig='; '.join(f"{c['check']}: `{(c.get('signatures') or '').split(';')[0][:70]}`" for c in c1)
    rows.append(f"| {d} | {m.get('property','')} | {sig if sig else '-'} | {', '.join(c0) if c0 else ''} |")
print("| change | breaks (author) | caught by (quick tier): first signature | ran silent |")
print("|---|---|---|---|")
print("\n".join(rows))
print(f"\n{caught} of {tot} changes are caught by at least one check.")
