#!/bin/sh
# tools/reeval.sh [mutant dirs...] : re-runs, for every seeded mutant, the quick checks that
# its meta.json records as having caught it (exit 1), on a private snapshot of /repo (for
# `vp run --with-repo`).  One line per (mutant, check): REEVAL <mutant> <check> rc=<rc> <first sig>.
# A line with rc=0 means a check that used to catch the mutant no longer does.
. "$(dirname "$0")/bg_build.sh"
muts="$@"; [ -z "$muts" ] && muts=$(ls -d $here/seeded/*-? | xargs -n1 basename)
for m in $muts; do
  checks=$(python3 -c "
import json,sys
m=json.load(open('$here/seeded/$m/meta.json'))
print(' '.join(sorted({c['check'] for c in m.get('checks_run',[]) if c.get('exit')==1})))")
  [ -z "$checks" ] && { echo "REEVAL $m NO-CATCHING-CHECK-RECORDED"; continue; }
  ( cd $repo && git checkout -q -- . && git apply $here/seeded/$m/patch.diff ) || { echo "REEVAL $m APPLY-FAILED"; ( cd $repo && git checkout -q -- . ); continue; }
  ( cd "$here/sim" && cargo build --release 2>&1 | grep -E "^error" | head -3 )
  for c in $checks; do
    out=$(run_check $c quick 1); rc=$?
    sig=$(echo "$out" | grep -E "^violation sig=" | head -1 | sed 's/violation sig=//; s/ cases=.*//' | cut -c1-80)
    [ -z "$sig" ] && sig=$(echo "$out" | grep -E "VIOLATION|regression" | head -1 | cut -c1-100)
    echo "REEVAL $m $c rc=$rc $sig"
  done
  ( cd $repo && git checkout -q -- . )
done
echo "REEVAL done"
