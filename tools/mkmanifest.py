#!/usr/bin/env python3
"""Regenerates /verif/MANIFEST.json from the table below (keeps it valid at all times)."""
import json, subprocess
props = [json.loads(l) for l in open('/verif/properties.jsonl')]
ids = [p['id'] for p in props]

# id -> (engine, level, technique, level text, level note, design ref)
CHECKS = {}
def add(i, engine, level, technique, text, note, ref):
    CHECKS[i] = dict(engine=engine, level=level, technique=technique, text=text, note=note, ref=ref)

exec(open('/verif/tools/checks_table.py').read())

hooks = subprocess.run(['git','-C','/repo','log','--format=%h %s'],capture_output=True,text=True).stdout.splitlines()
hook_commits = [l.split()[0] for l in hooks if l.split(' ',1)[1].startswith('verif hook')]
m = {
 "version": 1,
 "setup_cmd": "./setup.sh",
 "hooks": {
   "guard": "rustc --cfg cfb_verif (simulated clock seam) and --cfg cfb_verif_sync (lock seam); off by default",
   "enable": "engine A: /verif/sim/.cargo/config.toml sets rustflags --cfg cfb_verif; engine B: the shadow manifest's build.rs emits cfb_verif and cfb_verif_sync",
   "baseline_off_cmd": "cd /repo && cargo test --workspace --no-fail-fast --offline",
   "source_commits": hook_commits,
   "add_only": True,
 },
 "engines": [
   {"name": "cfbsim", "path": "/verif/sim", "serves_properties": [i for i in ids if i in CHECKS and CHECKS[i]['engine']=='cfbsim'],
    "kind_free_text": "deterministic single-process simulator: SimDisk behind the generic F seam with explicit/rate-based fault plans, simulated clock, seeded workload generator, reference model, independent image checker (imgck) and writer (imgwr), supervisor with worker processes, minimiser and JSON replay"},
   {"name": "cfbsched", "path": "/verif/sched", "serves_properties": [i for i in ids if i in CHECKS and CHECKS[i]['engine']=='cfbsched'],
    "kind_free_text": "shuttle-based schedule explorer (seeded random + PCT schedulers) over the crate compiled with a writer-preferring RwLock model behind the cfg(cfb_verif_sync) seam"},
 ],
 "checks": [],
 "notes": "All checks: exit 0 held / 1 VIOLATION / 2 harness error; VERIF_SEED (default 1) decides every run; known findings in /verif/KNOWN_FINDINGS.txt; regression witnesses of repaired defects in /verif/findings/fixed are replayed by the owning check.",
 "not_applicable": [],
}
for i in ids:
    if i in CHECKS:
        c = CHECKS[i]
        m["checks"].append({
          "property_id": i,
          "quick_cmd": f"./check.sh {i} quick",
          "thorough_cmd": f"./check.sh {i} thorough",
          "evidence_file": f"/verif/evidence/{i}.json",
          "replay_cmd_template": "./check.sh replay {path}",
          "engine": c['engine'],
          "level_claimed": {"category": c['level'], "text": c['text'], "design_ref": c['ref']},
          "level_note": c['note'],
          "technique": c['technique'],
        })
    else:
        m["not_applicable"].append({"property_id": i, "reason": "check not built yet (work in progress; planned per DESIGN.md section 5)"})
json.dump(m, open('/verif/MANIFEST.json','w'), indent=1)
print("checks:", [c['property_id'] for c in m['checks']], "n/a:", [n['property_id'] for n in m['not_applicable']])
