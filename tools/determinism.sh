#!/bin/sh
# tools/determinism.sh [seeds] [cases-per-check]
# For every engine-A check: runs the first N cases for several VERIF_SEED values twice,
# in separate processes and at different worker counts (-j1 / -j5 / -j16), and compares
# the per-case trace hashes (hash of the complete seam event log and the final image).
seeds=${1:-5}; n=${2:-300}
bin=/verif/target/release/cfbsim
fail=0; total=0
for c in C01 C02 C03 C04 C05 C06 C07 C08 C09 C10 C11 C12 C13 C15 C16 C17 C18; do
  m=$n
  case $c in C05|C11|C12|C13|C16) m=6;; C06|C18) m=$((n/4));; esac
  for s in $(seq 1 $seeds); do
    VERIF_TRACE=1 $bin run --check $c --seed $s --cases $m -j1 2>/dev/null | grep '^T ' | sort > /tmp/det_a.txt
    VERIF_TRACE=1 $bin run --check $c --seed $s --cases $m -j5 2>/dev/null | grep '^T ' | sort > /tmp/det_b.txt
    VERIF_TRACE=1 $bin run --check $c --seed $s --cases $m -j16 2>/dev/null | grep '^T ' | sort > /tmp/det_c.txt
    total=$((total+1))
    la=$(wc -l < /tmp/det_a.txt)
    if ! cmp -s /tmp/det_a.txt /tmp/det_b.txt || ! cmp -s /tmp/det_a.txt /tmp/det_c.txt || [ "$la" -ne "$m" ]; then
      echo "NONDETERMINISTIC check=$c seed=$s lines=$la/$m"; fail=$((fail+1))
    fi
  done
  echo "determinism $c: $seeds seeds x $m cases x 3 runs (-j1,-j5,-j16) compared"
done
echo "determinism: $total (check,seed) combinations, $fail differing"
[ $fail -eq 0 ]
