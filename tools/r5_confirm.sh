#!/bin/sh
# tools/r5_confirm.sh <Cxx> : round 5, phase 1 - in the scratch worktree /tmp/wy_<Cxx> confirm for
# mutants a and b (stored as <Cxx>-e / <Cxx>-f) that the change compiles, passes the existing
# suite, and that its demonstration fails with it and passes without it.  Parallel-safe
# (one worktree per property).
id=$1
wt=/tmp/wy_$id; out=$wt/out
cd $wt || exit 2
for m in a b; do
  [ "$m" = "a" ] && dm=e || dm=f
  dst=/verif/seeded/$id-$dm
  [ -f $out/mutant_$m.diff ] || { echo "R5 $id-$dm NO-MUTANT"; continue; }
  git checkout -q -- src 2>/dev/null
  rm -f tests/demo_mutant_*.rs
  cp $out/demo_mutant_$m.rs tests/demo_mutant_$m.rs
  base=$(cargo test --offline --test demo_mutant_$m 2>&1 | grep -E "^test result" | head -1)
  git apply $out/mutant_$m.diff || { echo "R5 $id-$dm APPLY-FAILED"; continue; }
  with=$(cargo test --offline --test demo_mutant_$m 2>&1 | grep -E "^test result" | head -1)
  rm -f tests/demo_mutant_$m.rs
  suite=$(cargo test --offline 2>&1 | grep -E "^test result" | awk '{p+=$4; f+=$6} END {print p" passed "f" failed"}')
  git checkout -q -- src
  mkdir -p $dst
  cp $out/mutant_$m.diff $dst/patch.diff
  cp $out/demo_mutant_$m.rs $dst/demo.rs
  cp $out/notes.md $dst/notes.md 2>/dev/null
  cat > $dst/confirm.json <<EOJ
{"suite_with_mutant":"$suite","demo_without_mutant":"$base","demo_with_mutant":"$with"}
EOJ
  echo "R5 $id-$dm suite: $suite | demo without: $base | demo with: $with"
done
