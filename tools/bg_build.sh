# sourced by background scripts: builds private copies of both engines inside the snapshot
# against $VP_RUN_REPO (default /repo) with a private target directory.
here=$(cd "$(dirname "$0")/.." && pwd)
repo=${VP_RUN_REPO:-/repo}
tgt=$here/target-bg
( cd "$here/sim" && sed -i "s#path = \"/repo\"#path = \"$repo\"#" Cargo.toml && sed -i "s#target-dir = \"/verif/target\"#target-dir = \"$tgt\"#" .cargo/config.toml && cargo build --release 2>&1 | tail -1 )
( cd "$here/sched" && sed -i "s#/verif/target/sched#$tgt/sched#" .cargo/config.toml )
( cd "$here/sim" && cargo build --profile fast 2>&1 | tail -1 )
# the thorough tier's second batch (no debug assertions) must use THIS snapshot's build, not /verif/target's
export VERIF_FAST_BIN=$tgt/fast/cfbsim
bin=$tgt/release/cfbsim
export VERIF_NO_EVIDENCE=1
# read this snapshot's KNOWN_FINDINGS / witnesses, write replays and scratch files inside it
export VERIF_HOME=$here
mkdir -p $here/target/tmp $here/replays
run_check() { # <check> <tier> <seed>
  if [ "$1" = "C14" ]; then
    ( cd "$here/sched" && CFB_SRC=$repo/src ./sync-manifest.sh >/dev/null 2>&1 && CFB_SRC=$repo/src cargo build --release --offline >/dev/null 2>&1; $tgt/sched/release/cfbsched run --tier $2 --seed $3 --out-root $here/bg-out 2>&1 )
  else
    $bin run --check $1 --tier $2 --seed $3 2>&1
  fi
}
