#!/bin/sh
# tools/r6_confirm.sh <agent n> : round 10, phase 1 - in the scratch worktree /tmp/wr_<n> confirm for
# mutants a, b, c (stored as seeded/R8-<n>-<a|b|c>) that the change compiles, passes the existing
# suite, and that its demonstration fails with it and passes without it.  Parallel-safe.
n=$1
wt=/tmp/wx_$n; out=$wt/out
cd $wt || exit 2
for m in a b; do
  dst=/verif/seeded/R10-$n-$m
  [ -f $out/mutant_$m.diff ] || { echo "R6 $n-$m NO-MUTANT"; continue; }
  git checkout -q -- src 2>/dev/null
  rm -f tests/demo_mutant_*.rs
  cp $out/demo_mutant_$m.rs tests/demo_mutant_$m.rs
  base=$(cargo test --offline --test demo_mutant_$m 2>&1 | grep -E "^test result" | head -1)
  git apply $out/mutant_$m.diff || { echo "R6 $n-$m APPLY-FAILED"; continue; }
  with=$(cargo test --offline --test demo_mutant_$m 2>&1 | grep -E "^test result" | head -1)
  rm -f tests/demo_mutant_$m.rs
  suite=$(cargo test --offline 2>&1 | grep -E "^test result" | awk '{p+=$4; f+=$6} END {print p" passed "f" failed"}')
  git checkout -q -- src
  mkdir -p $dst
  cp $out/mutant_$m.diff $dst/patch.diff
  cp $out/demo_mutant_$m.rs $dst/demo.rs
  cp $out/notes.md $dst/notes.md 2>/dev/null
  cat > $dst/confirm.json <<EOJ
{"suite_with_mutant":"$suite","demo_without_mutant":"$base","demo_with_mutant":"$with"}
EOJ
  echo "R6 $n-$m suite: $suite | demo without: $base | demo with: $with"
done
rm -rf $wt/target
