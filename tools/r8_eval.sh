#!/bin/sh
# tools/r8_eval.sh <seeded dir name> <check ids...> : applies the STORED patch of a seeded change to
# /repo's working tree, runs the given quick checks through check.sh, undoes it, and records the
# results in seeded/<name>/run.json (merged with confirm.json).  Not parallel-safe (uses /repo).
name=$1; shift
dst=/verif/seeded/$name
cd /repo || exit 2
if [ -n "$(git status --porcelain -- src)" ]; then echo "repo working tree not clean"; exit 2; fi
git apply $dst/patch.diff || { echo "EVAL $name APPLY-FAILED"; exit 3; }
trap 'cd /repo && git checkout -- . ' EXIT INT TERM
res=""
for c in "$@"; do
  o=$(cd /verif && ./check.sh $c quick 2>&1); rc=$?
  sigs=$(echo "$o" | grep -aE "^violation sig=" | sed 's/ cases=.*//; s/violation sig=//' | cut -c1-110 | tr '\n' ';')
  [ -z "$sigs" ] && sigs=$(echo "$o" | grep -aE "VIOLATION|regression|HARNESS" | head -2 | cut -c1-140 | tr '\n' ';')
  echo "EVAL $name check $c quick rc=$rc $sigs"
  res="$res{\"check\":\"$c\",\"tier\":\"quick\",\"exit\":$rc,\"signatures\":\"$(echo $sigs | sed 's/"/\\"/g')\"},"
done
python3 - "$dst" "[${res%,}]" <<'EOP'
import json,sys
d=sys.argv[1]; new=json.loads(sys.argv[2])
try: r=json.load(open(d+'/run.json'))
except Exception: r=json.load(open(d+'/confirm.json'))
old=[c for c in r.get('checks',[]) if c['check'] not in {n['check'] for n in new}]
r['checks']=old+new
json.dump(r,open(d+'/run.json','w'),indent=1)
EOP
cd /verif && git checkout -q -- evidence 2>/dev/null
