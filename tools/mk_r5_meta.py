#!/usr/bin/env python3
"""tools/mk_r5_meta.py: writes seeded/<Cxx>-e|f/meta.json for the round-5 changes from
seeded/_notes/round5/descriptions.json, confirm.json (phase 1, scratch worktree) and run.json
(phase 2, /repo working tree with the patch applied, restored afterwards)."""
import json, glob, os
desc = json.load(open('/verif/seeded/_notes/round5/descriptions.json'))
for name, (change, needs) in sorted(desc.items()):
    d = '/verif/seeded/' + name
    run = json.load(open(d + '/run.json')) if os.path.exists(d + '/run.json') else {}
    meta = {
        "property": name[:3],
        "mutant": name[4:],
        "round": 5,
        "origin": "independent sub-agent given only the property text (plus one-line descriptions of earlier changes to avoid) and a scratch worktree of /repo; prompt: seeded/_notes/round5/%s-prompt.txt" % name[:3],
        "change": change,
        "needs_to_manifest": needs,
        "files": {"patch": "patch.diff (git apply in /repo)", "demonstration": "demo.rs (integration test: fails with the patch, passes without)", "notes": "notes.md (the sub-agent's own notes, both changes of this property)"},
        "confirmed": {
            "how": "tools/r5_confirm.sh in the scratch worktree (demo without and with the patch, full suite with the patch); tools/r5_check.sh applied the patch to /repo's working tree, ran the quick checks listed below and restored the tree",
            "suite_with_patch": run.get("suite_with_mutant"),
            "demo_without_patch": run.get("demo_without_mutant"),
            "demo_with_patch": run.get("demo_with_mutant"),
        },
        "checks_run": run.get("checks", []),
    }
    json.dump(meta, open(d + '/meta.json', 'w'), indent=1)
print(len(desc), "meta files written")
