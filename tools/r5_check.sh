#!/bin/sh
# tools/r5_check.sh <mutant dir name> <check ids...> : applies seeded/<name>/patch.diff to /repo's
# working tree, runs the given quick checks, restores the tree, writes seeded/<name>/run.json.
name=$1; shift
checks="$@"
dst=/verif/seeded/$name
cd /repo || exit 2
if [ -n "$(git status --porcelain -- src)" ]; then echo "repo working tree not clean"; exit 2; fi
git apply $dst/patch.diff || { echo "SEEDED $name APPLY-FAILED in /repo"; exit 3; }
trap 'cd /repo && git checkout -- . ' EXIT INT TERM
res=""
for c in $checks; do
  s=$(date +%s)
  o=$(cd /verif && VERIF_NO_EVIDENCE=1 ./check.sh $c quick 2>&1); rc=$?
  e=$(date +%s)
  sigs=$(echo "$o" | grep -a -E "^violation sig=" | sed 's/ cases=.*//; s/violation sig=//' | cut -c1-110 | tr '\n' ';')
  [ -z "$sigs" ] && sigs=$(echo "$o" | grep -a -E "VIOLATION|regression|HARNESS" | head -2 | cut -c1-140 | tr '\n' ';')
  echo "SEEDED $name check $c quick rc=$rc $((e-s))s $sigs"
  res="$res{\"check\":\"$c\",\"tier\":\"quick\",\"exit\":$rc,\"signatures\":\"$(echo $sigs | sed 's/"/\\"/g')\"},"
done
python3 - "$dst" "[${res%,}]" <<'EOP'
import json,sys
d=sys.argv[1]; new=json.loads(sys.argv[2])
try: old=json.load(open(d+'/run.json'))
except Exception: old={}
c=json.load(open(d+'/confirm.json')) if __import__('os').path.exists(d+'/confirm.json') else {}
old.update(c)
by={x['check']:x for x in old.get('checks',[])}
for x in new: by[x['check']]=x
old['checks']=list(by.values())
json.dump(old,open(d+'/run.json','w'),indent=1)
EOP
