#!/bin/sh
# ./check.sh <Cxx> [quick|thorough]   |   ./check.sh replay <file>
# Rebuilds the engine against /repo's current working tree, then runs the check.
# Exit: 0 held, 1 VIOLATION, 2 harness error.
cd /verif/sim || exit 2
if [ "$1" = "C14" ]; then
  exec /verif/sched/run.sh "${2:-${VERIF_TIER:-quick}}"
fi
if [ "$1" = "replay" ] && echo "$2" | grep -q "C14-"; then
  exec /verif/sched/run.sh replay "$2"
fi
if ! cargo build --release >/verif/target/build.log 2>&1; then
  mkdir -p /verif/target; tail -30 /verif/target/build.log
  echo "HARNESS ERROR: build failed"; exit 2
fi
if [ "$1" = "replay" ]; then
  if grep -q '"profile": "fast"' "$2" 2>/dev/null; then cargo build --profile fast >>/verif/target/build.log 2>&1; fi
  exec /verif/target/release/cfbsim replay "$2"
fi
if [ "${2:-${VERIF_TIER:-quick}}" = "thorough" ]; then
  # second build without debug assertions / overflow checks for the thorough tier's extra batch
  if ! cargo build --profile fast >>/verif/target/build.log 2>&1; then
    tail -30 /verif/target/build.log; echo "HARNESS ERROR: build (fast profile) failed"; exit 2
  fi
fi
exec /verif/target/release/cfbsim run --check "$1" --tier "${2:-${VERIF_TIER:-quick}}"
