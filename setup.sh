#!/bin/sh
# Offline build of both verification engines. Safe to run repeatedly.
set -e
cd /verif/sim && cargo build --release 2>&1 | tail -2
cd /verif/sched && ./sync-manifest.sh && cargo build --release --offline 2>&1 | tail -2
