#!/bin/sh
# Offline build of the verification engines. Safe to run repeatedly.
set -e
cd /verif/sim && cargo build --release 2>&1 | tail -3
if [ -x /verif/sched/run.sh ]; then /verif/sched/run.sh build 2>&1 | tail -3 || true; fi
