//! Running a scenario under a shuttle scheduler, catching and classifying failures.

use crate::model::Scenario;
use crate::scenario::{self, SharedSink, Sink};
use cfb_verif_sync::trace;
use serde_json::{json, Value};
use shuttle::scheduler::{PctScheduler, RandomScheduler, ReplayScheduler, RoundRobinScheduler};
use shuttle::{Config, FailurePersistence, MaxSteps, Runner};
use shuttle_engine::runtime::execution::CurrentSchedule;
use shuttle_engine::scheduler::serialization::serialize_schedule;
use std::cell::RefCell;
use std::collections::HashMap;
use std::panic::{self, AssertUnwindSafe};
use std::path::PathBuf;
use std::sync::{Arc, Mutex, Once};

pub const MAX_STEPS: usize = 60_000;

#[derive(Clone, Debug, PartialEq)]
pub enum Sched {
    Random { seed: u64, iterations: usize },
    Pct { seed: u64, depth: usize, iterations: usize },
    Replay { schedule: String },
}

impl Sched {
    pub fn to_json(&self) -> Value {
        match self {
            Sched::Random { seed, iterations } => json!({"kind": "random", "seed": seed, "iterations": iterations}),
            Sched::Pct { seed, depth, iterations } => {
                json!({"kind": "pct", "seed": seed, "depth": depth, "iterations": iterations})
            }
            Sched::Replay { .. } => json!({"kind": "replay"}),
        }
    }
    pub fn is_pct(&self) -> bool {
        matches!(self, Sched::Pct { .. })
    }
}

#[derive(Clone, Debug)]
pub struct Failure {
    pub sig: String,
    pub message: String,
    pub schedule: String,
    pub steps: usize,
    pub sched: Sched,
    pub scenario: Scenario,
    /// executions of this runner up to and including the failing one
    pub at_execution: u64,
    pub history: Value,
    pub lock_diag: Value,
}

// ------------------------------------------------------------------------------------------
// Panic bookkeeping

#[derive(Clone, Debug, Default)]
struct PanicNote {
    #[allow(dead_code)]
    message: String,
    file: String,
    line: u32,
}

thread_local! {
    static FIRST_PANIC: RefCell<Option<PanicNote>> = const { RefCell::new(None) };
}

static HOOK: Once = Once::new();

/// Installs our panic hook *before* shuttle installs its own (shuttle chains to the hook that
/// was current at its first execution).  Ours only takes notes: first panic of the execution,
/// with its location.
pub fn install_panic_hook(verbose: bool) {
    HOOK.call_once(|| {
        panic::set_hook(Box::new(move |info| {
            let message = if let Some(s) = info.payload().downcast_ref::<&str>() {
                (*s).to_string()
            } else if let Some(s) = info.payload().downcast_ref::<String>() {
                s.clone()
            } else {
                "<non-string panic payload>".to_string()
            };
            let (file, line) = info.location().map(|l| (l.file().to_string(), l.line())).unwrap_or_default();
            if verbose {
                eprintln!("panic at {file}:{line}: {message}");
            }
            FIRST_PANIC.with(|p| {
                let mut p = p.borrow_mut();
                if p.is_none() {
                    *p = Some(PanicNote { message, file, line });
                }
            });
        }));
    });
}

fn payload_message(p: &(dyn std::any::Any + Send)) -> String {
    if let Some(s) = p.downcast_ref::<&str>() {
        (*s).to_string()
    } else if let Some(s) = p.downcast_ref::<String>() {
        s.clone()
    } else {
        "<non-string panic payload>".to_string()
    }
}

pub fn shuttle_config(persist_dir: &Option<PathBuf>) -> Config {
    let mut c = Config::new();
    c.stack_size = 0x40000;
    c.max_steps = MaxSteps::FailAfter(MAX_STEPS);
    c.silence_warnings = true;
    c.failure_persistence = match persist_dir {
        Some(d) => FailurePersistence::File(Some(d.clone())),
        None => FailurePersistence::None,
    };
    c
}

// ------------------------------------------------------------------------------------------
// Images

pub struct Images {
    cache: HashMap<u64, Arc<Vec<u8>>>,
    persist_dir: Option<PathBuf>,
}

impl Images {
    pub fn new(persist_dir: Option<PathBuf>) -> Self {
        Images { cache: HashMap::new(), persist_dir }
    }

    /// The compound file of a scenario, built once (in a one-task shuttle execution, because
    /// the library's lock is a shuttle primitive) and then re-opened by every execution.
    pub fn get(&mut self, sc: &Scenario) -> Result<Arc<Vec<u8>>, String> {
        let key = sc.image_key();
        if let Some(i) = self.cache.get(&key) {
            return Ok(Arc::clone(i));
        }
        let slot: Arc<Mutex<Option<Result<Vec<u8>, String>>>> = Arc::new(Mutex::new(None));
        let slot2 = Arc::clone(&slot);
        let sc2 = sc.clone();
        let runner = Runner::new(RoundRobinScheduler::new(1), shuttle_config(&self.persist_dir));
        let r = panic::catch_unwind(AssertUnwindSafe(|| {
            runner.run(move || {
                let r = scenario::build_image(&sc2).map_err(|e| e.to_string());
                *slot2.lock().unwrap() = Some(r);
            })
        }));
        if let Err(p) = r {
            return Err(format!("building the image panicked: {}", payload_message(&*p)));
        }
        let img = slot.lock().unwrap().take().ok_or("image build produced nothing")??;
        let img = Arc::new(img);
        self.cache.insert(key, Arc::clone(&img));
        Ok(img)
    }
}

// ------------------------------------------------------------------------------------------
// Exploration

pub struct Explorer {
    pub images: Images,
    pub persist_dir: Option<PathBuf>,
}

pub struct RunOutcome {
    pub sink: Sink,
    pub failure: Option<Failure>,
}

impl Explorer {
    pub fn new(persist_dir: Option<PathBuf>) -> Self {
        Explorer { images: Images::new(persist_dir.clone()), persist_dir }
    }

    /// Runs `sc` under `sched` until the scheduler is exhausted or an execution fails.
    pub fn run(&mut self, sc: &Scenario, sched: &Sched, want_sample: bool) -> Result<RunOutcome, String> {
        let image = self.images.get(sc)?;
        let sink: SharedSink = Arc::new(Mutex::new(Sink { want_sample, ..Sink::default() }));
        let sc_arc = Arc::new(sc.clone());
        let key = sc.key();
        let body = {
            let sink = Arc::clone(&sink);
            let sc = Arc::clone(&sc_arc);
            move || scenario::run_once(&sc, &image, key, &sink)
        };
        FIRST_PANIC.with(|p| *p.borrow_mut() = None);
        let config = shuttle_config(&self.persist_dir);
        let result = panic::catch_unwind(AssertUnwindSafe(|| match sched {
            Sched::Random { seed, iterations } => {
                Runner::new(RandomScheduler::new_from_seed(*seed, *iterations), config).run(body)
            }
            Sched::Pct { seed, depth, iterations } => {
                Runner::new(PctScheduler::new_from_seed(*seed, *depth, *iterations), config).run(body)
            }
            Sched::Replay { schedule } => Runner::new(ReplayScheduler::new_from_encoded(schedule), config).run(body),
        }));
        let failure = match result {
            Ok(_) => None,
            Err(payload) => {
                let message = payload_message(&*payload);
                let note = FIRST_PANIC.with(|p| p.borrow().clone());
                let schedule = CurrentSchedule::get_schedule();
                let steps = schedule.len();
                let diag = trace::snapshot();
                let sig = classify(&message, note.as_ref(), &diag);
                let executions = sink.lock().unwrap().executions;
                {
                    let mut s = sink.lock().unwrap();
                    s.steps += steps as u64;
                    s.lock_events += trace::len();
                    s.lock_blocks += trace::blocks();
                }
                let hist = scenario::history_snapshot();
                Some(Failure {
                    sig,
                    message: trim_message(&message),
                    schedule: serialize_schedule(&schedule),
                    steps,
                    sched: sched.clone(),
                    scenario: sc.clone(),
                    at_execution: executions,
                    history: scenario::history_json(sc, &hist),
                    lock_diag: diag_json(&diag),
                })
            }
        };
        let sink = std::mem::take(&mut *sink.lock().unwrap());
        Ok(RunOutcome { sink, failure })
    }
}

fn trim_message(m: &str) -> String {
    let m = m.trim();
    if m.len() > 1500 {
        let mut end = 1500;
        while !m.is_char_boundary(end) {
            end -= 1;
        }
        format!("{}...", &m[..end])
    } else {
        m.to_string()
    }
}

fn diag_json(diag: &[trace::TaskDiag]) -> Value {
    Value::Array(
        diag.iter()
            .map(|t| {
                json!({
                    "task": t.task,
                    "role": if t.task == 0 { "writer(main)".to_string() } else { format!("reader{}", t.task) },
                    "holds": t.holds.iter().map(|h| json!({"kind": if h.write {"write"} else {"read"}, "site": h.site()})).collect::<Vec<_>>(),
                    "blocked_in": t.waiting.as_ref().map(|h| json!({"kind": if h.write {"write"} else {"read"}, "site": h.site()})),
                    "max_hold_depth": t.max_depth,
                })
            })
            .collect(),
    )
}

/// Short stable signature of a failure.
fn classify(message: &str, note: Option<&PanicNote>, diag: &[trace::TaskDiag]) -> String {
    if message.starts_with("deadlock!") {
        // tasks blocked in an acquisition while holding a guard of the same lock: the culprits
        let mut sites: Vec<String> = diag
            .iter()
            .filter(|t| !t.holds.is_empty())
            .filter_map(|t| t.waiting.as_ref().map(|w| w.site()))
            .collect();
        sites.sort();
        sites.dedup();
        return if sites.is_empty() { "deadlock".to_string() } else { format!("deadlock@{}", sites.join("+")) };
    }
    if message.starts_with("exceeded max_steps bound") {
        return "step-bound".to_string();
    }
    if message.starts_with("harness:") {
        return "harness-error".to_string();
    }
    if let Some(rest) = message.strip_prefix(scenario::ORACLE_PREFIX) {
        return rest.split_whitespace().next().unwrap_or("oracle").to_string();
    }
    for m in [
        "schedule ended early",
        "scheduled task is not runnable",
        "expected context switch but next schedule step",
        "expected random choice but next schedule step",
    ] {
        if message.contains(m) {
            return "replay-diverged".to_string();
        }
    }
    match note {
        Some(n) if !n.file.is_empty() => format!("panic@{}:{}", trace::short_file(&n.file), n.line),
        _ => "panic".to_string(),
    }
}
