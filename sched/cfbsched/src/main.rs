//! cfbsched -- engine B of the cfb verification harness: deterministic schedule exploration
//! (shuttle) for property C14 "shared read access concurrent with stream I/O never deadlocks".
//!
//!   cfbsched run [--tier quick|thorough] [--seed N] [--out-root DIR] [--verbose]
//!   cfbsched replay <file> [--verbose]
//!   cfbsched child ...            (internal: one slice of a thorough run)
//!
//! Exit codes: 0 property held (known findings allowed), 1 VIOLATION, 2 harness error.

mod explore;
mod model;
mod scenario;

use explore::{Explorer, Failure, Sched};
use model::{mix, Call, Op, Scenario};
use serde_json::{json, Value};
use std::collections::BTreeMap;
use std::fs;
use std::io::Write as _;
use std::path::{Path, PathBuf};
use std::process::{Command, Stdio};
use std::time::{Duration, Instant};

const PROPERTY: &str = "C14";
const SHADOW_MANIFEST: &str = include_str!("../../shadow-cfb/Cargo.toml");

// ------------------------------------------------------------------------------------------
// small utilities

fn source_root() -> String {
    for l in SHADOW_MANIFEST.lines() {
        if let Some(rest) = l.strip_prefix("path = \"") {
            if let Some(p) = rest.strip_suffix("/lib.rs\"") {
                return p.to_string();
            }
        }
    }
    "?".to_string()
}

struct Fatal(String);

fn fatal<T>(msg: impl Into<String>) -> Result<T, Fatal> {
    Err(Fatal(msg.into()))
}

impl From<String> for Fatal {
    fn from(s: String) -> Self {
        Fatal(s)
    }
}

/// File descriptor of the real stderr (stderr itself is pointed at a log file while shuttle
/// runs, because shuttle and its panic hook print on every failing execution).
static mut REAL_STDERR: i32 = 2;

fn note(msg: &str) {
    let line = format!("cfbsched: {msg}\n");
    // SAFETY: REAL_STDERR is written once at startup before any other thread exists.
    let fd = unsafe { REAL_STDERR };
    unsafe {
        libc::write(fd, line.as_ptr() as *const libc::c_void, line.len());
    }
}

fn quiet_stderr(log: &Path, truncate: bool) {
    if let Some(dir) = log.parent() {
        let _ = fs::create_dir_all(dir);
    }
    if truncate {
        let _ = fs::File::create(log);
    }
    if let Ok(f) = fs::OpenOptions::new().create(true).append(true).open(log) {
        use std::os::fd::AsRawFd;
        unsafe {
            let saved = libc::dup(2);
            if saved >= 0 && libc::dup2(f.as_raw_fd(), 2) >= 0 {
                REAL_STDERR = saved;
            }
        }
    }
}

struct Paths {
    out_root: PathBuf,
    work: PathBuf,
}

impl Paths {
    fn new(out_root: Option<String>) -> Paths {
        let out_root = PathBuf::from(
            out_root.or_else(|| std::env::var("VERIF_OUT_ROOT").ok()).unwrap_or_else(|| "/verif".to_string()),
        );
        let work = PathBuf::from(std::env::var("CFBSCHED_WORK").unwrap_or_else(|_| "/verif/target/sched/work".to_string()))
            .join(format!("{}", std::process::id()));
        Paths { out_root, work }
    }
    fn replays(&self) -> PathBuf {
        self.out_root.join("replays")
    }
    fn evidence(&self) -> PathBuf {
        self.out_root.join("evidence").join(format!("{PROPERTY}.json"))
    }
    fn known_findings(&self) -> PathBuf {
        match std::env::var("VERIF_KNOWN_FINDINGS") {
            Ok(p) => PathBuf::from(p),
            Err(_) => PathBuf::from("/verif/KNOWN_FINDINGS.txt"),
        }
    }
}

// ------------------------------------------------------------------------------------------
// tiers

#[derive(Clone, Copy)]
struct Tier {
    name: &'static str,
    procs: usize,
    random_per_cfg: usize,
    pct_per_cfg_depth: usize, // per depth in 2..=4
    minimise_budget: Duration,
}

fn tier(name: &str) -> Option<Tier> {
    match name {
        // 54 configurations: 54*741 = 40,014 random; 54*3*62 = 10,044 PCT
        "quick" => Some(Tier {
            name: "quick",
            procs: 1,
            random_per_cfg: 741,
            pct_per_cfg_depth: 62,
            minimise_budget: Duration::from_secs(12),
        }),
        // 16 processes x 54 configurations: 16*54*4630 = 4,000,320 random; 16*54*3*386 = 1,000,512 PCT
        "thorough" => Some(Tier {
            name: "thorough",
            procs: 16,
            random_per_cfg: 4630,
            pct_per_cfg_depth: 386,
            minimise_budget: Duration::from_secs(45),
        }),
        _ => None,
    }
}

fn sub_seed(seed: u64, index: usize) -> u64 {
    if index == 0 {
        seed
    } else {
        mix(seed, 0x5EED_0000 + index as u64)
    }
}

// ------------------------------------------------------------------------------------------
// one slice of the search

#[derive(Default)]
struct SliceResult {
    executions_random: u64,
    executions_pct: u64,
    completed: u64,
    nontrivial: u64,
    steps_total: u64,
    lock_events: u64,
    lock_blocks: u64,
    configurations: u64,
    configurations_failed: u64,
    hashes: Vec<u64>,
    failures: Vec<Failure>,
    samples: Vec<Value>,
}

fn absorb(res: &mut SliceResult, out: &mut explore::RunOutcome, pct: bool) {
    let s = &mut out.sink;
    if pct {
        res.executions_pct += s.executions;
    } else {
        res.executions_random += s.executions;
    }
    res.completed += s.completed;
    res.nontrivial += s.nontrivial;
    res.steps_total += s.steps;
    res.lock_events += s.lock_events;
    res.lock_blocks += s.lock_blocks;
    res.hashes.extend(s.hashes.drain());
    if let Some(v) = s.sample.take() {
        res.samples.push(v);
    }
}

fn run_slice(ex: &mut Explorer, seed: u64, t: &Tier) -> Result<SliceResult, Fatal> {
    let grid = model::grid(seed);
    let mut res = SliceResult::default();
    for (idx, sc) in grid.iter().enumerate() {
        res.configurations += 1;
        // every configuration offers the history of its first completed non-trivial execution
        // as a sample; a few of them (different reader counts) are kept below
        let want_sample = true;
        let mut scheds = vec![Sched::Random { seed: mix(seed, idx as u64 * 8 + 1), iterations: t.random_per_cfg }];
        for depth in 2..=4usize {
            scheds.push(Sched::Pct {
                seed: mix(seed, idx as u64 * 8 + depth as u64),
                depth,
                iterations: t.pct_per_cfg_depth,
            });
        }
        if std::env::var("CFBSCHED_ORDER").as_deref() == Ok("pct-first") {
            scheds.rotate_left(1); // diagnostic knob: lets PCT meet the failures first
        }
        for sched in &scheds {
            let mut out = ex.run(sc, sched, want_sample)?;
            absorb(&mut res, &mut out, sched.is_pct());
            if let Some(f) = out.failure {
                // first failure ends the search of this configuration
                res.configurations_failed += 1;
                res.failures.push(f);
                break;
            }
        }
    }
    res.hashes.sort_unstable();
    res.hashes.dedup();
    res.samples = pick_samples(std::mem::take(&mut res.samples), 4);
    Ok(res)
}

/// Keeps at most `n` samples, preferring different reader counts and short histories.
fn pick_samples(mut all: Vec<Value>, n: usize) -> Vec<Value> {
    let readers = |v: &Value| v["configuration"]["readers"].as_array().map(|a| a.len()).unwrap_or(0);
    let hlen = |v: &Value| v["history"].as_array().map(|a| a.len()).unwrap_or(0);
    all.sort_by_key(|v| hlen(v));
    let mut out: Vec<Value> = Vec::new();
    for want in [1usize, 2, 3] {
        if let Some(i) = all.iter().position(|v| readers(v) == want) {
            out.push(all.remove(i));
        }
    }
    while out.len() < n && !all.is_empty() {
        out.push(all.remove(all.len() / 2));
    }
    out.truncate(n);
    out
}

// ------------------------------------------------------------------------------------------
// (de)serialisation of failures (child -> parent, replay files)

fn sched_from_json(v: &Value) -> Sched {
    match v["kind"].as_str() {
        Some("pct") => Sched::Pct {
            seed: v["seed"].as_u64().unwrap_or(0),
            depth: v["depth"].as_u64().unwrap_or(2) as usize,
            iterations: v["iterations"].as_u64().unwrap_or(0) as usize,
        },
        Some("random") => Sched::Random {
            seed: v["seed"].as_u64().unwrap_or(0),
            iterations: v["iterations"].as_u64().unwrap_or(0) as usize,
        },
        _ => Sched::Replay { schedule: String::new() },
    }
}

fn failure_to_json(f: &Failure) -> Value {
    json!({
        "sig": f.sig, "message": f.message, "schedule": f.schedule, "steps": f.steps,
        "scheduler": f.sched.to_json(), "configuration": f.scenario.to_json(),
        "at_execution": f.at_execution, "history": f.history, "lock_diag": f.lock_diag,
    })
}

fn failure_from_json(v: &Value) -> Result<Failure, String> {
    Ok(Failure {
        sig: v["sig"].as_str().ok_or("sig")?.to_string(),
        message: v["message"].as_str().unwrap_or("").to_string(),
        schedule: v["schedule"].as_str().ok_or("schedule")?.to_string(),
        steps: v["steps"].as_u64().unwrap_or(0) as usize,
        sched: sched_from_json(&v["scheduler"]),
        scenario: Scenario::from_json(&v["configuration"])?,
        at_execution: v["at_execution"].as_u64().unwrap_or(0),
        history: v["history"].clone(),
        lock_diag: v["lock_diag"].clone(),
    })
}

fn slice_to_json(r: &SliceResult) -> Value {
    json!({
        "executions_random": r.executions_random, "executions_pct": r.executions_pct,
        "completed": r.completed, "nontrivial": r.nontrivial, "steps_total": r.steps_total,
        "lock_events": r.lock_events, "lock_blocks": r.lock_blocks,
        "configurations": r.configurations, "configurations_failed": r.configurations_failed,
        "failures": r.failures.iter().map(failure_to_json).collect::<Vec<_>>(),
        "samples": r.samples,
    })
}

fn slice_from_json(v: &Value, hashes: Vec<u64>) -> Result<SliceResult, String> {
    let n = |k: &str| v[k].as_u64().ok_or_else(|| format!("child result: missing {k}"));
    let mut failures = Vec::new();
    for f in v["failures"].as_array().ok_or("child result: failures")? {
        failures.push(failure_from_json(f)?);
    }
    Ok(SliceResult {
        executions_random: n("executions_random")?,
        executions_pct: n("executions_pct")?,
        completed: n("completed")?,
        nontrivial: n("nontrivial")?,
        steps_total: n("steps_total")?,
        lock_events: n("lock_events")?,
        lock_blocks: n("lock_blocks")?,
        configurations: n("configurations")?,
        configurations_failed: n("configurations_failed")?,
        hashes,
        failures,
        samples: v["samples"].as_array().cloned().unwrap_or_default(),
    })
}

fn merge(into: &mut SliceResult, mut other: SliceResult) {
    into.executions_random += other.executions_random;
    into.executions_pct += other.executions_pct;
    into.completed += other.completed;
    into.nontrivial += other.nontrivial;
    into.steps_total += other.steps_total;
    into.lock_events += other.lock_events;
    into.lock_blocks += other.lock_blocks;
    into.configurations += other.configurations;
    into.configurations_failed += other.configurations_failed;
    into.hashes.append(&mut other.hashes);
    into.failures.append(&mut other.failures);
    into.samples.append(&mut other.samples);
}

// ------------------------------------------------------------------------------------------
// replay files

fn replay_json(f: &Failure, seed: u64) -> Value {
    json!({
        "property": PROPERTY,
        "sig": f.sig,
        "seed": seed,
        "scheduler": f.sched.to_json(),
        "configuration": f.scenario.to_json(),
        "schedule": f.schedule,
        "message": f.message,
        "steps": f.steps,
        "source_root": source_root(),
        "lock_diag": f.lock_diag,
        "history": f.history,
        "how_to_replay": "/verif/sched/run.sh replay <this file>",
    })
}

fn write_replay(paths: &Paths, f: &Failure, seed: u64) -> Result<PathBuf, Fatal> {
    let body = replay_json(f, seed);
    let h = model::fnv64(
        format!("{}|{}|{}", f.sig, f.schedule, f.scenario.to_json()).as_bytes(),
    );
    let dir = paths.replays();
    fs::create_dir_all(&dir).map_err(|e| Fatal(format!("cannot create {}: {e}", dir.display())))?;
    let path = dir.join(format!("{PROPERTY}-{seed}-{h:016x}.json"));
    let text = serde_json::to_string_pretty(&body).unwrap();
    fs::write(&path, text + "\n").map_err(|e| Fatal(format!("cannot write {}: {e}", path.display())))?;
    Ok(path)
}

struct ReplayOutcome {
    expected_sig: String,
    /// None: the execution completed without failure
    got_sig: Option<String>,
    message: String,
    lock_diag: Value,
    history: Value,
}

fn replay_file(ex: &mut Explorer, file: &Path) -> Result<ReplayOutcome, Fatal> {
    let text = fs::read_to_string(file).map_err(|e| Fatal(format!("cannot read {}: {e}", file.display())))?;
    let v: Value = serde_json::from_str(&text).map_err(|e| Fatal(format!("{}: {e}", file.display())))?;
    if v["property"].as_str() != Some(PROPERTY) {
        return fatal(format!("{}: not a {PROPERTY} replay file", file.display()));
    }
    let sc = Scenario::from_json(&v["configuration"]).map_err(|e| Fatal(format!("{}: configuration: {e}", file.display())))?;
    let schedule = v["schedule"].as_str().ok_or_else(|| Fatal("replay file: no schedule".into()))?.to_string();
    let expected_sig = v["sig"].as_str().unwrap_or("").to_string();
    let out = ex.run(&sc, &Sched::Replay { schedule }, false)?;
    Ok(match out.failure {
        None => ReplayOutcome { expected_sig, got_sig: None, message: String::new(), lock_diag: Value::Null, history: Value::Null },
        Some(f) => ReplayOutcome {
            expected_sig,
            got_sig: Some(f.sig),
            message: f.message,
            lock_diag: f.lock_diag,
            history: f.history,
        },
    })
}

// ------------------------------------------------------------------------------------------
// minimisation

struct Minimiser<'a> {
    ex: &'a mut Explorer,
    sig: String,
    seed: u64,
    deadline: Instant,
    probes: u64,
    probe_executions: u64,
    /// failures with a different signature met on the way
    others: Vec<Failure>,
}

impl Minimiser<'_> {
    /// Searches schedules of `sc` for a failure with the target signature.
    fn probe(&mut self, sc: &Scenario, random_iters: usize, pct_iters: usize) -> Result<Option<Failure>, Fatal> {
        self.probes += 1;
        let k = sc.key();
        let scheds = [
            Sched::Random { seed: mix(self.seed, k ^ 0x11), iterations: random_iters },
            Sched::Pct { seed: mix(self.seed, k ^ 0x22), depth: 3, iterations: pct_iters },
        ];
        for s in &scheds {
            let out = self.ex.run(sc, s, false)?;
            self.probe_executions += out.sink.executions;
            if let Some(f) = out.failure {
                if f.sig == self.sig {
                    return Ok(Some(f));
                }
                if !self.others.iter().any(|o| o.sig == f.sig) {
                    self.others.push(f);
                }
            }
        }
        Ok(None)
    }

    fn candidates(sc: &Scenario) -> Vec<Scenario> {
        let mut out: Vec<Scenario> = Vec::new();
        let mut push = |c: Scenario| {
            if c != *sc && c.validate().is_ok() && !out.contains(&c) {
                out.push(c);
            }
        };
        // fewer readers
        if sc.readers.len() > 1 {
            for r in 0..sc.readers.len() {
                let mut c = sc.clone();
                c.readers = vec![sc.readers[r].clone()];
                push(c);
            }
            for r in 0..sc.readers.len() {
                let mut c = sc.clone();
                c.readers.remove(r);
                push(c);
            }
        }
        // fewer calls: a single call, then drop one call
        for r in 0..sc.readers.len() {
            if sc.readers[r].len() > 1 {
                for i in 0..sc.readers[r].len() {
                    let mut c = sc.clone();
                    c.readers[r] = vec![sc.readers[r][i].clone()];
                    push(c);
                }
                for i in 0..sc.readers[r].len() {
                    let mut c = sc.clone();
                    c.readers[r].remove(i);
                    push(c);
                }
            }
        }
        // fewer writer operations
        if sc.writer.len() > 1 {
            for i in 0..sc.writer.len() {
                let mut c = sc.clone();
                c.writer = vec![sc.writer[i].clone()];
                push(c);
            }
            for i in 0..sc.writer.len() {
                let mut c = sc.clone();
                c.writer.remove(i);
                push(c);
            }
        }
        // simpler operations
        for i in 0..sc.writer.len() {
            if let Op::Write { h, n } = sc.writer[i] {
                if n > 1 {
                    let mut c = sc.clone();
                    c.writer[i] = Op::Write { h, n: 1 };
                    push(c);
                }
            }
        }
        // unused handles
        for h in 0..sc.handles.len() {
            if sc.handles.len() > 1 && !sc.writer.iter().any(|o| o.handle() == h) {
                let mut c = sc.clone();
                c.handles.remove(h);
                c.writer = c.writer.iter().map(|o| if o.handle() > h { o.with_handle(o.handle() - 1) } else { o.clone() }).collect();
                push(c);
            }
        }
        // smaller tree: drop a stream that has no handle, drop an empty storage
        if sc.streams.len() > 1 {
            for i in 0..sc.streams.len() {
                if !sc.handles.contains(&sc.streams[i].0) {
                    let mut c = sc.clone();
                    c.streams.remove(i);
                    push(c);
                }
            }
        }
        for i in 0..sc.storages.len() {
            let d = &sc.storages[i];
            let prefix = format!("{d}/");
            let occupied = sc.storages.iter().any(|s| s.starts_with(&prefix)) || sc.streams.iter().any(|s| s.0.starts_with(&prefix));
            if !occupied {
                let mut c = sc.clone();
                c.storages.remove(i);
                push(c);
            }
        }
        // canonical knobs
        if sc.max_buffer != 1 << 20 {
            let mut c = sc.clone();
            c.max_buffer = 1 << 20;
            push(c);
        }
        if sc.version != 4 {
            let mut c = sc.clone();
            c.version = 4;
            push(c);
        }
        // simpler paths in calls
        for r in 0..sc.readers.len() {
            for i in 0..sc.readers[r].len() {
                let simpler = match &sc.readers[r][i] {
                    Call::WalkStorage(_) => Some(Call::Walk),
                    Call::ReadStorage(_) => Some(Call::ReadRoot),
                    _ => None,
                };
                if let Some(s) = simpler {
                    let mut c = sc.clone();
                    c.readers[r][i] = s;
                    push(c);
                }
            }
        }
        out
    }

    fn minimise(&mut self, start: Failure) -> Result<Failure, Fatal> {
        let mut best = start;
        'outer: loop {
            for cand in Self::candidates(&best.scenario) {
                if Instant::now() > self.deadline {
                    break 'outer;
                }
                if let Some(f) = self.probe(&cand, 1500, 500)? {
                    best = f;
                    continue 'outer;
                }
            }
            break;
        }
        // shortest failing schedule of the minimal configuration
        let sc = best.scenario.clone();
        for round in 0..40u64 {
            if Instant::now() > self.deadline + Duration::from_secs(3) {
                break;
            }
            let sched = if round % 4 == 3 {
                Sched::Pct { seed: mix(self.seed, 0x5000 + round), depth: 2, iterations: 200 }
            } else {
                Sched::Random { seed: mix(self.seed, 0x5000 + round), iterations: 300 }
            };
            let out = self.ex.run(&sc, &sched, false)?;
            self.probe_executions += out.sink.executions;
            if let Some(f) = out.failure {
                if f.sig == self.sig && f.steps < best.steps {
                    best = f;
                }
            }
        }
        Ok(best)
    }
}

// ------------------------------------------------------------------------------------------
// known findings

struct Known {
    sig: String,
    witness: PathBuf,
    text: String,
}

fn read_known(path: &Path) -> Vec<Known> {
    let mut out = Vec::new();
    let Ok(text) = fs::read_to_string(path) else { return out };
    for line in text.lines() {
        let line = line.trim();
        let Some(rest) = line.strip_prefix("finding:") else { continue };
        let (head, text) = match rest.split_once(" :: ") {
            Some((h, t)) => (h, t.trim().to_string()),
            None => (rest, String::new()),
        };
        let mut kv: BTreeMap<&str, &str> = BTreeMap::new();
        for tok in head.split_whitespace() {
            if let Some((k, v)) = tok.split_once('=') {
                kv.insert(k, v);
            }
        }
        if kv.get("property") != Some(&PROPERTY) {
            continue;
        }
        if let (Some(sig), Some(w)) = (kv.get("sig"), kv.get("witness")) {
            let w = PathBuf::from(w);
            let witness = if w.is_absolute() { w } else { Path::new("/verif").join(w) };
            out.push(Known { sig: sig.to_string(), witness, text });
        }
    }
    out
}

// ------------------------------------------------------------------------------------------
// commands

struct Args {
    cmd: String,
    tier: String,
    seed: u64,
    out_root: Option<String>,
    verbose: bool,
    file: Option<String>,
    index: usize,
    out: Option<String>,
}

fn parse_args() -> Result<Args, Fatal> {
    let argv: Vec<String> = std::env::args().skip(1).collect();
    let mut a = Args {
        cmd: argv.first().cloned().unwrap_or_default(),
        tier: std::env::var("VERIF_TIER").ok().filter(|s| !s.is_empty()).unwrap_or_else(|| "quick".into()),
        seed: std::env::var("VERIF_SEED").ok().and_then(|s| s.trim().parse().ok()).unwrap_or(1),
        out_root: None,
        verbose: std::env::var("CFBSCHED_VERBOSE").is_ok(),
        file: None,
        index: 0,
        out: None,
    };
    let mut i = 1;
    while i < argv.len() {
        let need = |i: usize| argv.get(i + 1).cloned().ok_or_else(|| Fatal(format!("{} needs a value", argv[i])));
        match argv[i].as_str() {
            "--tier" => {
                a.tier = need(i)?;
                i += 1;
            }
            "--seed" => {
                a.seed = need(i)?.parse().map_err(|_| Fatal("--seed needs an unsigned integer".into()))?;
                i += 1;
            }
            "--out-root" => {
                a.out_root = Some(need(i)?);
                i += 1;
            }
            "--index" => {
                a.index = need(i)?.parse().map_err(|_| Fatal("--index".into()))?;
                i += 1;
            }
            "--out" => {
                a.out = Some(need(i)?);
                i += 1;
            }
            "--verbose" => a.verbose = true,
            s if !s.starts_with("--") && a.file.is_none() => a.file = Some(s.to_string()),
            s => return fatal(format!("unknown argument {s:?}")),
        }
        i += 1;
    }
    Ok(a)
}

fn usage() -> String {
    "usage: cfbsched run [--tier quick|thorough] [--seed N] [--out-root DIR] [--verbose]\n       cfbsched replay <file> [--verbose]".to_string()
}

fn cmd_child(a: &Args) -> Result<i32, Fatal> {
    let t = tier(&a.tier).ok_or_else(|| Fatal(format!("unknown tier {:?}", a.tier)))?;
    let out = PathBuf::from(a.out.clone().ok_or_else(|| Fatal("child: --out missing".into()))?);
    let mut ex = Explorer::new(None);
    let res = run_slice(&mut ex, sub_seed(a.seed, a.index), &t)?;
    let mut bytes = Vec::with_capacity(res.hashes.len() * 8);
    for h in &res.hashes {
        bytes.extend_from_slice(&h.to_le_bytes());
    }
    fs::write(out.with_extension("hashes"), bytes).map_err(|e| Fatal(format!("child: {e}")))?;
    fs::write(&out, slice_to_json(&res).to_string()).map_err(|e| Fatal(format!("child: {e}")))?;
    Ok(0)
}

fn run_children(a: &Args, t: &Tier, paths: &Paths) -> Result<SliceResult, Fatal> {
    let exe = std::env::current_exe().map_err(|e| Fatal(format!("current_exe: {e}")))?;
    fs::create_dir_all(&paths.work).map_err(|e| Fatal(format!("{}: {e}", paths.work.display())))?;
    let mut kids = Vec::new();
    for i in 0..t.procs {
        let out = paths.work.join(format!("slice-{i}.json"));
        let log = fs::File::create(paths.work.join(format!("slice-{i}.stderr"))).map_err(|e| Fatal(e.to_string()))?;
        let child = Command::new(&exe)
            .args(["child", "--tier", t.name, "--seed", &a.seed.to_string(), "--index", &i.to_string(), "--out"])
            .arg(&out)
            .env_remove("SHUTTLE_RANDOM_SEED")
            .stdin(Stdio::null())
            .stdout(Stdio::null())
            .stderr(Stdio::from(log))
            .spawn()
            .map_err(|e| Fatal(format!("cannot spawn child {i}: {e}")))?;
        kids.push((i, out, child));
    }
    let mut total = SliceResult::default();
    for (i, out, mut child) in kids {
        let st = child.wait().map_err(|e| Fatal(format!("child {i}: {e}")))?;
        if !st.success() {
            return fatal(format!(
                "child {i} ended with {st}; see {}",
                paths.work.join(format!("slice-{i}.stderr")).display()
            ));
        }
        let text = fs::read_to_string(&out).map_err(|e| Fatal(format!("child {i} result: {e}")))?;
        let v: Value = serde_json::from_str(&text).map_err(|e| Fatal(format!("child {i} result: {e}")))?;
        let raw = fs::read(out.with_extension("hashes")).map_err(|e| Fatal(format!("child {i} hashes: {e}")))?;
        let hashes: Vec<u64> = raw.chunks_exact(8).map(|c| u64::from_le_bytes(c.try_into().unwrap())).collect();
        merge(&mut total, slice_from_json(&v, hashes)?);
    }
    total.hashes.sort_unstable();
    total.hashes.dedup();
    Ok(total)
}

fn verify_by_subprocess(file: &Path, sig: &str) -> Result<(), Fatal> {
    let exe = std::env::current_exe().map_err(|e| Fatal(format!("current_exe: {e}")))?;
    let out = Command::new(exe)
        .arg("replay")
        .arg(file)
        .env_remove("SHUTTLE_RANDOM_SEED")
        .stdin(Stdio::null())
        .stderr(Stdio::null())
        .output()
        .map_err(|e| Fatal(format!("cannot spawn replay: {e}")))?;
    let stdout = String::from_utf8_lossy(&out.stdout).to_string();
    let want = format!("sig={sig} ");
    if out.status.code() == Some(1) && stdout.contains(&want) && stdout.contains("match=true") {
        Ok(())
    } else {
        fatal(format!(
            "replay of {} did not reproduce signature {sig} (exit {:?}, output: {})",
            file.display(),
            out.status.code(),
            stdout.trim()
        ))
    }
}

fn cmd_run(a: &Args) -> Result<i32, Fatal> {
    let started = Instant::now();
    let t = tier(&a.tier).ok_or_else(|| Fatal(format!("unknown tier {:?} (quick|thorough)", a.tier)))?;
    let paths = Paths::new(a.out_root.clone());
    let mut ex = Explorer::new(None);

    // ---- search
    let mut total = if t.procs == 1 {
        run_slice(&mut ex, sub_seed(a.seed, 0), &t)?
    } else {
        run_children(a, &t, &paths)?
    };
    let search_s = started.elapsed().as_secs_f64();
    let evaluations = total.executions_random + total.executions_pct;
    let deadlocks_found = total.failures.iter().filter(|f| f.sig.starts_with("deadlock")).count();

    // ---- classify failures by signature
    let known = read_known(&paths.known_findings());
    let mut by_sig: BTreeMap<String, Vec<Failure>> = BTreeMap::new();
    for f in total.failures.drain(..) {
        by_sig.entry(f.sig.clone()).or_default().push(f);
    }
    if let Some(fs) = by_sig.get("harness-error") {
        return fatal(format!("harness error inside an execution: {}", fs[0].message));
    }
    let mut violations: Vec<(String, PathBuf)> = Vec::new();
    let mut known_hits: Vec<Value> = Vec::new();
    let mut minimise_stats = json!({"probes": 0, "probe_executions": 0});
    let mut failing_sample: Option<Value> = None;
    let mut queue: Vec<(String, Vec<Failure>)> = by_sig.into_iter().collect();
    let mut done_sigs: Vec<String> = Vec::new();
    let n_sigs = queue.len().max(1) as u32;
    while let Some((sig, mut fails)) = queue.pop() {
        if done_sigs.contains(&sig) {
            continue;
        }
        done_sigs.push(sig.clone());
        // a known finding?  Its committed witness must still fail with that very signature.
        if let Some(k) = known.iter().find(|k| k.sig == sig) {
            match replay_file(&mut ex, &k.witness) {
                Ok(r) if r.got_sig.as_deref() == Some(sig.as_str()) => {
                    println!("KNOWN-FINDING: property={PROPERTY} {}", k.text);
                    known_hits.push(json!({"sig": sig, "witness": k.witness, "configurations_failing": fails.len()}));
                    continue;
                }
                Ok(r) => note(&format!(
                    "known finding sig={sig}: witness {} no longer reproduces it (got {:?}); treating the failure as a violation",
                    k.witness.display(),
                    r.got_sig
                )),
                Err(Fatal(m)) => note(&format!("known finding sig={sig}: witness unusable ({m}); treating the failure as a violation")),
            }
        }
        // minimise: start from the smallest failing configuration / shortest schedule
        fails.sort_by_key(|f| (f.scenario.size(), f.steps));
        let start = fails.remove(0);
        let mut m = Minimiser {
            ex: &mut ex,
            sig: sig.clone(),
            seed: a.seed,
            deadline: Instant::now() + t.minimise_budget / n_sigs,
            probes: 0,
            probe_executions: 0,
            others: Vec::new(),
        };
        let best = m.minimise(start)?;
        minimise_stats["probes"] = json!(minimise_stats["probes"].as_u64().unwrap_or(0) + m.probes);
        minimise_stats["probe_executions"] =
            json!(minimise_stats["probe_executions"].as_u64().unwrap_or(0) + m.probe_executions);
        for o in m.others.drain(..) {
            if !done_sigs.contains(&o.sig) && !queue.iter().any(|q| q.0 == o.sig) {
                queue.push((o.sig.clone(), vec![o]));
            }
        }
        let file = write_replay(&paths, &best, a.seed)?;
        // the replay file must reproduce the signature in a fresh process
        verify_by_subprocess(&file, &sig)?;
        if failing_sample.is_none() {
            failing_sample = Some(json!({
                "failing": true, "sig": sig, "configuration": best.scenario.to_json(),
                "steps": best.steps, "history": best.history, "lock_diag": best.lock_diag,
            }));
        }
        violations.push((sig, file));
    }

    // ---- evidence
    let wall_s = started.elapsed().as_secs_f64();
    let mut samples = pick_samples(total.samples.clone(), 4);
    if let Some(s) = failing_sample {
        samples.push(s);
    }
    if samples.is_empty() {
        samples.push(json!({"note": "no completed execution had a reader call overlapping a writer operation",
                            "configuration": model::grid(sub_seed(a.seed, 0))[0].to_json()}));
    }
    let evidence = json!({
        "property_id": PROPERTY,
        "tier": t.name,
        "seed": a.seed,
        "level": "exploration",
        "wall_s": wall_s,
        "violations": violations.len(),
        "assumptions": [
            "std::sync::RwLock is modelled as writer-preferring (the policy of std's futex RwLock on Linux): read() is admitted only if no writer holds the lock and none waits; write() waits for no readers and no writer. Other platform policies (reader-preferring, phase-fair) are not explored; under a reader-preferring lock the re-entrant read cannot deadlock.",
            "Threads are shuttle tasks on one OS thread; preemption happens only at lock operations of the shim (request/park/acquire/release, each a shuttle Mutex/Condvar operation) and at the history stamps (a shuttle atomic). Code between two such points is atomic, which is sound for data protected by the lock and unsound for data races outside it (there is no such shared data in the crate: everything is behind the one RwLock).",
            "Sequentially consistent memory; no spurious condvar wake-ups (shuttle does not model them).",
            "Random and PCT(depth 2..4) schedule sampling, not exhaustive; configurations (tree, calls, operations) are drawn from the seed.",
            "Stream handles stay on the thread that opened them (Stream is !Send); one handle per stream; the writer never changes the tree.",
            "The crate is compiled from its working tree with cfg(cfb_verif, cfb_verif_sync), debug assertions and overflow checks on; the backing store is an in-memory Cursor<Vec<u8>> that never fails.",
            "Regularity oracle: the length a reader sees for a written stream must be the committed (directory entry) or logical (handle) length after some writer operation inside the read's window; the writer measures both after each of its operations.",
        ],
        "coverage": {
            "evaluations": evaluations,
            "distinct_nontrivial": total.hashes.len(),
            "rule": "One evaluation = one shuttle execution of one configuration under one schedule (RandomScheduler or PctScheduler depth 2-4, seeded). A configuration = CFB version, buffer size, tree (3-8 streams with sizes below and above 4096, 0-2 storages), 1-2 writer handles, 1-3 readers with 2-6 read-only calls each, 2-8 writer operations; 54 configurations per slice are drawn from the seed over readers{1,2,3} x handles{1,2} x reader profile{lookups,listings,mixed} x writer profile{write+flush,set_len,mixed}. An execution is NON-TRIVIAL when, in its recorded invoke/return history (one global sequence counter), at least one reader call interval overlaps a writer operation interval; it is DISTINCT by the 64-bit FNV hash of its (task id, lock serial, lock event) sequence collected in the lock shim (events: read/write request, park, acquire, release), mixed with the configuration key. distinct_nontrivial counts distinct hashes among completed non-trivial executions only (failed executions are not counted).",
            "samples": samples,
            "schedules_per_hour": if wall_s > 0.0 { (evaluations as f64 / wall_s * 3600.0) as u64 } else { 0 },
            "executions_per_second_search": if search_s > 0.0 { (evaluations as f64 / search_s) as u64 } else { 0 },
            "search_wall_s": search_s,
            "executions_random": total.executions_random,
            "executions_pct": total.executions_pct,
            "executions_completed": total.completed,
            "executions_nontrivial": total.nontrivial,
            "configurations": total.configurations,
            "configurations_stopped_at_first_failure": total.configurations_failed,
            "processes": t.procs,
            "deadlocks_found": deadlocks_found,
            "steps_total": total.steps_total,
            "lock_events_total": total.lock_events,
            "lock_parks_total": total.lock_blocks,
            "max_steps_per_execution": explore::MAX_STEPS,
            "minimisation": minimise_stats,
            "violation_signatures": violations.iter().map(|v| json!({"sig": v.0, "replay": v.1})).collect::<Vec<_>>(),
            "known_finding_hits": known_hits.len(),
            "known_finding_details": known_hits,
            "source_root": source_root(),
            "real_vs_stub": {
                "real": [
                    format!("cfb crate compiled in place from {} (CompoundFile, Stream, Entries, MiniAllocator, Directory, Allocator, Sectors: unmodified code paths)", source_root()),
                    "std::io::Cursor<Vec<u8>> as the backing store (real reads/writes/seeks)",
                    "std::sync::{Arc, Weak} (the crate's sharing structure: Arc<RwLock<MiniAllocator>>, Weak in Stream)",
                    "the public API calls under test: entry, exists, is_stream, is_storage, root_entry, read_root_storage, read_storage, walk, walk_storage + iteration; Stream::{read, write, seek, set_len, flush}",
                ],
                "simulated": [
                    "RwLock: cfb_verif_sync::RwLock, writer-preferring model on shuttle::sync::{Mutex, Condvar} (replaces std::sync::RwLock through the cfg(cfb_verif_sync) seam)",
                    "threads: shuttle tasks scheduled by RandomScheduler / PctScheduler (replaces OS threads and the OS scheduler)",
                    "clock: pinned with cfb::verif_hooks::set_clock",
                    "no I/O faults",
                ],
            },
            "fault_kinds": "none (schedule search only)",
        },
    });
    let ev_path = paths.evidence();
    if let Some(d) = ev_path.parent() {
        fs::create_dir_all(d).map_err(|e| Fatal(format!("{}: {e}", d.display())))?;
    }
    fs::write(&ev_path, serde_json::to_string_pretty(&evidence).unwrap() + "\n")
        .map_err(|e| Fatal(format!("cannot write {}: {e}", ev_path.display())))?;
    let _ = fs::remove_dir_all(&paths.work);

    note(&format!(
        "{} seed={} : {} executions ({} random, {} pct) over {} configurations in {:.1}s ({:.0}/s search), {} distinct non-trivial interleavings, {} configurations failed, {} violation signature(s), {} known-finding hit(s)",
        t.name, a.seed, evaluations, total.executions_random, total.executions_pct, total.configurations, wall_s,
        evaluations as f64 / search_s.max(1e-9), total.hashes.len(), total.configurations_failed, violations.len(), known_hits.len()
    ));
    for (_, file) in &violations {
        println!("VIOLATION property={PROPERTY} replay={}", file.display());
    }
    std::io::stdout().flush().ok();
    Ok(if violations.is_empty() { 0 } else { 1 })
}

fn cmd_replay(a: &Args) -> Result<i32, Fatal> {
    let file = PathBuf::from(a.file.clone().ok_or_else(|| Fatal(usage()))?);
    let mut ex = Explorer::new(None);
    cfb_verif_sync::trace::keep_events(true);
    let r = replay_file(&mut ex, &file)?;
    match &r.got_sig {
        None => {
            println!(
                "REPLAY property={PROPERTY} file={} outcome=pass expected={} match=false",
                file.display(),
                r.expected_sig
            );
            Ok(0)
        }
        Some(sig) => {
            let same = *sig == r.expected_sig;
            println!(
                "REPLAY property={PROPERTY} file={} outcome=fail sig={} expected={} match={}",
                file.display(),
                sig,
                r.expected_sig,
                same
            );
            println!("message: {}", r.message);
            println!("lock state per task: {}", r.lock_diag);
            if a.verbose {
                println!("history: {}", serde_json::to_string_pretty(&r.history).unwrap());
                let evs = cfb_verif_sync::trace::events();
                let tail: Vec<String> =
                    evs.iter().rev().take(40).rev().map(|(t, l, e)| format!("t{t}:lock{l}:{}", e.name())).collect();
                println!("last lock events: {}", tail.join(" "));
            }
            if same {
                Ok(1)
            } else if sig == "replay-diverged" {
                note("the schedule no longer fits the program (sources changed since the file was written?)");
                Ok(2)
            } else {
                Ok(2)
            }
        }
    }
}

fn main() {
    std::env::remove_var("SHUTTLE_RANDOM_SEED");
    let code = match parse_args() {
        Err(Fatal(m)) => {
            eprintln!("cfbsched: {m}\n{}", usage());
            2
        }
        Ok(a) => {
            explore::install_panic_hook(a.verbose);
            if !a.verbose && a.cmd != "child" {
                quiet_stderr(Path::new("/verif/target/sched/logs/cfbsched.stderr.log"), a.cmd == "run");
            }
            let r = match a.cmd.as_str() {
                "run" => cmd_run(&a).inspect_err(|_| {
                    // no evidence is better than the stale evidence of an earlier run
                    let _ = fs::remove_file(Paths::new(a.out_root.clone()).evidence());
                }),
                "replay" => cmd_replay(&a),
                "child" => cmd_child(&a),
                _ => Err(Fatal(usage())),
            };
            match r {
                Ok(c) => c,
                Err(Fatal(m)) => {
                    note(&format!("harness error: {m}"));
                    println!("HARNESS-ERROR property={PROPERTY} {m}");
                    2
                }
            }
        }
    };
    std::process::exit(code);
}
