//! Scenario description (all parameters of one configuration), its JSON form, the generator
//! that draws configurations from a seed, and the static model of the tree that tells what
//! every read-only call must return (names / types / paths never change: the writer only
//! touches stream contents and lengths).

use serde_json::{json, Value};
use std::collections::BTreeSet;

// ------------------------------------------------------------------------------------------
// PRNG (configuration drawing only; never used inside an execution)

#[derive(Clone)]
pub struct SplitMix(pub u64);

impl SplitMix {
    pub fn next(&mut self) -> u64 {
        self.0 = self.0.wrapping_add(0x9E37_79B9_7F4A_7C15);
        let mut z = self.0;
        z = (z ^ (z >> 30)).wrapping_mul(0xBF58_476D_1CE4_E5B9);
        z = (z ^ (z >> 27)).wrapping_mul(0x94D0_49BB_1331_11EB);
        z ^ (z >> 31)
    }
    pub fn below(&mut self, n: u64) -> u64 {
        if n == 0 {
            0
        } else {
            self.next() % n
        }
    }
    pub fn range(&mut self, lo: u64, hi_incl: u64) -> u64 {
        lo + self.below(hi_incl - lo + 1)
    }
    pub fn pick<'a, T>(&mut self, v: &'a [T]) -> &'a T {
        &v[self.below(v.len() as u64) as usize]
    }
}

pub fn mix(a: u64, b: u64) -> u64 {
    let mut s = SplitMix(a ^ b.wrapping_mul(0xD6E8_FEB8_6659_FD93));
    s.next();
    s.next()
}

pub fn fnv64(bytes: &[u8]) -> u64 {
    let mut h: u64 = 0xcbf2_9ce4_8422_2325;
    for b in bytes {
        h ^= u64::from(*b);
        h = h.wrapping_mul(0x0000_0100_0000_01b3);
    }
    h
}

// ------------------------------------------------------------------------------------------
// Scenario

#[derive(Clone, Debug, PartialEq, Eq)]
pub enum Call {
    Entry(String),
    Exists(String),
    IsStream(String),
    IsStorage(String),
    RootEntry,
    ReadRoot,
    ReadStorage(String),
    Walk,
    WalkStorage(String),
    /// `walk()` driven step by step, with another read-only call (`exists` of the entry just
    /// returned) between two `next()` calls - the iterator is alive across other API calls
    WalkInterleaved,
    /// the same for `read_root_storage()`
    ReadRootInterleaved,
}

impl Call {
    pub fn text(&self) -> String {
        match self {
            Call::Entry(p) => format!("entry:{p}"),
            Call::Exists(p) => format!("exists:{p}"),
            Call::IsStream(p) => format!("is_stream:{p}"),
            Call::IsStorage(p) => format!("is_storage:{p}"),
            Call::RootEntry => "root_entry".into(),
            Call::ReadRoot => "read_root_storage".into(),
            Call::ReadStorage(p) => format!("read_storage:{p}"),
            Call::Walk => "walk".into(),
            Call::WalkStorage(p) => format!("walk_storage:{p}"),
            Call::WalkInterleaved => "walk_interleaved".into(),
            Call::ReadRootInterleaved => "read_root_interleaved".into(),
        }
    }
    pub fn parse(s: &str) -> Result<Call, String> {
        let (k, p) = match s.split_once(':') {
            Some((k, p)) => (k, Some(p.to_string())),
            None => (s, None),
        };
        let need = |p: Option<String>| p.ok_or_else(|| format!("call {s:?} needs a path"));
        Ok(match k {
            "entry" => Call::Entry(need(p)?),
            "exists" => Call::Exists(need(p)?),
            "is_stream" => Call::IsStream(need(p)?),
            "is_storage" => Call::IsStorage(need(p)?),
            "root_entry" => Call::RootEntry,
            "read_root_storage" => Call::ReadRoot,
            "read_storage" => Call::ReadStorage(need(p)?),
            "walk" => Call::Walk,
            "walk_storage" => Call::WalkStorage(need(p)?),
            "walk_interleaved" => Call::WalkInterleaved,
            "read_root_interleaved" => Call::ReadRootInterleaved,
            _ => return Err(format!("unknown call {s:?}")),
        })
    }
}

/// Writer operations; `h` indexes `Scenario::handles`.
#[derive(Clone, Debug, PartialEq, Eq)]
pub enum Op {
    /// `write_all` of `n` bytes, issued as a loop of `write()` calls (each one is recorded as
    /// its own stream operation)
    Write { h: usize, n: usize },
    Read { h: usize, n: usize },
    SeekStart { h: usize, pos: u64 },
    SeekEnd { h: usize, back: u64 },
    SeekCur { h: usize, delta: i64 },
    SetLen { h: usize, n: u64 },
    Flush { h: usize },
    /// `flush()` issued from inside a `for entry in cf.walk()` loop on the writer's own thread
    FlushInWalk { h: usize },
    /// fault injection: the `after`-th next write call on the underlying file fails once
    /// (`h` is unused; kept so that every op has a handle)
    FailWrite { h: usize, after: u64 },
}

impl Op {
    pub fn handle(&self) -> usize {
        match *self {
            Op::Write { h, .. }
            | Op::Read { h, .. }
            | Op::SeekStart { h, .. }
            | Op::SeekEnd { h, .. }
            | Op::SeekCur { h, .. }
            | Op::SetLen { h, .. }
            | Op::FlushInWalk { h }
            | Op::FailWrite { h, .. }
            | Op::Flush { h } => h,
        }
    }
    pub fn with_handle(&self, nh: usize) -> Op {
        let mut o = self.clone();
        match &mut o {
            Op::Write { h, .. }
            | Op::Read { h, .. }
            | Op::SeekStart { h, .. }
            | Op::SeekEnd { h, .. }
            | Op::SeekCur { h, .. }
            | Op::SetLen { h, .. }
            | Op::FlushInWalk { h }
            | Op::FailWrite { h, .. }
            | Op::Flush { h } => *h = nh,
        }
        o
    }
    pub fn text(&self) -> String {
        match *self {
            Op::Write { h, n } => format!("write:{h}:{n}"),
            Op::Read { h, n } => format!("read:{h}:{n}"),
            Op::SeekStart { h, pos } => format!("seek_start:{h}:{pos}"),
            Op::SeekEnd { h, back } => format!("seek_end:{h}:{back}"),
            Op::SeekCur { h, delta } => format!("seek_cur:{h}:{delta}"),
            Op::SetLen { h, n } => format!("set_len:{h}:{n}"),
            Op::Flush { h } => format!("flush:{h}"),
            Op::FlushInWalk { h } => format!("flush_in_walk:{h}"),
            Op::FailWrite { h, after } => format!("fail_write:{h}:{after}"),
        }
    }
    pub fn parse(s: &str) -> Result<Op, String> {
        let parts: Vec<&str> = s.split(':').collect();
        let bad = || format!("bad writer op {s:?}");
        let h: usize = parts.get(1).ok_or_else(bad)?.parse().map_err(|_| bad())?;
        let arg = |i: usize| -> Result<&str, String> { parts.get(i).copied().ok_or_else(bad) };
        Ok(match parts[0] {
            "write" => Op::Write { h, n: arg(2)?.parse().map_err(|_| bad())? },
            "read" => Op::Read { h, n: arg(2)?.parse().map_err(|_| bad())? },
            "seek_start" => Op::SeekStart { h, pos: arg(2)?.parse().map_err(|_| bad())? },
            "seek_end" => Op::SeekEnd { h, back: arg(2)?.parse().map_err(|_| bad())? },
            "seek_cur" => Op::SeekCur { h, delta: arg(2)?.parse().map_err(|_| bad())? },
            "set_len" => Op::SetLen { h, n: arg(2)?.parse().map_err(|_| bad())? },
            "flush" => Op::Flush { h },
            "flush_in_walk" => Op::FlushInWalk { h },
            "fail_write" => Op::FailWrite { h, after: arg(2)?.parse().map_err(|_| bad())? },
            _ => return Err(bad()),
        })
    }
}

#[derive(Clone, Debug, PartialEq, Eq)]
pub struct Scenario {
    /// CFB major version used to create the image (3: 512-byte sectors, 4: 4096-byte sectors)
    pub version: u8,
    /// `OpenOptions::max_buffer_size` for the handles
    pub max_buffer: usize,
    /// storage paths, parents before children
    pub storages: Vec<String>,
    /// (path, initial length)
    pub streams: Vec<(String, u64)>,
    /// streams the writer opens handles on (distinct)
    pub handles: Vec<String>,
    pub readers: Vec<Vec<Call>>,
    pub writer: Vec<Op>,
}

impl Scenario {
    pub fn to_json(&self) -> Value {
        json!({
            "version": self.version,
            "max_buffer_size": self.max_buffer,
            "storages": self.storages,
            "streams": self.streams.iter().map(|(p, l)| json!({"path": p, "len": l})).collect::<Vec<_>>(),
            "handles": self.handles,
            "readers": self.readers.iter()
                .map(|r| r.iter().map(|c| c.text()).collect::<Vec<_>>()).collect::<Vec<_>>(),
            "writer": self.writer.iter().map(|o| o.text()).collect::<Vec<_>>(),
        })
    }

    pub fn from_json(v: &Value) -> Result<Scenario, String> {
        let strs = |v: &Value, what: &str| -> Result<Vec<String>, String> {
            v.as_array()
                .ok_or_else(|| format!("{what}: not an array"))?
                .iter()
                .map(|x| x.as_str().map(str::to_string).ok_or_else(|| format!("{what}: not a string")))
                .collect()
        };
        let version = v["version"].as_u64().ok_or("version")? as u8;
        let max_buffer = v["max_buffer_size"].as_u64().ok_or("max_buffer_size")? as usize;
        let storages = strs(&v["storages"], "storages")?;
        let mut streams = Vec::new();
        for s in v["streams"].as_array().ok_or("streams")? {
            streams.push((
                s["path"].as_str().ok_or("streams.path")?.to_string(),
                s["len"].as_u64().ok_or("streams.len")?,
            ));
        }
        let handles = strs(&v["handles"], "handles")?;
        let mut readers = Vec::new();
        for r in v["readers"].as_array().ok_or("readers")? {
            let mut calls = Vec::new();
            for c in strs(r, "readers[]")? {
                calls.push(Call::parse(&c)?);
            }
            readers.push(calls);
        }
        let mut writer = Vec::new();
        for o in strs(&v["writer"], "writer")? {
            writer.push(Op::parse(&o)?);
        }
        let sc = Scenario { version, max_buffer, storages, streams, handles, readers, writer };
        sc.validate()?;
        Ok(sc)
    }

    pub fn validate(&self) -> Result<(), String> {
        if self.version != 3 && self.version != 4 {
            return Err("version must be 3 or 4".into());
        }
        let mut seen = BTreeSet::new();
        for p in self.storages.iter().chain(self.streams.iter().map(|s| &s.0)) {
            if !p.starts_with('/') || p.len() < 2 || p.ends_with('/') {
                return Err(format!("bad path {p:?}"));
            }
            if !seen.insert(p.to_ascii_uppercase()) {
                return Err(format!("duplicate path {p:?}"));
            }
            let parent = parent_of(p);
            if parent != "/" && !self.storages.iter().any(|s| s == parent) {
                return Err(format!("parent of {p:?} is not a storage"));
            }
        }
        let mut hs = BTreeSet::new();
        for h in &self.handles {
            if !self.streams.iter().any(|s| &s.0 == h) {
                return Err(format!("handle {h:?} is not a stream"));
            }
            if !hs.insert(h) {
                return Err(format!("two handles on {h:?}"));
            }
        }
        for o in &self.writer {
            if o.handle() >= self.handles.len() {
                return Err(format!("op {} uses a missing handle", o.text()));
            }
        }
        Ok(())
    }

    /// Stable key of the configuration (mixed into interleaving hashes).
    pub fn key(&self) -> u64 {
        fnv64(self.to_json().to_string().as_bytes())
    }

    /// Key of the image only (tree + version).
    pub fn image_key(&self) -> u64 {
        fnv64(
            json!({"v": self.version, "d": self.storages,
                   "s": self.streams.iter().map(|(p, l)| json!([p, l])).collect::<Vec<_>>()})
            .to_string()
            .as_bytes(),
        )
    }

    /// Size measure used to order configurations when minimising:
    /// (readers, reader calls, writer ops, handles, tree entries).
    pub fn size(&self) -> (usize, usize, usize, usize, usize) {
        (
            self.readers.len(),
            self.readers.iter().map(|r| r.len()).sum(),
            self.writer.len(),
            self.handles.len(),
            self.storages.len() + self.streams.len(),
        )
    }
}

pub fn parent_of(path: &str) -> &str {
    match path.rfind('/') {
        Some(0) | None => "/",
        Some(i) => &path[..i],
    }
}

pub fn name_of(path: &str) -> &str {
    match path.rfind('/') {
        Some(i) => &path[i + 1..],
        None => path,
    }
}

// ------------------------------------------------------------------------------------------
// Static model of the tree

#[derive(Clone, Copy, Debug, PartialEq, Eq)]
pub enum Kind {
    Root,
    Storage,
    Stream,
}

impl Kind {
    pub fn name(self) -> &'static str {
        match self {
            Kind::Root => "root",
            Kind::Storage => "storage",
            Kind::Stream => "stream",
        }
    }
}

/// What a reader saw for one directory entry.
#[derive(Clone, Debug, PartialEq, Eq)]
pub struct Seen {
    pub path: String,
    pub name: String,
    pub kind: Kind,
    pub len: u64,
}

/// Result of a read-only call, as recorded in the history.
#[derive(Clone, Debug, PartialEq, Eq)]
pub enum Res {
    Entry(Seen),
    Bool(bool),
    List(Vec<Seen>),
    /// `io::ErrorKind` debug name
    Err(String),
}

/// MS-CFB sibling order as the library implements it for ASCII names: shorter first, then
/// by upper-cased bytes.
fn cfb_name_cmp(a: &str, b: &str) -> std::cmp::Ordering {
    a.len().cmp(&b.len()).then_with(|| a.to_ascii_uppercase().cmp(&b.to_ascii_uppercase()))
}

pub struct TreeModel<'a> {
    sc: &'a Scenario,
}

impl<'a> TreeModel<'a> {
    pub fn new(sc: &'a Scenario) -> Self {
        TreeModel { sc }
    }

    pub fn kind(&self, path: &str) -> Option<Kind> {
        if path == "/" {
            Some(Kind::Root)
        } else if self.sc.storages.iter().any(|s| s == path) {
            Some(Kind::Storage)
        } else if self.sc.streams.iter().any(|s| s.0 == path) {
            Some(Kind::Stream)
        } else {
            None
        }
    }

    fn seen(&self, path: &str) -> Seen {
        let kind = self.kind(path).expect("model: path exists");
        let (name, len) = match kind {
            Kind::Root => ("Root Entry".to_string(), 0),
            Kind::Storage => (name_of(path).to_string(), 0),
            Kind::Stream => (
                name_of(path).to_string(),
                self.sc.streams.iter().find(|s| s.0 == path).map(|s| s.1).unwrap(),
            ),
        };
        Seen { path: path.to_string(), name, kind, len }
    }

    fn children(&self, path: &str) -> Vec<String> {
        let mut v: Vec<String> = self
            .sc
            .storages
            .iter()
            .chain(self.sc.streams.iter().map(|s| &s.0))
            .filter(|p| parent_of(p) == path)
            .cloned()
            .collect();
        v.sort_by(|a, b| cfb_name_cmp(name_of(a), name_of(b)));
        v
    }

    fn preorder(&self, path: &str, out: &mut Vec<Seen>) {
        out.push(self.seen(path));
        if self.kind(path) != Some(Kind::Stream) {
            for c in self.children(path) {
                self.preorder(&c, out);
            }
        }
    }

    /// The expected result of a call.  Stream lengths in it are the *initial* lengths; the
    /// regularity oracle deals with lengths of written streams separately, and lengths of
    /// storages/root are not compared (the root's length is the mini-stream size).
    pub fn expect(&self, call: &Call) -> Res {
        let not_found = || Res::Err("NotFound".into());
        match call {
            Call::Entry(p) => match self.kind(p) {
                Some(_) => Res::Entry(self.seen(p)),
                None => not_found(),
            },
            Call::Exists(p) => Res::Bool(self.kind(p).is_some()),
            Call::IsStream(p) => Res::Bool(self.kind(p) == Some(Kind::Stream)),
            Call::IsStorage(p) => Res::Bool(matches!(self.kind(p), Some(Kind::Storage | Kind::Root))),
            Call::RootEntry => Res::Entry(self.seen("/")),
            Call::ReadRoot | Call::ReadRootInterleaved => Res::List(self.children("/").iter().map(|c| self.seen(c)).collect()),
            Call::ReadStorage(p) => match self.kind(p) {
                None => not_found(),
                Some(Kind::Stream) => Res::Err("InvalidInput".into()),
                Some(_) => Res::List(self.children(p).iter().map(|c| self.seen(c)).collect()),
            },
            Call::Walk | Call::WalkInterleaved => {
                let mut out = Vec::new();
                self.preorder("/", &mut out);
                Res::List(out)
            }
            Call::WalkStorage(p) => match self.kind(p) {
                None => not_found(),
                Some(_) => {
                    let mut out = Vec::new();
                    self.preorder(p, &mut out);
                    Res::List(out)
                }
            },
        }
    }
}

// ------------------------------------------------------------------------------------------
// Generator

#[derive(Clone, Copy, Debug, PartialEq, Eq)]
pub enum ReaderProfile {
    Lookups,
    Listings,
    Mixed,
}

#[derive(Clone, Copy, Debug, PartialEq, Eq)]
pub enum WriterProfile {
    WriteFlush,
    SetLen,
    Mixed,
}

pub const READER_PROFILES: [ReaderProfile; 3] =
    [ReaderProfile::Lookups, ReaderProfile::Listings, ReaderProfile::Mixed];
pub const WRITER_PROFILES: [WriterProfile; 3] =
    [WriterProfile::WriteFlush, WriterProfile::SetLen, WriterProfile::Mixed];

const STREAM_NAMES: [&str; 12] =
    ["a", "B", "c", "dd", "EE", "f1", "G22", "h33", "I444", "j5555", "K", "zz"];
const STORAGE_NAMES: [&str; 2] = ["sto", "X"];

fn draw_len(rng: &mut SplitMix) -> u64 {
    match rng.below(100) {
        0..=9 => 0,
        10..=24 => rng.range(1, 64),
        25..=59 => rng.range(65, 4095),
        _ => rng.range(4096, 9000),
    }
}

/// One grid point: the discrete parameters are given, everything else (tree, paths, call and
/// operation sequences, sizes) is drawn from `rng`.
pub fn generate(
    rng: &mut SplitMix,
    n_readers: usize,
    n_handles: usize,
    rprof: ReaderProfile,
    wprof: WriterProfile,
) -> Scenario {
    // ---- tree
    let n_storages = rng.below(3) as usize;
    let mut storages: Vec<String> = Vec::new();
    if n_storages >= 1 {
        storages.push(format!("/{}", STORAGE_NAMES[0]));
    }
    if n_storages >= 2 {
        if rng.below(2) == 0 {
            storages.push(format!("/{}/{}", STORAGE_NAMES[0], STORAGE_NAMES[1]));
        } else {
            storages.push(format!("/{}", STORAGE_NAMES[1]));
        }
    }
    let n_streams = rng.range(3, 8) as usize;
    let mut names: Vec<&str> = STREAM_NAMES.to_vec();
    // shuffle names
    for i in (1..names.len()).rev() {
        let j = rng.below(i as u64 + 1) as usize;
        names.swap(i, j);
    }
    let mut streams: Vec<(String, u64)> = Vec::new();
    for (i, name) in names.iter().enumerate().take(n_streams) {
        let parent = if storages.is_empty() || rng.below(3) == 0 {
            "".to_string()
        } else {
            rng.pick(&storages).clone()
        };
        let len = match i {
            0 => rng.range(1, 4095),    // always a mini-stream sized one
            1 => rng.range(4096, 9000), // always a regular one
            _ => draw_len(rng),
        };
        streams.push((format!("{parent}/{name}"), len));
    }
    // creation order shapes the red-black tree: shuffle it
    for i in (1..streams.len()).rev() {
        let j = rng.below(i as u64 + 1) as usize;
        streams.swap(i, j);
    }

    // ---- handles: distinct streams, first one small, second one large when possible
    let mut handles: Vec<String> = Vec::new();
    let small: Vec<&(String, u64)> = streams.iter().filter(|s| s.1 < 4096).collect();
    let large: Vec<&(String, u64)> = streams.iter().filter(|s| s.1 >= 4096).collect();
    let first = if rng.below(2) == 0 { rng.pick(&small).0.clone() } else { rng.pick(&large).0.clone() };
    handles.push(first.clone());
    if n_handles >= 2 {
        let rest: Vec<&(String, u64)> = streams.iter().filter(|s| s.0 != first).collect();
        handles.push(rng.pick(&rest).0.clone());
    }

    // ---- reader calls
    let mut any_paths: Vec<String> = vec!["/".to_string(), "/nope".to_string()];
    any_paths.extend(storages.iter().cloned());
    any_paths.extend(streams.iter().map(|s| s.0.clone()));
    if let Some(s) = storages.first() {
        any_paths.push(format!("{s}/nope"));
    }
    any_paths.push(format!("{}/x", streams[0].0)); // below a stream
    let mut storage_paths: Vec<String> = vec!["/".to_string()];
    storage_paths.extend(storages.iter().cloned());

    let mut readers = Vec::new();
    for _ in 0..n_readers {
        let n_calls = rng.range(2, 6) as usize;
        let mut calls = Vec::new();
        for _ in 0..n_calls {
            let listing = match rprof {
                ReaderProfile::Lookups => false,
                ReaderProfile::Listings => true,
                ReaderProfile::Mixed => rng.below(2) == 0,
            };
            // lookups are biased towards the streams being written
            let lookup_path = |rng: &mut SplitMix| -> String {
                if rng.below(2) == 0 {
                    rng.pick(&handles).clone()
                } else {
                    rng.pick(&any_paths).clone()
                }
            };
            let call = if listing {
                match rng.below(9) {
                    0 => Call::ReadRoot,
                    6 | 7 => Call::WalkInterleaved,
                    8 => Call::ReadRootInterleaved,
                    1 => {
                        // mostly a storage, sometimes a stream / missing path (error paths)
                        if rng.below(4) == 0 {
                            Call::ReadStorage(rng.pick(&any_paths).clone())
                        } else {
                            Call::ReadStorage(rng.pick(&storage_paths).clone())
                        }
                    }
                    2 | 3 => Call::Walk,
                    _ => {
                        if rng.below(3) == 0 {
                            Call::WalkStorage(rng.pick(&any_paths).clone())
                        } else {
                            Call::WalkStorage(rng.pick(&storage_paths).clone())
                        }
                    }
                }
            } else {
                match rng.below(8) {
                    0..=3 => Call::Entry(lookup_path(rng)),
                    4 => Call::Exists(lookup_path(rng)),
                    5 => Call::IsStream(lookup_path(rng)),
                    6 => Call::IsStorage(lookup_path(rng)),
                    _ => Call::RootEntry,
                }
            };
            calls.push(call);
        }
        readers.push(calls);
    }

    // ---- writer ops.  A model of (position, logical length) per handle keeps seeks valid and
    // makes every new logical length a value the stream never had before, so that an observed
    // length identifies the operation it came from.
    struct H {
        pos: u64,
        len: u64,
        used: BTreeSet<u64>,
    }
    let mut hm: Vec<H> = handles
        .iter()
        .map(|p| {
            let len = streams.iter().find(|s| &s.0 == p).unwrap().1;
            H { pos: 0, len, used: [len].into_iter().collect() }
        })
        .collect();
    let n_ops = rng.range(2, 8) as usize;
    let mut writer = Vec::new();
    while writer.len() < n_ops {
        let h = rng.below(hm.len() as u64) as usize;
        let m = &mut hm[h];
        let kind = match wprof {
            // 0 write, 1 flush, 2 set_len, 3 read, 4 seek
            WriterProfile::WriteFlush => [0, 0, 1, 1, 4][rng.below(5) as usize],
            WriterProfile::SetLen => [2, 2, 2, 0, 1][rng.below(5) as usize],
            WriterProfile::Mixed => [0, 0, 1, 2, 2, 3, 4, 4][rng.below(8) as usize],
        };
        match kind {
            0 => {
                let mut n = match rng.below(3) {
                    0 => rng.range(1, 64),
                    1 => rng.range(65, 1500),
                    _ => rng.range(1501, 6000),
                };
                while m.pos + n > m.len && m.used.contains(&(m.pos + n)) {
                    n += 1;
                }
                m.pos += n;
                if m.pos > m.len {
                    m.len = m.pos;
                    m.used.insert(m.len);
                }
                writer.push(Op::Write { h, n: n as usize });
            }
            1 => {
                if rng.below(5) == 0 {
                    // a write-back that fails once (the flush is expected to report it)
                    writer.push(Op::FailWrite { h, after: rng.range(1, 12) });
                    writer.push(Op::Flush { h });
                }
                writer.push(if rng.below(4) == 0 { Op::FlushInWalk { h } } else { Op::Flush { h } })
            }
            2 => {
                // cross the 4096 mini-stream cutoff about half of the time
                let mut n = if rng.below(12) == 0 {
                    // one call growing the stream by several MiB (must still be ONE step for readers)
                    m.len + rng.range(2_300_000, 2_700_000)
                } else if (m.len < 4096) == (rng.below(2) == 0) {
                    rng.range(4096, 12000)
                } else {
                    rng.range(0, 4095)
                };
                while m.used.contains(&n) {
                    n += 1;
                }
                m.len = n;
                m.pos = m.pos.min(n);
                m.used.insert(n);
                writer.push(Op::SetLen { h, n });
            }
            3 => {
                let n = rng.range(1, 2000);
                m.pos = (m.pos + n).min(m.len);
                writer.push(Op::Read { h, n: n as usize });
            }
            _ => match rng.below(3) {
                0 => {
                    let pos = rng.range(0, m.len);
                    m.pos = pos;
                    writer.push(Op::SeekStart { h, pos });
                }
                1 => {
                    let back = rng.range(0, m.len);
                    m.pos = m.len - back;
                    writer.push(Op::SeekEnd { h, back });
                }
                _ => {
                    let target = rng.range(0, m.len);
                    let delta = target as i64 - m.pos as i64;
                    m.pos = target;
                    writer.push(Op::SeekCur { h, delta });
                }
            },
        }
    }
    // make sure something is committed: end with a flush on a handle that wrote
    if !writer.iter().any(|o| matches!(o, Op::Flush { .. } | Op::FlushInWalk { .. } | Op::SetLen { .. })) {
        let h = writer.iter().find_map(|o| if let Op::Write { h, .. } = o { Some(*h) } else { None }).unwrap_or(0);
        writer.push(Op::Flush { h });
    }

    let version = if rng.below(2) == 0 { 3 } else { 4 };
    let max_buffer = *rng.pick(&[1024usize, 4096, 1 << 20]);
    let sc = Scenario { version, max_buffer, storages, streams, handles, readers, writer };
    sc.validate().expect("generator produced an invalid scenario");
    sc
}

/// The grid of one slice: readers 1..3 x handles 1..2 x reader profile x writer profile.
pub fn grid(seed: u64) -> Vec<Scenario> {
    let mut out = Vec::new();
    let mut idx = 0u64;
    for n_readers in 1..=3 {
        for n_handles in 1..=2 {
            for rp in READER_PROFILES {
                for wp in WRITER_PROFILES {
                    let mut rng = SplitMix(mix(seed, 0xC14_0000 + idx));
                    out.push(generate(&mut rng, n_readers, n_handles, rp, wp));
                    idx += 1;
                }
            }
        }
    }
    out
}
