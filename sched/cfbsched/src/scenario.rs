//! One shuttle execution of a scenario, the recorded invoke/return history, and the oracles
//! evaluated over it.

use crate::model::{Call, Kind, Op, Res, Scenario, Seen, TreeModel};
use cfb::{CompoundFile, Entry, OpenOptions, Stream, Version};
use cfb_verif_sync::trace;
use serde_json::{json, Value};
use shuttle::sync::atomic::{AtomicU64, Ordering};
use std::cell::RefCell;
use std::collections::HashSet;
use std::io::{self, Cursor, Read, Seek, SeekFrom, Write};
use std::sync::{Arc, Mutex};
use std::time::{Duration, UNIX_EPOCH};

/// The backing store: a `Cursor` whose `after`-th next write can be made to fail once.
pub struct Disk {
    inner: Cursor<Vec<u8>>,
    fail_in: std::sync::Arc<std::sync::atomic::AtomicI64>,
}

impl Disk {
    pub fn new(bytes: Vec<u8>) -> (Disk, std::sync::Arc<std::sync::atomic::AtomicI64>) {
        let f = std::sync::Arc::new(std::sync::atomic::AtomicI64::new(0));
        (Disk { inner: Cursor::new(bytes), fail_in: f.clone() }, f)
    }
}

impl Read for Disk {
    fn read(&mut self, buf: &mut [u8]) -> io::Result<usize> {
        self.inner.read(buf)
    }
}

impl Seek for Disk {
    fn seek(&mut self, pos: SeekFrom) -> io::Result<u64> {
        self.inner.seek(pos)
    }
}

impl Write for Disk {
    fn write(&mut self, buf: &[u8]) -> io::Result<usize> {
        use std::sync::atomic::Ordering;
        let left = self.fail_in.load(Ordering::Relaxed);
        if left > 0 {
            self.fail_in.store(left - 1, Ordering::Relaxed);
            if left == 1 {
                return Err(io::Error::new(io::ErrorKind::Other, "injected write failure"));
            }
        }
        self.inner.write(buf)
    }
    fn flush(&mut self) -> io::Result<()> {
        self.inner.flush()
    }
}

pub type Cf = CompoundFile<Disk>;

/// Prefix of panics raised by the history oracles; the word after it is the signature.
pub const ORACLE_PREFIX: &str = "C14-ORACLE ";

fn pin_clock() {
    cfb::verif_hooks::set_clock(Some(UNIX_EPOCH + Duration::from_secs(1_700_000_000)));
}

// ------------------------------------------------------------------------------------------
// History

#[derive(Clone, Debug)]
pub enum Payload {
    /// reader call returned
    Reader(Res),
    /// writer operation returned: textual outcome, then per handle (committed, logical) length:
    /// committed = `cf.entry(path).len()` read by the writer right after the operation
    /// returned (holding no lock), logical = `stream.len()` of the handle
    Writer { outcome: String, states: Vec<(u64, u64)> },
}

#[derive(Clone, Debug)]
pub struct HRec {
    /// stamp from the one global sequence counter of the execution
    pub seq: u64,
    /// 0 = writer (main task), 1.. = readers
    pub actor: usize,
    /// index of the call in the actor's sequence
    pub idx: usize,
    /// for the writer: n-th `write()` of a `write_all`
    pub sub: usize,
    /// None = invoke record, Some = return record
    pub ret: Option<Payload>,
}

thread_local! {
    /// History of the execution in progress on this OS thread (all shuttle tasks of an
    /// execution are coroutines on the thread that runs the Runner).  Kept outside the
    /// execution so that it survives a failing execution for the report.
    static HIST: RefCell<Vec<HRec>> = const { RefCell::new(Vec::new()) };
}

pub fn history_snapshot() -> Vec<HRec> {
    HIST.with(|h| h.borrow().clone())
}

fn hist_push(rec: HRec) {
    HIST.with(|h| h.borrow_mut().push(rec));
}

struct Stamper {
    seq: AtomicU64,
}

impl Stamper {
    /// A scheduling point (shuttle atomic) that hands out the next sequence number; the record
    /// is appended before the task can be descheduled again, so log order == stamp order.
    fn invoke(&self, actor: usize, idx: usize, sub: usize) {
        let seq = self.seq.fetch_add(1, Ordering::SeqCst);
        hist_push(HRec { seq, actor, idx, sub, ret: None });
    }
    fn ret(&self, actor: usize, idx: usize, sub: usize, p: Payload) {
        let seq = self.seq.fetch_add(1, Ordering::SeqCst);
        hist_push(HRec { seq, actor, idx, sub, ret: Some(p) });
    }
}

fn seen_of(e: &Entry) -> Seen {
    let kind = if e.is_root() {
        Kind::Root
    } else if e.is_storage() {
        Kind::Storage
    } else {
        Kind::Stream
    };
    Seen {
        path: e.path().to_string_lossy().into_owned(),
        name: e.name().to_string(),
        kind,
        len: e.len(),
    }
}

fn err_res(e: &io::Error) -> Res {
    Res::Err(format!("{:?}", e.kind()))
}

fn do_call(cf: &Cf, call: &Call) -> Res {
    match call {
        Call::Entry(p) => match cf.entry(p) {
            Ok(e) => Res::Entry(seen_of(&e)),
            Err(e) => err_res(&e),
        },
        Call::Exists(p) => Res::Bool(cf.exists(p)),
        Call::IsStream(p) => Res::Bool(cf.is_stream(p)),
        Call::IsStorage(p) => Res::Bool(cf.is_storage(p)),
        Call::RootEntry => Res::Entry(seen_of(&cf.root_entry())),
        Call::ReadRoot => Res::List(cf.read_root_storage().map(|e| seen_of(&e)).collect()),
        Call::ReadStorage(p) => match cf.read_storage(p) {
            Ok(it) => Res::List(it.map(|e| seen_of(&e)).collect()),
            Err(e) => err_res(&e),
        },
        Call::Walk => Res::List(cf.walk().map(|e| seen_of(&e)).collect()),
        Call::WalkInterleaved => {
            let mut out = Vec::new();
            let mut it = cf.walk();
            while let Some(e) = it.next() {
                // another read-only call while the iterator is alive
                let _ = cf.exists(e.path());
                out.push(seen_of(&e));
            }
            Res::List(out)
        }
        Call::ReadRootInterleaved => {
            let mut out = Vec::new();
            let mut it = cf.read_root_storage();
            while let Some(e) = it.next() {
                let _ = cf.is_stream(e.path());
                out.push(seen_of(&e));
            }
            Res::List(out)
        }
        Call::WalkStorage(p) => match cf.walk_storage(p) {
            Ok(it) => Res::List(it.map(|e| seen_of(&e)).collect()),
            Err(e) => err_res(&e),
        },
    }
}

// ------------------------------------------------------------------------------------------
// Image

fn content_byte(stream_idx: usize, off: u64) -> u8 {
    (off as u8).wrapping_mul(31).wrapping_add(stream_idx as u8 * 17 + 1)
}

/// Builds the compound file of a scenario.  Must run inside a shuttle execution (the library's
/// lock is a shuttle primitive).
pub fn build_image(sc: &Scenario) -> io::Result<Vec<u8>> {
    pin_clock();
    let version = if sc.version == 3 { Version::V3 } else { Version::V4 };
    let mut cf = CompoundFile::create_with_version(version, Cursor::new(Vec::new()))?;
    for d in &sc.storages {
        cf.create_storage(d)?;
    }
    for (i, (path, len)) in sc.streams.iter().enumerate() {
        let mut s = cf.create_stream(path)?;
        let data: Vec<u8> = (0..*len).map(|o| content_byte(i, o)).collect();
        s.write_all(&data)?;
        s.flush()?;
    }
    cf.flush()?;
    Ok(cf.into_inner().into_inner())
}

// ------------------------------------------------------------------------------------------
// Per-execution statistics handed back to the explorer

#[derive(Default)]
pub struct Sink {
    pub executions: u64,
    pub completed: u64,
    pub nontrivial: u64,
    pub steps: u64,
    pub lock_events: u64,
    pub lock_blocks: u64,
    /// interleaving hashes (configuration key mixed in) of completed non-trivial executions
    pub hashes: HashSet<u64>,
    /// keep the history of the next completed non-trivial execution as a sample
    pub want_sample: bool,
    pub sample: Option<Value>,
}

pub type SharedSink = Arc<Mutex<Sink>>;

// ------------------------------------------------------------------------------------------
// The execution

/// Body of one shuttle execution (runs as the main task).
pub fn run_once(sc: &Scenario, image: &[u8], cfg_key: u64, sink: &SharedSink) {
    trace::reset();
    HIST.with(|h| h.borrow_mut().clear());
    pin_clock();
    sink.lock().unwrap().executions += 1;

    let (disk, fail_in) = Disk::new(image.to_vec());
    let mut cf: Cf = OpenOptions::new()
        .max_buffer_size(sc.max_buffer)
        .open_with(disk)
        .expect("harness: image must open");
    let mut streams: Vec<Stream<Disk>> =
        sc.handles.iter().map(|p| cf.open_stream(p).expect("harness: handle must open")).collect();
    let init: Vec<(u64, u64)> = streams.iter().map(|s| (s.len(), s.len())).collect();

    let cf = Arc::new(cf);
    let stamper = Arc::new(Stamper { seq: AtomicU64::new(1) });

    let mut joins = Vec::new();
    for (r, calls) in sc.readers.iter().enumerate() {
        let cf = Arc::clone(&cf);
        let st = Arc::clone(&stamper);
        let calls = calls.clone();
        let task = move || {
            pin_clock();
            for (i, call) in calls.iter().enumerate() {
                st.invoke(r + 1, i, 0);
                let res = do_call(&cf, call);
                st.ret(r + 1, i, 0, Payload::Reader(res));
            }
        };
        joins.push(
            shuttle::thread::Builder::new()
                .name(format!("reader{}", r + 1))
                .spawn(task)
                .expect("harness: spawn"),
        );
    }

    // writer: the main task keeps its (non-Send) handles and reaches the shared state through
    // their Weak references
    let states = |cf: &Cf, streams: &[Stream<Disk>]| -> Vec<(u64, u64)> {
        sc.handles
            .iter()
            .zip(streams.iter())
            .map(|(p, s)| (cf.entry(p).expect("harness: handle path must exist").len(), s.len()))
            .collect()
    };
    let mut scratch = vec![0u8; 8192];
    for (i, op) in sc.writer.iter().enumerate() {
        match *op {
            Op::Write { h, n } => {
                let data: Vec<u8> = (0..n as u64).map(|o| content_byte(100 + i, o)).collect();
                let mut off = 0;
                let mut sub = 0;
                while off < n {
                    stamper.invoke(0, i, sub);
                    let r = streams[h].write(&data[off..]);
                    let outcome = match &r {
                        Ok(k) => format!("ok:{k}"),
                        Err(e) => format!("err:{:?}", e.kind()),
                    };
                    let st = states(&cf, &streams);
                    stamper.ret(0, i, sub, Payload::Writer { outcome, states: st });
                    match r {
                        Ok(0) | Err(_) => break,
                        Ok(k) => off += k,
                    }
                    sub += 1;
                }
            }
            _ => {
                stamper.invoke(0, i, 0);
                let outcome = match *op {
                    Op::Read { h, n } => {
                        if scratch.len() < n {
                            scratch.resize(n, 0);
                        }
                        match streams[h].read(&mut scratch[..n]) {
                            Ok(k) => format!("ok:{k}"),
                            Err(e) => format!("err:{:?}", e.kind()),
                        }
                    }
                    Op::SeekStart { h, pos } => seek_outcome(streams[h].seek(SeekFrom::Start(pos))),
                    Op::SeekEnd { h, back } => seek_outcome(streams[h].seek(SeekFrom::End(-(back as i64)))),
                    Op::SeekCur { h, delta } => seek_outcome(streams[h].seek(SeekFrom::Current(delta))),
                    Op::SetLen { h, n } => match streams[h].set_len(n) {
                        Ok(()) => "ok".to_string(),
                        Err(e) => format!("err:{:?}", e.kind()),
                    },
                    Op::Flush { h } => match streams[h].flush() {
                        Ok(()) => "ok".to_string(),
                        Err(e) => format!("err:{:?}", e.kind()),
                    },
                    Op::FailWrite { after, .. } => {
                        fail_in.store(after as i64, std::sync::atomic::Ordering::Relaxed);
                        "armed".to_string()
                    }
                    Op::FlushInWalk { h } => {
                        // stream I/O from inside an iteration loop on the same thread
                        let mut outcome = "ok".to_string();
                        let mut first = true;
                        for _entry in cf.walk() {
                            if first {
                                first = false;
                                if let Err(e) = streams[h].flush() {
                                    outcome = format!("err:{:?}", e.kind());
                                }
                            }
                        }
                        outcome
                    }
                    Op::Write { .. } => unreachable!(),
                };
                let st = states(&cf, &streams);
                stamper.ret(0, i, 0, Payload::Writer { outcome, states: st });
            }
        }
    }

    for j in joins {
        j.join().expect("reader task panicked");
    }
    drop(streams);
    drop(cf);

    // ---- oracles over the recorded history
    let hist = history_snapshot();
    let verdict = check_history(sc, &init, &hist);
    let steps = shuttle::current::context_switches() as u64;
    {
        let mut s = sink.lock().unwrap();
        s.completed += 1;
        s.steps += steps;
        s.lock_events += trace::len();
        s.lock_blocks += trace::blocks();
        if verdict.nontrivial {
            s.nontrivial += 1;
            let h = crate::model::mix(cfg_key, trace::hash());
            s.hashes.insert(h);
            if s.want_sample && s.sample.is_none() {
                s.sample = Some(json!({
                    "configuration": sc.to_json(),
                    "interleaving_hash": format!("{h:016x}"),
                    "lock_events": trace::len(),
                    "steps": steps,
                    "history": history_json(sc, &hist),
                }));
            }
        }
    }
    if let Some((sig, detail)) = verdict.violation {
        panic!("{ORACLE_PREFIX}{sig} {detail}");
    }
}

fn seek_outcome(r: io::Result<u64>) -> String {
    match r {
        Ok(p) => format!("ok:{p}"),
        Err(e) => format!("err:{:?}", e.kind()),
    }
}

// ------------------------------------------------------------------------------------------
// Oracles (c): static tree + regularity

pub struct Verdict {
    /// at least one reader call overlapped a writer operation
    pub nontrivial: bool,
    pub violation: Option<(&'static str, String)>,
}

struct WOp {
    inv: u64,
    ret: u64,
    states: Vec<(u64, u64)>,
}

pub fn check_history(sc: &Scenario, init: &[(u64, u64)], hist: &[HRec]) -> Verdict {
    // writer operations in order; operation 0 is the initial state
    let mut wops: Vec<WOp> = vec![WOp { inv: 0, ret: 0, states: init.to_vec() }];
    let mut pending_inv: Option<u64> = None;
    for r in hist.iter().filter(|r| r.actor == 0) {
        match &r.ret {
            None => pending_inv = Some(r.seq),
            Some(Payload::Writer { states, .. }) => {
                wops.push(WOp { inv: pending_inv.take().unwrap_or(r.seq), ret: r.seq, states: states.clone() });
            }
            Some(Payload::Reader(_)) => {}
        }
    }

    let model = TreeModel::new(sc);
    let mut nontrivial = false;
    let mut violation: Option<(&'static str, String)> = None;

    for reader in 1..=sc.readers.len() {
        // smallest writer-operation index this reader may still observe
        let mut floor: usize = 0;
        let mut inv_seq: Option<u64> = None;
        for r in hist.iter().filter(|r| r.actor == reader) {
            let res = match &r.ret {
                None => {
                    inv_seq = Some(r.seq);
                    continue;
                }
                Some(Payload::Reader(res)) => res,
                Some(Payload::Writer { .. }) => continue,
            };
            let (c_inv, c_ret) = (inv_seq.take().unwrap_or(r.seq), r.seq);
            if wops.iter().skip(1).any(|w| !(c_ret < w.inv || w.ret < c_inv)) {
                nontrivial = true;
            }
            if violation.is_some() {
                continue;
            }
            let call = &sc.readers[reader - 1][r.idx];
            let expected = model.expect(call);
            // (1) names / types / paths equal the static tree
            if let Some(why) = static_mismatch(&expected, res) {
                violation = Some((
                    "listing-mismatch",
                    format!("reader {reader} call #{} {}: {why}", r.idx, call.text()),
                ));
                continue;
            }
            // (2) stream lengths
            // window of writer operations whose resulting state this call may observe:
            //   lo = last operation that had returned before the call was invoked
            //   hi = last operation that had been invoked before the call returned
            let lo = wops.iter().rposition(|w| w.ret < c_inv).unwrap_or(0);
            let hi = wops.iter().rposition(|w| w.inv < c_ret).unwrap_or(0);
            let seen: Vec<&Seen> = match res {
                Res::Entry(s) => vec![s],
                Res::List(v) => v.iter().collect(),
                _ => vec![],
            };
            for s in seen.into_iter().filter(|s| s.kind == Kind::Stream) {
                match sc.handles.iter().position(|h| *h == s.path) {
                    None => {
                        let want = sc.streams.iter().find(|x| x.0 == s.path).map(|x| x.1);
                        if want != Some(s.len) {
                            violation = Some((
                                "regularity",
                                format!(
                                    "reader {reader} call #{} {}: stream {} is never written but has length {} (created with {:?})",
                                    r.idx, call.text(), s.path, s.len, want
                                ),
                            ));
                            break;
                        }
                    }
                    Some(k) => {
                        let from = lo.max(floor);
                        let pick = (from..=hi)
                            .find(|&j| wops[j].states[k].0 == s.len || wops[j].states[k].1 == s.len);
                        match pick {
                            Some(j) => floor = j,
                            None => {
                                let allowed: Vec<String> = (lo..=hi)
                                    .map(|j| format!("op{}:{}/{}", j, wops[j].states[k].0, wops[j].states[k].1))
                                    .collect();
                                violation = Some((
                                    "regularity",
                                    format!(
                                        "reader {reader} call #{} {} [seq {c_inv}..{c_ret}]: stream {} seen with length {} \
                                         which is not the length after any writer operation in the window op{lo}..op{hi} \
                                         (reader's floor op{floor}); committed/logical lengths there: {}",
                                        r.idx, call.text(), s.path, s.len, allowed.join(" ")
                                    ),
                                ));
                                break;
                            }
                        }
                    }
                }
            }
        }
    }
    Verdict { nontrivial, violation }
}

fn same_identity(a: &Seen, b: &Seen) -> bool {
    a.path == b.path && a.name == b.name && a.kind == b.kind
}

/// Compares everything but lengths.
fn static_mismatch(expected: &Res, got: &Res) -> Option<String> {
    match (expected, got) {
        (Res::Entry(e), Res::Entry(g)) if same_identity(e, g) => None,
        (Res::Bool(e), Res::Bool(g)) if e == g => None,
        (Res::Err(e), Res::Err(g)) if e == g => None,
        (Res::List(e), Res::List(g)) => {
            if e.len() == g.len() && e.iter().zip(g.iter()).all(|(a, b)| same_identity(a, b)) {
                None
            } else {
                let show = |v: &Vec<Seen>| {
                    v.iter().map(|s| format!("{}({})", s.path, s.kind.name())).collect::<Vec<_>>().join(",")
                };
                Some(format!("expected [{}] got [{}]", show(e), show(g)))
            }
        }
        _ => Some(format!("expected {} got {}", res_json(expected), res_json(got))),
    }
}

// ------------------------------------------------------------------------------------------
// JSON rendering of a history

fn seen_json(s: &Seen) -> Value {
    json!({"path": s.path, "name": s.name, "type": s.kind.name(), "len": s.len})
}

pub fn res_json(r: &Res) -> Value {
    match r {
        Res::Entry(s) => json!({"entry": seen_json(s)}),
        Res::Bool(b) => json!(b),
        Res::List(v) => json!({"entries": v.iter().map(seen_json).collect::<Vec<_>>()}),
        Res::Err(k) => json!({"err": k}),
    }
}

pub fn history_json(sc: &Scenario, hist: &[HRec]) -> Value {
    let mut out = Vec::new();
    for r in hist {
        let who = if r.actor == 0 { "writer".to_string() } else { format!("reader{}", r.actor) };
        let what = if r.actor == 0 {
            let t = sc.writer.get(r.idx).map(|o| o.text()).unwrap_or_default();
            if matches!(sc.writer.get(r.idx), Some(Op::Write { .. })) {
                format!("{t}#write{}", r.sub)
            } else {
                t
            }
        } else {
            sc.readers.get(r.actor - 1).and_then(|c| c.get(r.idx)).map(|c| c.text()).unwrap_or_default()
        };
        let mut o = json!({"seq": r.seq, "task": who, "call": what});
        match &r.ret {
            None => o["ev"] = json!("invoke"),
            Some(Payload::Reader(res)) => {
                o["ev"] = json!("return");
                o["result"] = res_json(res);
            }
            Some(Payload::Writer { outcome, states }) => {
                o["ev"] = json!("return");
                o["result"] = json!(outcome);
                o["committed_logical_len"] = json!(states
                    .iter()
                    .enumerate()
                    .map(|(k, s)| json!({"handle": sc.handles[k], "committed": s.0, "logical": s.1}))
                    .collect::<Vec<_>>());
            }
        }
        out.push(o);
    }
    Value::Array(out)
}

