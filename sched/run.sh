#!/bin/sh
# Engine B (schedule exploration, property C14).
#   run.sh quick|thorough [extra cfbsched args, e.g. --seed N]
#   run.sh replay <file> [--verbose]
# Builds offline first (a no-op when nothing changed; the crate under test is compiled in
# place from ${CFB_SRC:-/repo/src}, so a change there triggers a rebuild), then runs cfbsched
# and propagates its exit code: 0 held, 1 VIOLATION, 2 harness error.
set -u
here=$(cd "$(dirname "$0")" && pwd)
cd "$here" || exit 2
[ $# -ge 1 ] || { echo "usage: $0 quick|thorough [--seed N] | replay <file>" >&2; exit 2; }
mode=$1; shift

./sync-manifest.sh || { echo "HARNESS-ERROR property=C14 sync-manifest failed"; exit 2; }
log=/verif/target/sched/build.log
mkdir -p /verif/target/sched
if ! cargo build --release --offline >"$log" 2>&1; then
    cat "$log" >&2
    echo "HARNESS-ERROR property=C14 build failed (see $log)"
    exit 2
fi
bin=/verif/target/sched/release/cfbsched

case "$mode" in
    quick|thorough) exec "$bin" run --tier "$mode" "$@" ;;
    replay)         exec "$bin" replay "$@" ;;
    *) echo "usage: $0 quick|thorough [--seed N] | replay <file>" >&2; exit 2 ;;
esac
