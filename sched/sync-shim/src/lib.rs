//! `cfb_verif_sync` -- the lock seam the `cfb` crate is compiled against under
//! `--cfg cfb_verif_sync` (see the `#[cfg(cfb_verif_sync)] use cfb_verif_sync::{..}` lines in
//! /repo/src/lib.rs, src/internal/stream.rs and src/internal/entry.rs).
//!
//! * `Arc` / `Weak` are std's (shuttle's are std's too: no scheduling points).
//! * `RwLock<T>` is built on `shuttle::sync::{Mutex, Condvar}`, so every acquisition and every
//!   release is a shuttle scheduling point, and it models the policy of std's futex `RwLock` on
//!   Linux: **writer-preferring**.  `read()` is admitted only if no writer holds the lock AND no
//!   writer is waiting; `write()` waits until there are no readers and no writer.  Consequently a
//!   re-entrant `read()` on a thread that already holds a read guard is harmless unless a writer
//!   queued in between -- then it blocks forever, and shuttle reports the deadlock.
//!   (`shuttle::sync::RwLock` is deliberately not used: it panics on any same-thread re-entrant
//!   read whatever the schedule.)
//! * Never poisoned: `read`/`write`/`into_inner` always return `Ok`.
//!
//! Besides the lock, the crate keeps a per-OS-thread *diagnostic* record (module [`trace`]):
//! a rolling hash of the (task, lock event) sequence, and per task the guards it holds and the
//! acquisition it is blocked in, each with its `#[track_caller]` site.  Diagnostics are write-only
//! from the lock's point of view: nothing in the lock reads them back, so they cannot influence
//! behaviour.

use std::cell::UnsafeCell;
use std::fmt;
use std::ops::{Deref, DerefMut};
use std::panic::Location;

pub use std::sync::{Arc, LockResult, PoisonError, Weak};

use shuttle::sync::{Condvar, Mutex};

pub mod trace;

use trace::Ev;

#[derive(Debug, Default)]
struct State {
    /// number of read guards alive (a task holding two counts twice)
    readers: usize,
    /// a write guard is alive
    writer: bool,
    /// tasks inside `write()` that have queued and not yet acquired
    writers_waiting: usize,
    /// tasks parked on `cv` (only used to skip useless notifications)
    parked: usize,
}

/// Writer-preferring reader-writer lock on shuttle primitives.
pub struct RwLock<T> {
    state: Mutex<State>,
    cv: Condvar,
    serial: u32,
    data: UnsafeCell<T>,
}

// Like a real lock: the protected data is handed out under the lock discipline only.
unsafe impl<T: Send> Send for RwLock<T> {}
unsafe impl<T: Send + Sync> Sync for RwLock<T> {}

impl<T> RwLock<T> {
    pub fn new(value: T) -> RwLock<T> {
        RwLock {
            state: Mutex::new(State::default()),
            cv: Condvar::new(),
            serial: trace::next_lock_serial(),
            data: UnsafeCell::new(value),
        }
    }

    /// Shared acquisition.  Admitted only when no writer holds the lock and no writer waits.
    #[track_caller]
    pub fn read(&self) -> LockResult<RwLockReadGuard<'_, T>> {
        let site = Location::caller();
        trace::event(self.serial, Ev::ReadReq);
        let mut st = self.state.lock().unwrap_or_else(|e| e.into_inner());
        while st.writer || st.writers_waiting > 0 {
            trace::event(self.serial, Ev::ReadBlock);
            trace::set_waiting(Some((false, site)));
            st.parked += 1;
            st = self.cv.wait(st).unwrap_or_else(|e| e.into_inner());
            st.parked -= 1;
        }
        trace::set_waiting(None);
        st.readers += 1;
        trace::event(self.serial, Ev::ReadAcq);
        let token = trace::push_hold(false, site);
        drop(st);
        Ok(RwLockReadGuard { lock: self, token })
    }

    /// Exclusive acquisition.  Queues (which shuts out new readers), then waits until there are
    /// no readers and no writer.
    #[track_caller]
    pub fn write(&self) -> LockResult<RwLockWriteGuard<'_, T>> {
        let site = Location::caller();
        trace::event(self.serial, Ev::WriteReq);
        let mut st = self.state.lock().unwrap_or_else(|e| e.into_inner());
        st.writers_waiting += 1;
        while st.writer || st.readers > 0 {
            trace::event(self.serial, Ev::WriteBlock);
            trace::set_waiting(Some((true, site)));
            st.parked += 1;
            st = self.cv.wait(st).unwrap_or_else(|e| e.into_inner());
            st.parked -= 1;
        }
        trace::set_waiting(None);
        st.writers_waiting -= 1;
        st.writer = true;
        trace::event(self.serial, Ev::WriteAcq);
        let token = trace::push_hold(true, site);
        drop(st);
        Ok(RwLockWriteGuard { lock: self, token })
    }

    pub fn into_inner(self) -> LockResult<T> {
        Ok(self.data.into_inner())
    }

    pub fn get_mut(&mut self) -> LockResult<&mut T> {
        Ok(self.data.get_mut())
    }

    pub fn is_poisoned(&self) -> bool {
        false
    }

    fn release(&self, write: bool, token: u64) {
        let mut st = self.state.lock().unwrap_or_else(|e| e.into_inner());
        if write {
            debug_assert!(st.writer);
            st.writer = false;
            trace::event(self.serial, Ev::WriteRel);
        } else {
            debug_assert!(st.readers > 0);
            st.readers -= 1;
            trace::event(self.serial, Ev::ReadRel);
        }
        trace::pop_hold(token);
        // Wake everybody parked when the lock may have become available to someone; each
        // waiter re-checks its own admission condition (readers still yield to queued writers).
        let wake = st.parked > 0 && !st.writer && (write || st.readers == 0);
        drop(st);
        if wake {
            self.cv.notify_all();
        }
    }
}

impl<T: Default> Default for RwLock<T> {
    fn default() -> Self {
        RwLock::new(T::default())
    }
}

impl<T> fmt::Debug for RwLock<T> {
    fn fmt(&self, f: &mut fmt::Formatter<'_>) -> fmt::Result {
        f.debug_struct("RwLock").field("serial", &self.serial).finish_non_exhaustive()
    }
}

pub struct RwLockReadGuard<'a, T> {
    lock: &'a RwLock<T>,
    token: u64,
}

pub struct RwLockWriteGuard<'a, T> {
    lock: &'a RwLock<T>,
    token: u64,
}

impl<T> Deref for RwLockReadGuard<'_, T> {
    type Target = T;
    fn deref(&self) -> &T {
        // SAFETY: a read guard exists => no write guard exists (lock discipline above).
        unsafe { &*self.lock.data.get() }
    }
}

impl<T> Deref for RwLockWriteGuard<'_, T> {
    type Target = T;
    fn deref(&self) -> &T {
        // SAFETY: the write guard is exclusive.
        unsafe { &*self.lock.data.get() }
    }
}

impl<T> DerefMut for RwLockWriteGuard<'_, T> {
    fn deref_mut(&mut self) -> &mut T {
        // SAFETY: the write guard is exclusive.
        unsafe { &mut *self.lock.data.get() }
    }
}

impl<T> Drop for RwLockReadGuard<'_, T> {
    fn drop(&mut self) {
        self.lock.release(false, self.token);
    }
}

impl<T> Drop for RwLockWriteGuard<'_, T> {
    fn drop(&mut self) {
        self.lock.release(true, self.token);
    }
}

impl<T: fmt::Debug> fmt::Debug for RwLockReadGuard<'_, T> {
    fn fmt(&self, f: &mut fmt::Formatter<'_>) -> fmt::Result {
        (**self).fmt(f)
    }
}

impl<T: fmt::Debug> fmt::Debug for RwLockWriteGuard<'_, T> {
    fn fmt(&self, f: &mut fmt::Formatter<'_>) -> fmt::Result {
        (**self).fmt(f)
    }
}

#[cfg(test)]
mod tests {
    use super::*;
    use shuttle::scheduler::RandomScheduler;
    use shuttle::{Config, FailurePersistence, Runner};
    use std::panic::{catch_unwind, AssertUnwindSafe};

    fn config() -> Config {
        let mut c = Config::new();
        c.failure_persistence = FailurePersistence::None;
        c
    }

    fn explore<F: Fn() + Send + Sync + 'static>(seed: u64, iterations: usize, f: F) -> Result<usize, String> {
        catch_unwind(AssertUnwindSafe(|| Runner::new(RandomScheduler::new_from_seed(seed, iterations), config()).run(f)))
            .map_err(|p| {
                p.downcast_ref::<String>().cloned().or_else(|| p.downcast_ref::<&str>().map(|s| s.to_string())).unwrap_or_default()
            })
    }

    /// Mutual exclusion: a writer never coexists with a reader or another writer.
    #[test]
    fn exclusion_holds_under_all_sampled_schedules() {
        let r = explore(7, 3000, || {
            let lock = Arc::new(RwLock::new((0u32, 0u32))); // (readers inside, writers inside)
            let mut hs = Vec::new();
            for i in 0..3 {
                let lock = Arc::clone(&lock);
                hs.push(shuttle::thread::spawn(move || {
                    for _ in 0..2 {
                        if i == 0 {
                            let mut g = lock.write().unwrap();
                            assert_eq!(*g, (0, 0));
                            g.1 += 1;
                            shuttle::thread::sleep(std::time::Duration::ZERO);
                            g.1 -= 1;
                        } else {
                            let g = lock.read().unwrap();
                            assert_eq!(g.1, 0, "reader admitted while a writer is inside");
                        }
                    }
                }));
            }
            for h in hs {
                h.join().unwrap();
            }
            assert_eq!(Arc::try_unwrap(lock).ok().unwrap().into_inner().unwrap(), (0, 0));
        });
        assert_eq!(r, Ok(3000));
    }

    /// A re-entrant read is harmless when no writer can queue in between.
    #[test]
    fn reentrant_read_without_writer_is_fine() {
        let r = explore(11, 2000, || {
            let lock = Arc::new(RwLock::new(5u32));
            let mut hs = Vec::new();
            for _ in 0..3 {
                let lock = Arc::clone(&lock);
                hs.push(shuttle::thread::spawn(move || {
                    let a = lock.read().unwrap();
                    let b = lock.read().unwrap();
                    assert_eq!(*a + *b, 10);
                }));
            }
            for h in hs {
                h.join().unwrap();
            }
        });
        assert_eq!(r, Ok(2000));
    }

    /// ... and deadlocks (writer preference) when a writer queues between the two reads.
    #[test]
    fn reentrant_read_with_queued_writer_deadlocks() {
        let r = explore(13, 5000, || {
            let lock = Arc::new(RwLock::new(5u32));
            let l2 = Arc::clone(&lock);
            let h = shuttle::thread::spawn(move || {
                let a = l2.read().unwrap();
                let b = l2.read().unwrap();
                assert_eq!(*a, *b);
            });
            *lock.write().unwrap() += 1;
            h.join().unwrap();
        });
        let msg = r.expect_err("some schedule must deadlock");
        assert!(msg.starts_with("deadlock!"), "unexpected failure: {msg}");
        let diag = trace::snapshot();
        let culprit = diag.iter().find(|t| !t.holds.is_empty() && t.waiting.is_some()).expect("a task blocked while holding");
        assert!(!culprit.waiting.as_ref().unwrap().write);
        assert!(culprit.waiting.as_ref().unwrap().site().contains("src/lib.rs:"));
    }

    /// Sequential (non-nested) reads never deadlock against writers.
    #[test]
    fn sequential_reads_with_writers_never_deadlock() {
        let r = explore(17, 5000, || {
            let lock = Arc::new(RwLock::new(0u32));
            let mut hs = Vec::new();
            for i in 0..3 {
                let lock = Arc::clone(&lock);
                hs.push(shuttle::thread::spawn(move || {
                    for _ in 0..3 {
                        if i == 0 {
                            *lock.write().unwrap() += 1;
                        } else {
                            let _ = *lock.read().unwrap();
                        }
                    }
                }));
            }
            *lock.write().unwrap() += 1;
            for h in hs {
                h.join().unwrap();
            }
            assert_eq!(*lock.read().unwrap(), 4);
        });
        assert_eq!(r, Ok(5000));
    }
}
