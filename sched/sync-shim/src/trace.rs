//! Diagnostics collected by the lock shim.  One record per OS thread (a shuttle execution runs
//! all its tasks as coroutines on the OS thread that called `Runner::run`), reset by the harness
//! at the start of every execution with [`reset`].
//!
//! Nothing here is read by the lock itself.

use std::cell::RefCell;
use std::panic::Location;

/// Lock-level events.  The interleaving hash is taken over the sequence of
/// `(task id, lock serial, event)` triples in the order they happen.
#[derive(Clone, Copy, Debug, PartialEq, Eq)]
#[repr(u8)]
pub enum Ev {
    ReadReq = 1,
    ReadBlock = 2,
    ReadAcq = 3,
    ReadRel = 4,
    WriteReq = 5,
    WriteBlock = 6,
    WriteAcq = 7,
    WriteRel = 8,
}

impl Ev {
    pub fn name(self) -> &'static str {
        match self {
            Ev::ReadReq => "read-req",
            Ev::ReadBlock => "read-block",
            Ev::ReadAcq => "read-acq",
            Ev::ReadRel => "read-rel",
            Ev::WriteReq => "write-req",
            Ev::WriteBlock => "write-block",
            Ev::WriteAcq => "write-acq",
            Ev::WriteRel => "write-rel",
        }
    }
}

/// A guard held, or an acquisition a task is blocked in.
#[derive(Clone, Debug)]
pub struct Hold {
    pub write: bool,
    pub file: &'static str,
    pub line: u32,
    token: u64,
}

impl Hold {
    /// `file:line`, with the file cut down to the part from the last `/src/` on, so that the
    /// string does not depend on where the sources live (`/repo/src/..` or a scratch copy).
    pub fn site(&self) -> String {
        format!("{}:{}", short_file(self.file), self.line)
    }
}

pub fn short_file(file: &str) -> &str {
    match file.rfind("/src/") {
        Some(i) => &file[i + 1..],
        None => file,
    }
}

#[derive(Clone, Debug, Default)]
pub struct TaskDiag {
    pub task: usize,
    pub holds: Vec<Hold>,
    pub waiting: Option<Hold>,
    /// deepest simultaneous hold count seen for this task in this execution
    pub max_depth: usize,
}

#[derive(Default)]
struct Rec {
    hash: u64,
    len: u64,
    blocks: u64,
    next_serial: u32,
    next_token: u64,
    tasks: Vec<TaskDiag>,
    keep_events: bool,
    events: Vec<(usize, u32, Ev)>,
}

const FNV_OFFSET: u64 = 0xcbf2_9ce4_8422_2325;
const FNV_PRIME: u64 = 0x0000_0100_0000_01b3;

thread_local! {
    static REC: RefCell<Rec> = RefCell::new(Rec { hash: FNV_OFFSET, ..Rec::default() });
}

fn me() -> usize {
    match shuttle::current::get_current_task() {
        Some(t) => usize::from(t),
        None => usize::MAX,
    }
}

fn with_task<R>(rec: &mut Rec, task: usize, f: impl FnOnce(&mut TaskDiag) -> R) -> R {
    let idx = match rec.tasks.iter().position(|t| t.task == task) {
        Some(i) => i,
        None => {
            rec.tasks.push(TaskDiag { task, ..TaskDiag::default() });
            rec.tasks.len() - 1
        }
    };
    f(&mut rec.tasks[idx])
}

/// Forget everything; call at the start of each execution.
pub fn reset() {
    REC.with(|r| {
        let mut r = r.borrow_mut();
        let keep = r.keep_events;
        *r = Rec { hash: FNV_OFFSET, keep_events: keep, ..Rec::default() };
    });
}

/// Keep (or stop keeping) the full event list in addition to the hash.
pub fn keep_events(on: bool) {
    REC.with(|r| r.borrow_mut().keep_events = on);
}

/// Hash of the `(task, lock, event)` sequence since the last [`reset`].
pub fn hash() -> u64 {
    REC.with(|r| r.borrow().hash)
}

/// Number of lock events since the last [`reset`].
pub fn len() -> u64 {
    REC.with(|r| r.borrow().len)
}

/// Number of times an acquisition had to park since the last [`reset`].
pub fn blocks() -> u64 {
    REC.with(|r| r.borrow().blocks)
}

/// The event list (empty unless [`keep_events`] is on).
pub fn events() -> Vec<(usize, u32, Ev)> {
    REC.with(|r| r.borrow().events.clone())
}

/// Per-task holds / blocked acquisition, as of now.
pub fn snapshot() -> Vec<TaskDiag> {
    REC.with(|r| {
        let mut v = r.borrow().tasks.clone();
        v.sort_by_key(|t| t.task);
        v
    })
}

pub(crate) fn next_lock_serial() -> u32 {
    REC.with(|r| {
        let mut r = r.borrow_mut();
        r.next_serial += 1;
        r.next_serial
    })
}

pub(crate) fn event(lock: u32, ev: Ev) {
    let task = me();
    REC.with(|r| {
        let mut r = r.borrow_mut();
        let mut h = r.hash;
        for b in (task as u32)
            .to_le_bytes()
            .iter()
            .chain(lock.to_le_bytes().iter())
            .chain(std::iter::once(&(ev as u8)))
        {
            h ^= u64::from(*b);
            h = h.wrapping_mul(FNV_PRIME);
        }
        r.hash = h;
        r.len += 1;
        if matches!(ev, Ev::ReadBlock | Ev::WriteBlock) {
            r.blocks += 1;
        }
        if r.keep_events {
            r.events.push((task, lock, ev));
        }
    });
}

pub(crate) fn set_waiting(w: Option<(bool, &'static Location<'static>)>) {
    let task = me();
    REC.with(|r| {
        let mut r = r.borrow_mut();
        with_task(&mut r, task, |t| {
            t.waiting = w.map(|(write, loc)| Hold { write, file: loc.file(), line: loc.line(), token: 0 });
        });
    });
}

pub(crate) fn push_hold(write: bool, loc: &'static Location<'static>) -> u64 {
    let task = me();
    REC.with(|r| {
        let mut r = r.borrow_mut();
        r.next_token += 1;
        let token = r.next_token;
        with_task(&mut r, task, |t| {
            t.holds.push(Hold { write, file: loc.file(), line: loc.line(), token });
            t.max_depth = t.max_depth.max(t.holds.len());
        });
        token
    })
}

pub(crate) fn pop_hold(token: u64) {
    REC.with(|r| {
        let mut r = r.borrow_mut();
        for t in r.tasks.iter_mut() {
            if let Some(i) = t.holds.iter().position(|h| h.token == token) {
                t.holds.remove(i);
                return;
            }
        }
    });
}
