// Shadow manifest build script: turns on the verification seams of the real cfb sources.
//   cfb_verif       -> cfb::verif_hooks (simulated clock)
//   cfb_verif_sync  -> Arc/RwLock/Weak come from the external crate `cfb_verif_sync`
fn main() {
    println!("cargo:rerun-if-changed=build.rs");
    println!("cargo:rustc-check-cfg=cfg(cfb_verif)");
    println!("cargo:rustc-check-cfg=cfg(cfb_verif_sync)");
    println!("cargo:rustc-cfg=cfb_verif");
    println!("cargo:rustc-cfg=cfb_verif_sync");
}
