use cfbsim::supervisor;

#[global_allocator]
static ALLOC: supervisor::alloc_count::Counting = supervisor::alloc_count::Counting;

fn main() {
    let args: Vec<String> = std::env::args().collect();
    let code = match args.get(1).map(|s| s.as_str()) {
        Some("run") => supervisor::run_main(&args[2..]),
        Some("worker") => supervisor::worker_main(&args[2..]),
        Some("exec-case") => supervisor::exec_case_main(),
        Some("replay") => match args.get(2) {
            Some(p) => supervisor::replay_main(p),
            None => 2,
        },
        Some("gen-case") => {
            // debugging aid: print the explicit case for (check, index)
            let check = args.get(2).cloned().unwrap_or_default();
            let idx: u64 = args.get(3).and_then(|s| s.parse().ok()).unwrap_or(0);
            let seed: u64 = std::env::var("VERIF_SEED").ok().and_then(|s| s.parse().ok()).unwrap_or(1);
            let tier = if args.get(4).map(|s| s.as_str()) == Some("thorough") { cfbsim::checks::Tier::Thorough } else { cfbsim::checks::Tier::Quick };
            match cfbsim::checks::get(&check) {
                Some(d) => {
                    println!("{}", serde_json::to_string_pretty(&(d.gen)(seed, idx, tier).to_json()).unwrap());
                    0
                }
                None => 2,
            }
        }
        _ => {
            eprintln!("usage: cfbsim run --check Cxx [--tier quick|thorough] [--seed N] [-j W] [--cases N] | replay <file> | exec-case | gen-case Cxx idx");
            2
        }
    };
    std::process::exit(code);
}
