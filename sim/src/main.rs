fn main() {}
