//! SplitMix64 PRNG and FNV-1a hasher.  Nothing here reads a clock or the OS.

#[derive(Clone, Debug)]
pub struct Rng(u64);

pub fn mix(mut z: u64) -> u64 {
    z = z.wrapping_add(0x9e3779b97f4a7c15);
    z = (z ^ (z >> 30)).wrapping_mul(0xbf58476d1ce4e5b9);
    z = (z ^ (z >> 27)).wrapping_mul(0x94d049bb133111eb);
    z ^ (z >> 31)
}

impl Rng {
    pub fn new(seed: u64) -> Rng {
        Rng(seed)
    }
    /// Per-case stream: a function of (seed, check id, case index) only.
    pub fn for_case(seed: u64, check: &str, case: u64) -> Rng {
        let mut h = Fnv::new();
        h.write(check.as_bytes());
        let c = h.finish();
        Rng(mix(mix(seed ^ 0x5eed_5eed_5eed_5eed) ^ mix(c) ^ mix(case.wrapping_mul(0x2545f4914f6cdd1d))))
    }
    pub fn next_u64(&mut self) -> u64 {
        self.0 = self.0.wrapping_add(0x9e3779b97f4a7c15);
        let mut z = self.0;
        z = (z ^ (z >> 30)).wrapping_mul(0xbf58476d1ce4e5b9);
        z = (z ^ (z >> 27)).wrapping_mul(0x94d049bb133111eb);
        z ^ (z >> 31)
    }
    /// Uniform in 0..n (n > 0).
    pub fn below(&mut self, n: u64) -> u64 {
        debug_assert!(n > 0);
        // multiply-shift; bias is irrelevant here
        ((self.next_u64() as u128 * n as u128) >> 64) as u64
    }
    pub fn range(&mut self, lo: u64, hi_incl: u64) -> u64 {
        lo + self.below(hi_incl - lo + 1)
    }
    pub fn usize_below(&mut self, n: usize) -> usize {
        self.below(n as u64) as usize
    }
    pub fn chance(&mut self, num: u64, den: u64) -> bool {
        self.below(den) < num
    }
    pub fn pick<'a, T>(&mut self, xs: &'a [T]) -> &'a T {
        &xs[self.usize_below(xs.len())]
    }
    pub fn shuffle<T>(&mut self, xs: &mut [T]) {
        for i in (1..xs.len()).rev() {
            let j = self.usize_below(i + 1);
            xs.swap(i, j);
        }
    }
    pub fn fork(&mut self) -> Rng {
        Rng(mix(self.next_u64()))
    }
}

#[derive(Clone)]
pub struct Fnv(u64);

impl Fnv {
    pub fn new() -> Fnv {
        Fnv(0xcbf29ce484222325)
    }
    pub fn write(&mut self, data: &[u8]) {
        for &b in data {
            self.0 ^= b as u64;
            self.0 = self.0.wrapping_mul(0x100000001b3);
        }
    }
    pub fn write_u64(&mut self, v: u64) {
        self.write(&v.to_le_bytes());
    }
    pub fn finish(&self) -> u64 {
        self.0
    }
}

pub fn fnv(data: &[u8]) -> u64 {
    let mut h = Fnv::new();
    h.write(data);
    h.finish()
}

/// Position-dependent byte pattern keyed by a nonce: every byte of every write
/// is attributable.  Never produces 0 so that "must be zero" is distinguishable.
pub fn pattern_byte(nonce: u32, i: u64) -> u8 {
    let v = mix((nonce as u64) << 32 ^ i) as u8;
    if v == 0 {
        0xA5
    } else {
        v
    }
}

pub fn pattern(nonce: u32, start: u64, len: usize) -> Vec<u8> {
    (0..len as u64).map(|i| pattern_byte(nonce, start + i)).collect()
}
