//! The reference model: a tree of storages whose leaves are byte vectors, plus
//! open handles.  It *follows* the library: `step(op, got)` checks the result
//! the library returned against what the model allows (a relation where the
//! documented behaviour is a relation) and then advances.
//!
//! Places where the documented behaviour is silent are collected in
//! `AMBIGUOUS` and accepted either way.

use crate::dump::{Dump, Meta, Node};
use crate::names::{cfb_cmp, cfb_eq, name_valid};
use crate::ops::{EntryInfo, ErrKind, Op, Res, Whence, T};
use std::cmp::Ordering;

pub const AMBIGUOUS: &[&str] = &[
    "error kind when the parent of a new object is a stream: NotFound or InvalidInput (success is not acceptable)",
    "remove_storage_all / walk_storage on a stream path: either InvalidInput, or the stream treated as a one-node subtree",
    "state bits of a stream after create_stream overwrote it: kept or reset (observed value is adopted)",
    "entry().path() spelling when the lookup used another letter case: compared case-insensitively",
    "read()/write() counts: any 1 <= n <= min(requested, available); 0 only at end or for an empty buffer",
    "fill_buf(): any non-empty prefix of the remaining bytes; empty only at end",
];

#[derive(Clone, Debug)]
pub struct MNode {
    pub id: u64,
    pub name: String,
    pub is_stream: bool,
    pub meta: Meta,
    pub data: Vec<u8>,
    /// a handle holds bytes the library may or may not have written back yet
    pub dirty: bool,
    pub children: Vec<MNode>,
}

#[derive(Clone, Debug)]
pub struct MHandle {
    pub node: u64,
    pub pos: u64,
    /// length of the slice last returned by fill_buf (bound for consume)
    pub last_fill: usize,
}

#[derive(Clone, Debug)]
pub struct Model {
    pub root: MNode,
    pub next_id: u64,
    pub handles: Vec<Option<MHandle>>,
    pub clock: T,
    pub version: u16,
    /// names with disputed case mapping are in play: listing ORDER is not judged
    pub relaxed_order: bool,
}

#[derive(Debug, Clone)]
pub struct Mismatch {
    pub rule: String,
    pub msg: String,
}

fn mm<T>(rule: &str, msg: String) -> Result<T, Mismatch> {
    Err(Mismatch { rule: rule.to_string(), msg })
}

/// Independent path normaliser (Unix path syntax): Err = escapes the root.
pub fn parse_path(p: &str) -> Result<Vec<String>, ()> {
    let mut names: Vec<String> = Vec::new();
    for comp in p.split('/') {
        match comp {
            "" | "." => {}
            ".." => {
                if names.pop().is_none() {
                    return Err(());
                }
            }
            c => names.push(c.to_string()),
        }
    }
    Ok(names)
}

/// Do two normalised paths name the same object (component-wise, case-insensitively)?
pub fn same_path_ci(a: &str, b: &str) -> bool {
    match (parse_path(a), parse_path(b)) {
        (Ok(x), Ok(y)) => x.len() == y.len() && x.iter().zip(y.iter()).all(|(p, q)| cfb_eq(p, q)),
        _ => false,
    }
}

pub fn join(names: &[String]) -> String {
    if names.is_empty() {
        "/".to_string()
    } else {
        let mut s = String::new();
        for n in names {
            s.push('/');
            s.push_str(n);
        }
        s
    }
}

impl MNode {
    fn find_child(&self, name: &str) -> Option<usize> {
        self.children.iter().position(|c| cfb_eq(&c.name, name))
    }
    fn to_node(&self) -> Node {
        Node {
            name: self.name.clone(),
            is_stream: self.is_stream,
            meta: self.meta.clone(),
            data: self.data.clone(),
            children: self.children.iter().map(|c| c.to_node()).collect(),
        }
    }
    fn insert_sorted(&mut self, n: MNode) {
        let pos = self
            .children
            .iter()
            .position(|c| cfb_cmp(&n.name, &c.name) == Ordering::Less)
            .unwrap_or(self.children.len());
        self.children.insert(pos, n);
    }
    fn any_dirty(&self) -> bool {
        self.dirty || self.children.iter().any(|c| c.any_dirty())
    }
}

impl Model {
    pub fn new(version: u16) -> Model {
        Model {
            root: MNode {
                id: 0,
                name: "Root Entry".to_string(),
                is_stream: false,
                meta: Meta::default(),
                data: vec![],
                dirty: false,
                children: vec![],
            },
            next_id: 1,
            handles: vec![None, None, None, None],
            clock: T { secs: 1_600_000_000, nanos: 0 },
            version,
            relaxed_order: false,
        }
    }

    /// Build a model from existing logical content (e.g. a foreign image).
    pub fn from_dump(d: &Dump, version: u16) -> Model {
        let mut m = Model::new(version);
        fn conv(n: &Node, next: &mut u64) -> MNode {
            let id = *next;
            *next += 1;
            let mut out = MNode {
                id,
                name: n.name.clone(),
                is_stream: n.is_stream,
                meta: n.meta.clone(),
                data: n.data.clone(),
                dirty: false,
                children: vec![],
            };
            for c in &n.children {
                let cn = conv(c, next);
                out.insert_sorted(cn);
            }
            out
        }
        let mut next = 0u64;
        m.root = conv(&d.root, &mut next);
        m.root.name = "Root Entry".to_string();
        m.next_id = next;
        m
    }

    pub fn dump(&self) -> Dump {
        Dump { root: self.root.to_node() }
    }

    pub fn any_dirty(&self) -> bool {
        self.root.any_dirty()
    }

    /// Paths of streams with possibly-unwritten handle data.
    pub fn dirty_paths(&self) -> Vec<String> {
        fn go(n: &MNode, path: &mut Vec<String>, out: &mut Vec<String>) {
            for c in &n.children {
                path.push(c.name.clone());
                if c.dirty {
                    out.push(join(path));
                }
                go(c, path, out);
                path.pop();
            }
        }
        let mut out = vec![];
        go(&self.root, &mut vec![], &mut out);
        out
    }

    pub fn lookup(&self, names: &[String]) -> Option<&MNode> {
        let mut cur = &self.root;
        for n in names {
            if cur.is_stream {
                return None;
            }
            let i = cur.find_child(n)?;
            cur = &cur.children[i];
        }
        Some(cur)
    }

    fn lookup_mut(&mut self, names: &[String]) -> Option<&mut MNode> {
        let mut cur = &mut self.root;
        for n in names {
            if cur.is_stream {
                return None;
            }
            let i = cur.find_child(n)?;
            cur = &mut cur.children[i];
        }
        Some(cur)
    }

    fn by_id(&self, id: u64) -> Option<&MNode> {
        fn go(n: &MNode, id: u64) -> Option<&MNode> {
            if n.id == id {
                return Some(n);
            }
            n.children.iter().find_map(|c| go(c, id))
        }
        go(&self.root, id)
    }

    fn by_id_mut(&mut self, id: u64) -> Option<&mut MNode> {
        fn go(n: &mut MNode, id: u64) -> Option<&mut MNode> {
            if n.id == id {
                return Some(n);
            }
            n.children.iter_mut().find_map(|c| go(c, id))
        }
        go(&mut self.root, id)
    }

    /// All objects as (path names, is_stream), pre-order, root first.
    pub fn all_paths(&self) -> Vec<(Vec<String>, bool)> {
        fn go(n: &MNode, path: &mut Vec<String>, out: &mut Vec<(Vec<String>, bool)>) {
            out.push((path.clone(), n.is_stream));
            for c in &n.children {
                path.push(c.name.clone());
                go(c, path, out);
                path.pop();
            }
        }
        let mut out = vec![];
        go(&self.root, &mut vec![], &mut out);
        out
    }

    pub fn handle_node(&self, h: usize) -> Option<&MNode> {
        self.handles.get(h)?.as_ref().and_then(|mh| self.by_id(mh.node))
    }

    /// Is some open handle bound to the stream with this id?
    pub fn has_handle_on(&self, id: u64) -> bool {
        self.handles.iter().flatten().any(|h| h.node == id)
    }

    fn info(&self, n: &MNode, names: &[String]) -> EntryInfo {
        EntryInfo {
            name: n.name.clone(),
            path: join(names),
            is_stream: n.is_stream,
            is_storage: !n.is_stream,
            is_root: names.is_empty(),
            len: if n.is_stream { n.data.len() as u64 } else { 0 },
            meta: n.meta.clone(),
        }
    }

    fn listing(&self, names: &[String]) -> Vec<EntryInfo> {
        let n = self.lookup(names).unwrap();
        n.children
            .iter()
            .map(|c| {
                let mut p = names.to_vec();
                p.push(c.name.clone());
                self.info(c, &p)
            })
            .collect()
    }

    fn walk_from(&self, names: &[String]) -> Vec<EntryInfo> {
        fn go(m: &Model, n: &MNode, path: &mut Vec<String>, out: &mut Vec<EntryInfo>) {
            out.push(m.info(n, path));
            for c in &n.children {
                path.push(c.name.clone());
                go(m, c, path, out);
                path.pop();
            }
        }
        // the walk reports stored names along the way
        let mut stored: Vec<String> = vec![];
        let mut cur = &self.root;
        for n in names {
            let i = cur.find_child(n).unwrap();
            cur = &cur.children[i];
            stored.push(cur.name.clone());
        }
        let mut out = vec![];
        go(self, cur, &mut stored, &mut out);
        out
    }

    fn remove_at(&mut self, names: &[String]) {
        let (last, parent) = names.split_last().unwrap();
        let p = self.lookup_mut(parent).unwrap();
        let i = p.find_child(last).unwrap();
        let removed = p.children.remove(i);
        // handles on removed streams die
        fn ids(n: &MNode, out: &mut Vec<u64>) {
            out.push(n.id);
            for c in &n.children {
                ids(c, out);
            }
        }
        let mut gone = vec![];
        ids(&removed, &mut gone);
        for h in self.handles.iter_mut() {
            if let Some(mh) = h {
                if gone.contains(&mh.node) {
                    *h = None;
                }
            }
        }
    }

    // ---- comparison helpers -------------------------------------------------

    fn expect_err(got: &Res, allowed: &[ErrKind], what: &str) -> Result<(), Mismatch> {
        match got {
            Res::Err(k, _) if allowed.contains(k) => Ok(()),
            _ => mm("model.result", format!("{}: expected Err{:?}, library returned {}", what, allowed, got.brief())),
        }
    }

    fn expect_unit(got: &Res, what: &str) -> Result<(), Mismatch> {
        match got {
            Res::Unit => Ok(()),
            _ => mm("model.result", format!("{}: expected Ok(()), library returned {}", what, got.brief())),
        }
    }

    fn cmp_entry(got: &EntryInfo, want: &EntryInfo, path_ci: bool, skip_len: bool, what: &str) -> Result<(), Mismatch> {
        let mut g = got.clone();
        let mut w = want.clone();
        if path_ci {
            let gp = parse_path(&g.path).unwrap_or_default();
            let wp = parse_path(&w.path).unwrap_or_default();
            if gp.len() == wp.len() && gp.iter().zip(wp.iter()).all(|(a, b)| cfb_eq(a, b)) {
                g.path = w.path.clone();
            }
        }
        // the root's len() is the size of the mini-stream container: an
        // implementation detail, not judged
        if skip_len || w.is_root {
            g.len = 0;
            w.len = 0;
        }
        if g != w {
            return mm("model.entry", format!("{}: entry differs: library {:?} vs model {:?}", what, got, want));
        }
        Ok(())
    }

    fn cmp_listing(&self, got: &Res, want: &[EntryInfo], what: &str) -> Result<(), Mismatch> {
        let l = match got {
            Res::Listing(l) => l,
            _ => return mm("model.result", format!("{}: expected a listing, library returned {}", what, got.brief())),
        };
        let gn: Vec<&str> = l.iter().map(|e| e.path.as_str()).collect();
        let wn: Vec<&str> = want.iter().map(|e| e.path.as_str()).collect();
        let (l, want) = if self.relaxed_order {
            let mut a = l.clone();
            let mut b = want.to_vec();
            a.sort_by(|x, y| x.path.cmp(&y.path));
            b.sort_by(|x, y| x.path.cmp(&y.path));
            if a.iter().map(|e| &e.path).ne(b.iter().map(|e| &e.path)) {
                return mm("model.listing-set", format!("{}: listing paths {:?} vs model {:?}", what, gn, wn));
            }
            (a, b)
        } else {
            if gn != wn {
                return mm("model.listing-order", format!("{}: listing paths {:?} vs model {:?}", what, gn, wn));
            }
            (l.clone(), want.to_vec())
        };
        let dirty = self.dirty_paths();
        for (g, w) in l.iter().zip(want.iter()) {
            let skip_len = dirty.iter().any(|d| same_path_ci(d, &w.path));
            Model::cmp_entry(g, w, false, skip_len, what)?;
        }
        Ok(())
    }

    // ---- the step function --------------------------------------------------

    /// Check `got` (what the library returned for `op`) and advance.
    pub fn step(&mut self, op: &Op, got: &Res) -> Result<(), Mismatch> {
        if let Res::Panic(m) = got {
            return mm("panic", format!("{} panicked: {}", op.kind(), m));
        }
        if let Res::Hang = got {
            return mm("hang", format!("{} exceeded its seam-step budget", op.kind()));
        }
        if let Res::Skipped = got {
            return Ok(());
        }
        let what = format!("{}", op.to_json());
        match op {
            Op::SetClock(t) => {
                self.clock = *t;
                Ok(())
            }
            Op::Version => match got {
                Res::Num(v) if *v == self.version as u64 => Ok(()),
                _ => mm("model.result", format!("version: expected {}, got {}", self.version, got.brief())),
            },
            Op::FlushFile => Model::expect_unit(got, &what),
            Op::Reopen { .. } => match got {
                Res::Unit => {
                    for h in self.handles.iter_mut() {
                        *h = None;
                    }
                    fn clean(n: &mut MNode) {
                        n.dirty = false;
                        for c in n.children.iter_mut() {
                            clean(c);
                        }
                    }
                    clean(&mut self.root);
                    Ok(())
                }
                _ => mm("reopen", format!("{}: reopening the image failed: {}", what, got.brief())),
            },
            Op::CreateStorage(p) => self.create(p, false, false, got, &what),
            Op::CreateStream(p) => self.create(p, true, true, got, &what),
            Op::CreateNewStream(p) => self.create(p, true, false, got, &what),
            Op::CreateStorageAll(p) => {
                let names = match parse_path(p) {
                    Ok(n) => n,
                    Err(()) => return Model::expect_err(got, &[ErrKind::InvalidInput], &what),
                };
                // plan: walk the prefix
                let mut cur = &self.root;
                let mut existing = 0usize;
                for n in &names {
                    if cur.is_stream {
                        break;
                    }
                    match cur.find_child(n) {
                        Some(i) => {
                            cur = &cur.children[i];
                            existing += 1;
                        }
                        None => break,
                    }
                }
                if existing > 0 || names.is_empty() {
                    // something on the way may be a stream
                    let mut c = &self.root;
                    for n in names.iter().take(existing) {
                        let i = c.find_child(n).unwrap();
                        c = &c.children[i];
                        if c.is_stream {
                            // a stream in the way: refused
                            return Model::expect_err(got, &[ErrKind::AlreadyExists, ErrKind::NotFound, ErrKind::InvalidInput], &what);
                        }
                    }
                }
                if names[existing..].iter().any(|n| !name_valid(n)) {
                    return Model::expect_err(got, &[ErrKind::InvalidInput], &what);
                }
                Model::expect_unit(got, &what)?;
                for i in existing..names.len() {
                    let id = self.next_id;
                    self.next_id += 1;
                    let ticks = self.clock.ticks();
                    let parent = self.lookup_mut(&names[..i]).unwrap();
                    parent.insert_sorted(MNode {
                        id,
                        name: names[i].clone(),
                        is_stream: false,
                        meta: Meta { clsid: [0; 16], state_bits: 0, created: ticks, modified: ticks },
                        data: vec![],
                        dirty: false,
                        children: vec![],
                    });
                }
                Ok(())
            }
            Op::RemoveStorage(p) => {
                let names = match parse_path(p) {
                    Ok(n) => n,
                    Err(()) => return Model::expect_err(got, &[ErrKind::InvalidInput], &what),
                };
                match self.lookup(&names) {
                    None => Model::expect_err(got, &[ErrKind::NotFound], &what),
                    Some(n) => {
                        if names.is_empty() || n.is_stream || !n.children.is_empty() {
                            Model::expect_err(got, &[ErrKind::InvalidInput], &what)
                        } else {
                            Model::expect_unit(got, &what)?;
                            self.remove_at(&names);
                            Ok(())
                        }
                    }
                }
            }
            Op::RemoveStream(p) => {
                let names = match parse_path(p) {
                    Ok(n) => n,
                    Err(()) => return Model::expect_err(got, &[ErrKind::InvalidInput], &what),
                };
                match self.lookup(&names) {
                    None => Model::expect_err(got, &[ErrKind::NotFound], &what),
                    Some(n) => {
                        if !n.is_stream {
                            Model::expect_err(got, &[ErrKind::InvalidInput], &what)
                        } else {
                            Model::expect_unit(got, &what)?;
                            self.remove_at(&names);
                            Ok(())
                        }
                    }
                }
            }
            Op::RemoveStorageAll(p) => {
                let names = match parse_path(p) {
                    Ok(n) => n,
                    Err(()) => return Model::expect_err(got, &[ErrKind::InvalidInput], &what),
                };
                match self.lookup(&names) {
                    None => Model::expect_err(got, &[ErrKind::NotFound], &what),
                    Some(n) => {
                        if n.is_stream {
                            // AMBIGUOUS: refused, or stream removed
                            match got {
                                Res::Err(ErrKind::InvalidInput, _) => Ok(()),
                                Res::Unit => {
                                    self.remove_at(&names);
                                    Ok(())
                                }
                                _ => mm("model.result", format!("{}: got {}", what, got.brief())),
                            }
                        } else {
                            Model::expect_unit(got, &what)?;
                            if names.is_empty() {
                                let kids: Vec<String> = self.root.children.iter().map(|c| c.name.clone()).collect();
                                for k in kids {
                                    self.remove_at(&[k]);
                                }
                            } else {
                                self.remove_at(&names);
                            }
                            Ok(())
                        }
                    }
                }
            }
            Op::WriteWhole { path, len, nonce } => {
                // create_stream(path) then write_all + flush: refusals as create_stream
                let names = match parse_path(path) {
                    Ok(n) => n,
                    Err(()) => return Model::expect_err(got, &[ErrKind::InvalidInput], &what),
                };
                let pre = self.create_outcome(&names, true, true);
                match pre {
                    CreateOutcome::Refuse(kinds) => Model::expect_err(got, &kinds, &what),
                    _ => {
                        Model::expect_unit(got, &what)?;
                        self.apply_create(&names, true, pre, None);
                        let n = self.lookup_mut(&names).unwrap();
                        n.data = crate::prng::pattern(*nonce, 0, *len as usize);
                        Ok(())
                    }
                }
            }
            Op::ReadWhole(p) => {
                let names = match parse_path(p) {
                    Ok(n) => n,
                    Err(()) => return Model::expect_err(got, &[ErrKind::InvalidInput], &what),
                };
                match self.lookup(&names) {
                    None => Model::expect_err(got, &[ErrKind::NotFound], &what),
                    Some(n) if !n.is_stream => Model::expect_err(got, &[ErrKind::InvalidInput], &what),
                    Some(n) => {
                        if n.dirty {
                            return Ok(());
                        }
                        match got {
                            Res::Bytes(b) if *b == n.data => Ok(()),
                            Res::Bytes(b) => {
                                let pos = b.iter().zip(n.data.iter()).position(|(x, y)| x != y);
                                mm(
                                    "model.bytes",
                                    format!(
                                        "{}: stream content differs: library {} bytes vs model {} bytes, first mismatch at {:?}",
                                        what,
                                        b.len(),
                                        n.data.len(),
                                        pos
                                    ),
                                )
                            }
                            _ => mm("model.result", format!("{}: expected bytes, got {}", what, got.brief())),
                        }
                    }
                }
            }
            Op::Entry(p) => {
                let names = match parse_path(p) {
                    Ok(n) => n,
                    Err(()) => return Model::expect_err(got, &[ErrKind::InvalidInput], &what),
                };
                match self.lookup(&names) {
                    None => Model::expect_err(got, &[ErrKind::NotFound], &what),
                    Some(n) => match got {
                        Res::Entry(e) => {
                            let w = self.info(n, &names);
                            Model::cmp_entry(e, &w, true, n.dirty, &what)
                        }
                        _ => mm("model.result", format!("{}: expected an entry, got {}", what, got.brief())),
                    },
                }
            }
            Op::RootEntry => match got {
                Res::Entry(e) => {
                    let w = self.info(&self.root, &[]);
                    Model::cmp_entry(e, &w, false, false, &what)
                }
                _ => mm("model.result", format!("{}: expected an entry, got {}", what, got.brief())),
            },
            Op::Exists(p) | Op::IsStream(p) | Op::IsStorage(p) => {
                let want = match parse_path(p) {
                    Err(()) => false,
                    Ok(names) => match self.lookup(&names) {
                        None => false,
                        Some(n) => match op {
                            Op::Exists(_) => true,
                            Op::IsStream(_) => n.is_stream,
                            _ => !n.is_stream,
                        },
                    },
                };
                match got {
                    Res::Bool(b) if *b == want => Ok(()),
                    _ => mm("model.result", format!("{}: expected {}, got {}", what, want, got.brief())),
                }
            }
            Op::ReadRoot => self.cmp_listing(got, &self.listing(&[]), &what),
            Op::ReadStorage(p) => {
                let names = match parse_path(p) {
                    Ok(n) => n,
                    Err(()) => return Model::expect_err(got, &[ErrKind::InvalidInput], &what),
                };
                match self.lookup(&names) {
                    None => Model::expect_err(got, &[ErrKind::NotFound], &what),
                    Some(n) if n.is_stream => Model::expect_err(got, &[ErrKind::InvalidInput], &what),
                    Some(_) => {
                        // listing paths are built from the query spelling of the parent
                        let want = self.listing(&names);
                        self.cmp_listing_ci(got, &want, &what)
                    }
                }
            }
            Op::Walk => self.cmp_listing(got, &self.walk_from(&[]), &what),
            Op::WalkStorage(p) => {
                let names = match parse_path(p) {
                    Ok(n) => n,
                    Err(()) => return Model::expect_err(got, &[ErrKind::InvalidInput], &what),
                };
                match self.lookup(&names) {
                    None => Model::expect_err(got, &[ErrKind::NotFound], &what),
                    Some(n) => {
                        if n.is_stream {
                            if let Res::Err(ErrKind::InvalidInput, _) = got {
                                return Ok(());
                            }
                        }
                        let want = self.walk_from(&names);
                        self.cmp_listing_ci(got, &want, &what)
                    }
                }
            }
            Op::SetStateBits(p, bits) => self.setter(p, got, &what, false, |n| n.meta.state_bits = *bits),
            Op::SetClsid(p, c) => self.setter(p, got, &what, true, |n| n.meta.clsid = *c),
            Op::SetCreated(p, t) => {
                let ticks = t.ticks();
                self.setter(p, got, &what, false, |n| {
                    if !n.is_stream {
                        n.meta.created = ticks
                    }
                })
            }
            Op::SetModified(p, t) => {
                let ticks = t.ticks();
                self.setter(p, got, &what, false, |n| {
                    if !n.is_stream {
                        n.meta.modified = ticks
                    }
                })
            }
            Op::Touch(p) => {
                let ticks = self.clock.ticks();
                self.setter(p, got, &what, false, |n| {
                    if !n.is_stream {
                        n.meta.modified = ticks
                    }
                })
            }
            // ---------------- handles ----------------
            Op::HOpen { h, path } => {
                let names = match parse_path(path) {
                    Ok(n) => n,
                    Err(()) => return Model::expect_err(got, &[ErrKind::InvalidInput], &what),
                };
                match self.lookup(&names) {
                    None => Model::expect_err(got, &[ErrKind::NotFound], &what),
                    Some(n) if !n.is_stream => Model::expect_err(got, &[ErrKind::InvalidInput], &what),
                    Some(n) => {
                        Model::expect_unit(got, &what)?;
                        let id = n.id;
                        let _ = self.step(&Op::HDrop { h: *h }, &Res::Unit);
                        self.handles[*h] = Some(MHandle { node: id, pos: 0, last_fill: 0 });
                        Ok(())
                    }
                }
            }
            Op::HCreate { h, path } | Op::HCreateNew { h, path } => {
                let overwrite = matches!(op, Op::HCreate { .. });
                let names = match parse_path(path) {
                    Ok(n) => n,
                    Err(()) => return Model::expect_err(got, &[ErrKind::InvalidInput], &what),
                };
                let pre = self.create_outcome(&names, true, overwrite);
                match pre {
                    CreateOutcome::Refuse(kinds) => Model::expect_err(got, &kinds, &what),
                    _ => {
                        Model::expect_unit(got, &what)?;
                        self.apply_create(&names, true, pre, None);
                        let id = self.lookup(&names).unwrap().id;
                        let _ = self.step(&Op::HDrop { h: *h }, &Res::Unit);
                        self.handles[*h] = Some(MHandle { node: id, pos: 0, last_fill: 0 });
                        Ok(())
                    }
                }
            }
            Op::HDrop { h } => {
                if let Some(mh) = self.handles[*h].take() {
                    if let Some(n) = self.by_id_mut(mh.node) {
                        n.dirty = false;
                    }
                }
                Ok(())
            }
            Op::HLen { h } => {
                let n = self.handle_node(*h).ok_or(Mismatch { rule: "harness".into(), msg: "no handle".into() })?;
                match got {
                    Res::Num(v) if *v == n.data.len() as u64 => Ok(()),
                    _ => mm("model.len", format!("{}: len() expected {}, got {}", what, n.data.len(), got.brief())),
                }
            }
            Op::HPos { h } => {
                let pos = self.handles[*h].as_ref().unwrap().pos;
                match got {
                    Res::Num(v) if *v == pos => Ok(()),
                    _ => mm("model.pos", format!("{}: position expected {}, got {}", what, pos, got.brief())),
                }
            }
            Op::HSeek { h, whence, off, uoff } => {
                let mh = self.handles[*h].clone().unwrap();
                let len = self.by_id(mh.node).unwrap().data.len() as i128;
                let target: i128 = match whence {
                    Whence::Start => *uoff as i128,
                    Whence::End => len + *off as i128,
                    Whence::Current => mh.pos as i128 + *off as i128,
                };
                if target < 0 || target > len {
                    Model::expect_err(got, &[ErrKind::InvalidInput], &what)
                } else {
                    match got {
                        Res::Num(v) if *v as i128 == target => {
                            let m = self.handles[*h].as_mut().unwrap();
                            m.pos = target as u64;
                            m.last_fill = 0;
                            Ok(())
                        }
                        _ => mm("model.seek", format!("{}: seek expected Ok({}), got {}", what, target, got.brief())),
                    }
                }
            }
            Op::HRead { h, n } | Op::HReadFull { h, n } => {
                let full = matches!(op, Op::HReadFull { .. });
                let mh = self.handles[*h].clone().unwrap();
                let node = self.by_id(mh.node).unwrap();
                let avail = node.data.len() as u64 - mh.pos;
                let b = match got {
                    Res::Bytes(b) => b,
                    _ => return mm("model.result", format!("{}: expected bytes, got {}", what, got.brief())),
                };
                let m = b.len() as u64;
                let maxn = (*n as u64).min(avail);
                if full {
                    if m != maxn {
                        return mm("model.read-count", format!("{}: read loop returned {} bytes, expected {} (pos {}, len {})", what, m, maxn, mh.pos, node.data.len()));
                    }
                } else if m > maxn || (m == 0 && maxn > 0) {
                    return mm("model.read-count", format!("{}: read returned {} bytes with {} requested and {} available", what, m, n, avail));
                }
                let p = mh.pos as usize;
                if node.data[p..p + m as usize] != b[..] {
                    let first = b.iter().zip(node.data[p..].iter()).position(|(x, y)| x != y);
                    return mm("model.read-bytes", format!("{}: bytes read at position {} differ from the stream content (first mismatch at +{:?})", what, mh.pos, first));
                }
                let hm = self.handles[*h].as_mut().unwrap();
                hm.pos += m;
                hm.last_fill = 0;
                Ok(())
            }
            Op::HFillBuf { h } => {
                let mh = self.handles[*h].clone().unwrap();
                let node = self.by_id(mh.node).unwrap();
                let avail = node.data.len() as u64 - mh.pos;
                let b = match got {
                    Res::Bytes(b) => b,
                    _ => return mm("model.result", format!("{}: expected bytes, got {}", what, got.brief())),
                };
                let m = b.len() as u64;
                if m > avail || (m == 0 && avail > 0) {
                    return mm("model.read-count", format!("{}: fill_buf returned {} bytes with {} available", what, m, avail));
                }
                let p = mh.pos as usize;
                if node.data[p..p + m as usize] != b[..] {
                    return mm("model.read-bytes", format!("{}: fill_buf bytes at position {} differ from the stream content", what, mh.pos));
                }
                self.handles[*h].as_mut().unwrap().last_fill = m as usize;
                Ok(())
            }
            Op::HConsume { h, n } => {
                let hm = self.handles[*h].as_mut().unwrap();
                let c = (*n).min(hm.last_fill);
                hm.pos += c as u64;
                hm.last_fill -= c;
                Ok(())
            }
            Op::HWrite { h, len, nonce } | Op::HWriteAll { h, len, nonce } => {
                let all = matches!(op, Op::HWriteAll { .. });
                let mh = self.handles[*h].clone().unwrap();
                let m = match got {
                    Res::Num(v) => *v as usize,
                    Res::Unit if all => *len,
                    _ => return mm("model.result", format!("{}: expected Ok(n), got {}", what, got.brief())),
                };
                if all && m != *len {
                    return mm("model.write-count", format!("{}: write_all wrote {}", what, m));
                }
                if m > *len || (m == 0 && *len > 0) {
                    return mm("model.write-count", format!("{}: write returned {} for a {}-byte buffer", what, m, len));
                }
                let bytes = crate::prng::pattern(*nonce, 0, m);
                let node = self.by_id_mut(mh.node).unwrap();
                let p = mh.pos as usize;
                if node.data.len() < p + m {
                    node.data.resize(p + m, 0);
                }
                node.data[p..p + m].copy_from_slice(&bytes);
                if m > 0 {
                    node.dirty = true;
                }
                let hm = self.handles[*h].as_mut().unwrap();
                hm.pos += m as u64;
                hm.last_fill = 0;
                Ok(())
            }
            Op::HSetLen { h, n } => {
                Model::expect_unit(got, &what)?;
                let mh = self.handles[*h].clone().unwrap();
                let node = self.by_id_mut(mh.node).unwrap();
                if node.data.len() as u64 != *n {
                    node.data.resize(*n as usize, 0);
                    node.dirty = false;
                }
                let hm = self.handles[*h].as_mut().unwrap();
                hm.pos = hm.pos.min(*n);
                hm.last_fill = 0;
                Ok(())
            }
            Op::HFlush { h } => {
                Model::expect_unit(got, &what)?;
                let mh = self.handles[*h].clone().unwrap();
                self.by_id_mut(mh.node).unwrap().dirty = false;
                Ok(())
            }
        }
    }

    fn cmp_listing_ci(&self, got: &Res, want: &[EntryInfo], what: &str) -> Result<(), Mismatch> {
        // paths in listings under a queried storage use the query spelling for
        // the prefix: compare paths case-insensitively, names exactly.
        let l = match got {
            Res::Listing(l) => l,
            _ => return mm("model.result", format!("{}: expected a listing, library returned {}", what, got.brief())),
        };
        let gn: Vec<&str> = l.iter().map(|e| e.name.as_str()).collect();
        let wn: Vec<&str> = want.iter().map(|e| e.name.as_str()).collect();
        let (l, want) = if self.relaxed_order {
            let mut a = l.clone();
            let mut b = want.to_vec();
            let key = |e: &EntryInfo| parse_path(&e.path).unwrap_or_default().iter().map(|s| s.to_uppercase()).collect::<Vec<_>>();
            a.sort_by(|x, y| key(x).cmp(&key(y)).then(x.name.cmp(&y.name)));
            b.sort_by(|x, y| key(x).cmp(&key(y)).then(x.name.cmp(&y.name)));
            if a.iter().map(|e| &e.name).ne(b.iter().map(|e| &e.name)) {
                return mm("model.listing-set", format!("{}: listing names {:?} vs model {:?}", what, gn, wn));
            }
            (a, b)
        } else {
            if gn != wn {
                return mm("model.listing-order", format!("{}: listing names {:?} vs model {:?}", what, gn, wn));
            }
            (l.clone(), want.to_vec())
        };
        let dirty = self.dirty_paths();
        for (g, w) in l.iter().zip(want.iter()) {
            let skip_len = dirty.iter().any(|d| same_path_ci(d, &w.path));
            Model::cmp_entry(g, w, true, skip_len, what)?;
        }
        Ok(())
    }

    fn setter<F: FnOnce(&mut MNode)>(&mut self, p: &str, got: &Res, what: &str, storage_only: bool, f: F) -> Result<(), Mismatch> {
        let names = match parse_path(p) {
            Ok(n) => n,
            Err(()) => return Model::expect_err(got, &[ErrKind::InvalidInput], what),
        };
        match self.lookup(&names) {
            None => Model::expect_err(got, &[ErrKind::NotFound], what),
            Some(n) if storage_only && n.is_stream => Model::expect_err(got, &[ErrKind::InvalidInput], what),
            Some(_) => {
                Model::expect_unit(got, what)?;
                f(self.lookup_mut(&names).unwrap());
                Ok(())
            }
        }
    }

    fn create(&mut self, p: &str, stream: bool, overwrite: bool, got: &Res, what: &str) -> Result<(), Mismatch> {
        let names = match parse_path(p) {
            Ok(n) => n,
            Err(()) => return Model::expect_err(got, &[ErrKind::InvalidInput], what),
        };
        let pre = self.create_outcome(&names, stream, overwrite);
        match pre {
            CreateOutcome::Refuse(kinds) => Model::expect_err(got, &kinds, what),
            _ => {
                Model::expect_unit(got, what)?;
                self.apply_create(&names, stream, pre, None);
                Ok(())
            }
        }
    }

    pub fn create_outcome(&self, names: &[String], stream: bool, overwrite: bool) -> CreateOutcome {
        if let Some(n) = self.lookup(names) {
            if stream && overwrite && n.is_stream {
                return CreateOutcome::Overwrite;
            }
            return CreateOutcome::Refuse(vec![ErrKind::AlreadyExists]);
        }
        let (last, parent) = names.split_last().unwrap();
        let valid = name_valid(last);
        match self.lookup(parent) {
            None => {
                // is some prefix a stream?  then the parent "does not exist" either way
                // (C09: an invalid name "is rejected with InvalidInput" - the statement makes no
                // exception for a missing parent; a valid name under a plainly missing parent is
                // NotFound, and only a stream in the way leaves the kind open)
                let stream_in_the_way = (1..parent.len()).any(|i| self.lookup(&parent[..i]).map(|n| n.is_stream).unwrap_or(false));
                if !valid {
                    CreateOutcome::Refuse(vec![ErrKind::InvalidInput])
                } else if stream_in_the_way {
                    CreateOutcome::Refuse(vec![ErrKind::NotFound, ErrKind::InvalidInput])
                } else {
                    CreateOutcome::Refuse(vec![ErrKind::NotFound])
                }
            }
            Some(pn) if pn.is_stream => CreateOutcome::Refuse(vec![ErrKind::NotFound, ErrKind::InvalidInput]),
            Some(_) => {
                if valid {
                    CreateOutcome::New
                } else {
                    CreateOutcome::Refuse(vec![ErrKind::InvalidInput])
                }
            }
        }
    }

    fn apply_create(&mut self, names: &[String], stream: bool, pre: CreateOutcome, _bits: Option<u32>) {
        match pre {
            CreateOutcome::Overwrite => {
                let n = self.lookup_mut(names).unwrap();
                n.data.clear();
                n.dirty = false;
            }
            CreateOutcome::New => {
                let id = self.next_id;
                self.next_id += 1;
                let ticks = if stream { 0 } else { self.clock.ticks() };
                let (last, parent) = names.split_last().unwrap();
                let p = self.lookup_mut(parent).unwrap();
                p.insert_sorted(MNode {
                    id,
                    name: last.clone(),
                    is_stream: stream,
                    meta: Meta { clsid: [0; 16], state_bits: 0, created: ticks, modified: ticks },
                    data: vec![],
                    dirty: false,
                    children: vec![],
                });
            }
            CreateOutcome::Refuse(_) => {}
        }
    }
}

#[derive(Clone, Debug, PartialEq, Eq)]
pub enum CreateOutcome {
    New,
    Overwrite,
    Refuse(Vec<ErrKind>),
}

impl Model {
    /// Advance the model with the canonical outcome of `op` (used by
    /// generators, which need to know what exists without running the
    /// library).  An op the model would refuse leaves the state unchanged.
    pub fn predict(&mut self, op: &Op) {
        let canonical: Res = match op {
            Op::HWrite { len, .. } => Res::Num(*len as u64),
            Op::HSeek { h, whence, off, uoff } => {
                let mh = match self.handles.get(*h).and_then(|x| x.clone()) {
                    Some(m) => m,
                    None => return,
                };
                let len = self.by_id(mh.node).map(|n| n.data.len()).unwrap_or(0) as i128;
                let t: i128 = match whence {
                    Whence::Start => *uoff as i128,
                    Whence::End => len + *off as i128,
                    Whence::Current => mh.pos as i128 + *off as i128,
                };
                if t < 0 || t > len {
                    return;
                }
                Res::Num(t as u64)
            }
            Op::HRead { h, n } | Op::HReadFull { h, n } => {
                let mh = match self.handles.get(*h).and_then(|x| x.clone()) {
                    Some(m) => m,
                    None => return,
                };
                let node = match self.by_id(mh.node) {
                    Some(n) => n,
                    None => return,
                };
                let avail = node.data.len().saturating_sub(mh.pos as usize);
                let m = (*n).min(avail);
                Res::Bytes(node.data[mh.pos as usize..mh.pos as usize + m].to_vec())
            }
            Op::HFillBuf { h } => {
                // canonical: everything that remains, capped
                let mh = match self.handles.get(*h).and_then(|x| x.clone()) {
                    Some(m) => m,
                    None => return,
                };
                let node = match self.by_id(mh.node) {
                    Some(n) => n,
                    None => return,
                };
                let avail = node.data.len().saturating_sub(mh.pos as usize);
                let m = avail.min(1024);
                Res::Bytes(node.data[mh.pos as usize..mh.pos as usize + m].to_vec())
            }
            Op::Entry(_)
            | Op::RootEntry
            | Op::Exists(_)
            | Op::IsStream(_)
            | Op::IsStorage(_)
            | Op::ReadStorage(_)
            | Op::ReadRoot
            | Op::Walk
            | Op::WalkStorage(_)
            | Op::ReadWhole(_)
            | Op::Version
            | Op::HLen { .. }
            | Op::HPos { .. } => return,
            _ => Res::Unit,
        };
        if let Some(h) = op.handle() {
            let opens = matches!(op, Op::HOpen { .. } | Op::HCreate { .. } | Op::HCreateNew { .. });
            if !opens && self.handles.get(h).map(|x| x.is_none()).unwrap_or(true) {
                return;
            }
        }
        let _ = self.step(op, &canonical);
    }
}
