//! `imgwr` — the "foreign writer": an independent, from-scratch writer of
//! MS-CFB (compound file binary) images.
//!
//! It takes the logical content (`Dump`) and a `LayoutPlan` and produces a
//! byte image that is *legal* according to [MS-CFB] but laid out "the way
//! some other implementation might": FAT / DIFAT / directory / MiniFAT
//! sectors anywhere in the file, chains running backwards or scattered, free
//! sectors and free mini sectors in between (with junk in them), directory
//! entries in arbitrary slots with unallocated slots in between, sibling
//! trees of a different (but valid red-black) shape, junk in the unused tail
//! of the last (mini) sector of every stream.
//!
//! Written from the specification only; it shares no code and no constants
//! with the library under test.
//!
//! Order of the random draws (all from `Rng::new(plan.seed)`):
//!   1. sibling trees, storages in depth-first pre-order (only drawn when
//!      `library_like_trees`),
//!   2. directory slots (number of gaps, gap positions, permutation),
//!   3. mini sector placement (number of free ones, positions, scrambling),
//!   4. regular sector placement (number of free ones, positions, scrambling),
//!   5. v3 size-field garbage (per stream in pre-order, then the root),
//!   6. fill bytes: tails of mini streams (pre-order), free mini sectors
//!      (ascending), tail of the mini stream container, tails of regular
//!      streams (pre-order), free sectors (ascending).
//!
//! Interpretations:
//!   * `shuffle_sectors` strictly between 0 and 100: starting from the
//!     sequential order (FAT, DIFAT, directory, MiniFAT, mini stream, streams
//!     in pre-order) each item is, with that probability, swapped with a random
//!     other one.  At 100: a uniform random permutation, or (1 time in 8)
//!     the exact reverse, so that every chain runs back to front.  The free
//!     sectors sit at random positions whatever the knob says.
//!   * directory slots: any `shuffle_sectors > 0` gives a full permutation;
//!     with `slot_gaps == 0` the unallocated slots are only those that pad
//!     the last directory sector (at the end); otherwise gaps and padding
//!     together are spread at random over slots 1.. .
//!   * `fragment_mini` is both the scrambling percentage and the number of
//!     free mini sectors per 100 used ones.
//!   * `min_fat_sectors`: padded with free sectors (random positions) up to the
//!     smallest file that needs that many FAT sectors.
//!   * `v3_size_high_garbage` hits every stream entry and, one time in two,
//!     the root entry (whose size field is the length of the mini stream).
//!     MS-CFB 2.6.1 says these bits MUST be zero in version 3 but that old
//!     writers left junk there and parsers should ignore it "unless
//!     verifying": such an image is what old writers produce, but a
//!     validating reader is entitled to reject it.
//!   * the root entry's creation time is written from `Meta` as asked;
//!     MS-CFB 2.6.1 says it MUST be zero for the root storage, so strictly
//!     valid content has `root.meta.created == 0`.
//!   * content that is refused: root not a storage named "Root Entry", empty
//!     names, names with NUL or one of / \ : !, names over 31 UTF-16 units,
//!     siblings equal under `cfb_cmp`, data on a storage, children on a
//!     stream, version 3 streams over 2 GiB, and any file that would reach the
//!     range lock sector at 0x7FFFFF00 (not produced by this writer).

use crate::dump::{Dump, Meta, Node};
use crate::names::{cfb_cmp, gen_pool, name_valid, units, NameClass};
use crate::prng::{mix, pattern, Rng};
use std::cmp::Ordering;

// ---- constants, from MS-CFB 2.1 / 2.2 / 2.6 ------------------------------

const SIGNATURE: [u8; 8] = [0xD0, 0xCF, 0x11, 0xE0, 0xA1, 0xB1, 0x1A, 0xE1];
const MAXREGSECT: u32 = 0xFFFF_FFFA;
const DIFSECT: u32 = 0xFFFF_FFFC;
const FATSECT: u32 = 0xFFFF_FFFD;
const ENDOFCHAIN: u32 = 0xFFFF_FFFE;
const FREESECT: u32 = 0xFFFF_FFFF;
const NOSTREAM: u32 = 0xFFFF_FFFF;
const HEADER_DIFAT_SLOTS: usize = 109;
const MINI_SECTOR_LEN: usize = 64;
const MINI_CUTOFF: u64 = 4096;
const DIRENT_LEN: usize = 128;
const TYPE_STORAGE: u8 = 1;
const TYPE_STREAM: u8 = 2;
const TYPE_ROOT: u8 = 5;
const COLOR_RED: u8 = 0;
const COLOR_BLACK: u8 = 1;
const ROOT_NAME: &str = "Root Entry";
/// First byte of the range lock sector region (MS-CFB 2.9); this writer does
/// not produce files that reach it.
const RANGE_LOCK_OFFSET: u64 = 0x7FFF_FF00;

const NONE: usize = usize::MAX;

#[derive(Clone, Debug, PartialEq, Eq)]
pub struct LayoutPlan {
    /// every layout decision is drawn from `Rng::new(seed)` in a fixed order
    pub seed: u64,
    /// 3 or 4
    pub version: u16,
    /// 0..=100: how scrambled the placement of sectors is
    pub shuffle_sectors: u8,
    /// 0..=100: about this many free sectors per 100 used ones
    pub free_sectors: u8,
    /// 0..=100: about this many unallocated directory slots per 100 used
    pub slot_gaps: u8,
    /// 0..=100: scrambling of / free ones among the mini sectors
    pub fragment_mini: u8,
    /// v3 only: junk in the high 32 bits of stream size fields
    pub v3_size_high_garbage: bool,
    /// pad with free sectors until at least this many FAT sectors are needed
    pub min_fat_sectors: u32,
    /// FAT sectors beyond what the file needs (their cells, which describe sectors past the
    /// end of the file, are all FREESECT).  Legal, and lets a small file have DIFAT sectors:
    /// with 110 or more FAT sectors in total the DIFAT spills out of the header in V3 and V4.
    pub extra_fat_sectors: u32,
    /// exact number of FAT sectors (0 = off; ignored when fewer than the content needs): lets a
    /// case put the DIFAT exactly at a boundary (109 + 127k entries in version 3)
    pub total_fat_sectors: u32,
    /// DIFAT sectors beyond what the FAT sectors need, chained in behind the needed ones and
    /// holding FREESECT entries only (spare capacity another writer may reserve); counted in
    /// the header, marked DIFSECT in the FAT
    pub spare_difat_sectors: u32,
    /// arbitrary non-zero UTF-16 units in the 64-byte name field BEHIND the name's terminating
    /// null (MS-CFB only asks for the terminator; the length field delimits the name)
    pub name_slack_garbage: bool,
    /// false: balanced trees; true: per storage balanced or insertion-built
    pub library_like_trees: bool,
}

/// Swarm-style plan: every knob is independently off, small or large.
pub fn plan_from_seed(seed: u64, version: u16) -> LayoutPlan {
    let mut r = Rng::new(mix(seed ^ 0x706c_616e_5f69_6d67) ^ version as u64);
    let knob = |r: &mut Rng| -> u8 {
        match r.below(6) {
            0 | 1 => 0,
            2 => r.range(1, 15) as u8,
            3 => r.range(16, 60) as u8,
            4 => r.range(61, 99) as u8,
            _ => 100,
        }
    };
    let shuffle_sectors = knob(&mut r);
    let free_sectors = knob(&mut r);
    let slot_gaps = knob(&mut r);
    let fragment_mini = knob(&mut r);
    let garbage = r.chance(1, 4);
    let library_like_trees = r.chance(1, 2);
    LayoutPlan {
        seed,
        version,
        shuffle_sectors,
        free_sectors,
        slot_gaps,
        fragment_mini,
        v3_size_high_garbage: version == 3 && garbage,
        min_fat_sectors: 0,
        extra_fat_sectors: 0,
        total_fat_sectors: 0,
        spare_difat_sectors: 0,
        name_slack_garbage: false,
        library_like_trees,
    }
}

// ---- flattened directory ---------------------------------------------------

struct Ent<'a> {
    node: &'a Node,
    kind: u8,
    /// children (entry indices) sorted by `cfb_cmp`
    kids: Vec<usize>,
    left: usize,
    right: usize,
    child: usize,
    black: bool,
    start: u32,
    size: u64,
}

fn check_name(name: &str) -> Result<(), String> {
    if name.is_empty() {
        return Err("empty name cannot be represented".to_string());
    }
    if name.contains('\0') {
        return Err(format!("name {:?} contains NUL", name));
    }
    if !name_valid(name) {
        return Err(format!("invalid name {:?}", name));
    }
    Ok(())
}

fn flatten<'a>(node: &'a Node, kind: u8, out: &mut Vec<Ent<'a>>) -> Result<usize, String> {
    let idx = out.len();
    out.push(Ent {
        node,
        kind,
        kids: Vec::new(),
        left: NONE,
        right: NONE,
        child: NONE,
        black: true,
        start: 0,
        size: 0,
    });
    if node.is_stream {
        if !node.children.is_empty() {
            return Err(format!("stream {:?} has children", node.name));
        }
        return Ok(idx);
    }
    if !node.data.is_empty() {
        return Err(format!("storage {:?} has data", node.name));
    }
    let mut kids = Vec::with_capacity(node.children.len());
    for c in &node.children {
        check_name(&c.name)?;
        kids.push(flatten(c, if c.is_stream { TYPE_STREAM } else { TYPE_STORAGE }, out)?);
    }
    kids.sort_by(|&a, &b| cfb_cmp(&out[a].node.name, &out[b].node.name));
    for w in kids.windows(2) {
        if cfb_cmp(&out[w[0]].node.name, &out[w[1]].node.name) == Ordering::Equal {
            return Err(format!(
                "storage {:?}: children {:?} and {:?} have equal names",
                node.name, out[w[0]].node.name, out[w[1]].node.name
            ));
        }
    }
    out[idx].kids = kids;
    Ok(idx)
}

// ---- sibling trees ---------------------------------------------------------

/// Perfectly balanced BST over `kids` (already sorted); returns the top.
fn tree_balanced(ents: &mut [Ent], kids: &[usize]) -> usize {
    fn go(ents: &mut [Ent], kids: &[usize], lo: usize, hi: usize, depth: u32, depths: &mut Vec<(usize, u32)>) -> usize {
        if lo >= hi {
            return NONE;
        }
        let mid = lo + (hi - lo) / 2;
        let me = kids[mid];
        depths.push((me, depth));
        let l = go(ents, kids, lo, mid, depth + 1, depths);
        let r = go(ents, kids, mid + 1, hi, depth + 1, depths);
        ents[me].left = l;
        ents[me].right = r;
        me
    }
    let mut depths = Vec::with_capacity(kids.len());
    let top = go(ents, kids, 0, kids.len(), 0, &mut depths);
    let deepest = depths.iter().map(|d| d.1).max().unwrap_or(0);
    let on_deepest = depths.iter().filter(|d| d.1 == deepest).count() as u64;
    let complete = deepest < 63 && on_deepest == 1u64 << deepest;
    for &(e, d) in &depths {
        ents[e].black = complete || d != deepest;
    }
    top
}

/// Textbook (CLRS) red-black insertion over the keys 0..n.
struct RbArena {
    l: Vec<usize>,
    r: Vec<usize>,
    p: Vec<usize>,
    red: Vec<bool>,
    root: usize,
}

impl RbArena {
    fn new(n: usize) -> RbArena {
        RbArena { l: vec![NONE; n], r: vec![NONE; n], p: vec![NONE; n], red: vec![false; n], root: NONE }
    }
    fn rotate_left(&mut self, x: usize) {
        let y = self.r[x];
        self.r[x] = self.l[y];
        if self.l[y] != NONE {
            let t = self.l[y];
            self.p[t] = x;
        }
        self.p[y] = self.p[x];
        let px = self.p[x];
        if px == NONE {
            self.root = y;
        } else if self.l[px] == x {
            self.l[px] = y;
        } else {
            self.r[px] = y;
        }
        self.l[y] = x;
        self.p[x] = y;
    }
    fn rotate_right(&mut self, x: usize) {
        let y = self.l[x];
        self.l[x] = self.r[y];
        if self.r[y] != NONE {
            let t = self.r[y];
            self.p[t] = x;
        }
        self.p[y] = self.p[x];
        let px = self.p[x];
        if px == NONE {
            self.root = y;
        } else if self.r[px] == x {
            self.r[px] = y;
        } else {
            self.l[px] = y;
        }
        self.r[y] = x;
        self.p[x] = y;
    }
    fn is_red(&self, x: usize) -> bool {
        x != NONE && self.red[x]
    }
    fn insert(&mut self, z: usize) {
        let mut y = NONE;
        let mut x = self.root;
        while x != NONE {
            y = x;
            x = if z < x { self.l[x] } else { self.r[x] };
        }
        self.p[z] = y;
        if y == NONE {
            self.root = z;
        } else if z < y {
            self.l[y] = z;
        } else {
            self.r[y] = z;
        }
        self.l[z] = NONE;
        self.r[z] = NONE;
        self.red[z] = true;
        let mut z = z;
        while self.is_red(self.p[z]) {
            let pz = self.p[z];
            let g = self.p[pz];
            if pz == self.l[g] {
                let u = self.r[g];
                if self.is_red(u) {
                    self.red[pz] = false;
                    self.red[u] = false;
                    self.red[g] = true;
                    z = g;
                } else {
                    if z == self.r[pz] {
                        z = pz;
                        self.rotate_left(z);
                    }
                    let pz = self.p[z];
                    let g = self.p[pz];
                    self.red[pz] = false;
                    self.red[g] = true;
                    self.rotate_right(g);
                }
            } else {
                let u = self.l[g];
                if self.is_red(u) {
                    self.red[pz] = false;
                    self.red[u] = false;
                    self.red[g] = true;
                    z = g;
                } else {
                    if z == self.l[pz] {
                        z = pz;
                        self.rotate_right(z);
                    }
                    let pz = self.p[z];
                    let g = self.p[pz];
                    self.red[pz] = false;
                    self.red[g] = true;
                    self.rotate_left(g);
                }
            }
        }
        let root = self.root;
        self.red[root] = false;
    }
}

/// Red-black tree obtained by inserting the (sorted) kids in random order.
fn tree_inserted(ents: &mut [Ent], kids: &[usize], rng: &mut Rng) -> usize {
    let n = kids.len();
    if n == 0 {
        return NONE;
    }
    let mut order: Vec<usize> = (0..n).collect();
    rng.shuffle(&mut order);
    let mut rb = RbArena::new(n);
    for &k in &order {
        rb.insert(k);
    }
    let map = |x: usize| if x == NONE { NONE } else { kids[x] };
    for k in 0..n {
        let e = kids[k];
        ents[e].left = map(rb.l[k]);
        ents[e].right = map(rb.r[k]);
        ents[e].black = !rb.red[k];
    }
    kids[rb.root]
}

// ---- placement -------------------------------------------------------------

/// `n * pct / 100`, the fraction rounded at random.
fn scaled(rng: &mut Rng, n: usize, pct: u8) -> usize {
    let x = n as u64 * pct.min(100) as u64;
    let coin = rng.below(100);
    (x / 100 + if coin < x % 100 { 1 } else { 0 }) as usize
}

fn scramble(rng: &mut Rng, xs: &mut [usize], pct: u8) {
    let n = xs.len();
    if pct == 0 || n < 2 {
        return;
    }
    if pct >= 100 {
        if rng.chance(1, 8) {
            xs.reverse(); // everything exactly back to front
        } else {
            rng.shuffle(xs);
        }
        return;
    }
    for i in 0..n {
        if rng.chance(pct as u64, 100) {
            let j = rng.usize_below(n);
            xs.swap(i, j);
        }
    }
}

/// Positions (0..n_used+n_free) of `n_used` items that are in their natural
/// order when `pct == 0`; the `n_free` positions left over are at random
/// places.
fn place(rng: &mut Rng, n_used: usize, n_free: usize, pct: u8) -> Vec<usize> {
    let total = n_used + n_free;
    let mut is_free = vec![false; total];
    for f in is_free.iter_mut().take(n_free) {
        *f = true;
    }
    if n_free > 0 && n_used > 0 {
        rng.shuffle(&mut is_free);
    }
    let avail: Vec<usize> = (0..total).filter(|&p| !is_free[p]).collect();
    let mut order: Vec<usize> = (0..n_used).collect();
    scramble(rng, &mut order, pct);
    let mut pos = vec![0usize; n_used];
    for (k, &item) in order.iter().enumerate() {
        pos[item] = avail[k];
    }
    pos
}

fn div_ceil(a: u64, b: u64) -> u64 {
    (a + b - 1) / b
}

fn put16(buf: &mut [u8], at: usize, v: u16) {
    buf[at..at + 2].copy_from_slice(&v.to_le_bytes());
}
fn put32(buf: &mut [u8], at: usize, v: u32) {
    buf[at..at + 4].copy_from_slice(&v.to_le_bytes());
}
fn put64(buf: &mut [u8], at: usize, v: u64) {
    buf[at..at + 8].copy_from_slice(&v.to_le_bytes());
}

/// Arbitrary bytes, none of them zero.
fn fill_nonzero(rng: &mut Rng, out: &mut [u8]) {
    for chunk in out.chunks_mut(8) {
        let v = rng.next_u64().to_le_bytes();
        for (o, b) in chunk.iter_mut().zip(v.iter()) {
            *o = if *b == 0 { 0x5A } else { *b };
        }
    }
}

/// Arbitrary bytes.
fn fill_any(rng: &mut Rng, out: &mut [u8]) {
    for chunk in out.chunks_mut(8) {
        let v = rng.next_u64().to_le_bytes();
        for (o, b) in chunk.iter_mut().zip(v.iter()) {
            *o = *b;
        }
    }
}

/// On-disk (Windows GUID) form of a canonical RFC 4122 CLSID.
fn guid_bytes(c: &[u8; 16]) -> [u8; 16] {
    [c[3], c[2], c[1], c[0], c[5], c[4], c[7], c[6], c[8], c[9], c[10], c[11], c[12], c[13], c[14], c[15]]
}

// ---- the writer ------------------------------------------------------------

pub fn write_image(content: &Dump, plan: &LayoutPlan) -> Result<Vec<u8>, String> {
    let (shift, sl): (u16, usize) = match plan.version {
        3 => (9, 512),
        4 => (12, 4096),
        v => return Err(format!("version {} cannot be written (3 or 4)", v)),
    };
    let mut rng = Rng::new(plan.seed);
    let cells_per_sector = sl / 4;
    let ents_per_sector = sl / DIRENT_LEN;
    let minis_per_sector = sl / MINI_SECTOR_LEN;

    // -- logical tree -> entries ------------------------------------------
    let root = &content.root;
    if root.is_stream {
        return Err("root is a stream".to_string());
    }
    if root.name != ROOT_NAME {
        return Err(format!("root is named {:?}, must be {:?}", root.name, ROOT_NAME));
    }
    let mut ents: Vec<Ent> = Vec::new();
    flatten(root, TYPE_ROOT, &mut ents)?;
    let n = ents.len();
    for e in &ents {
        if e.kind == TYPE_STREAM {
            let len = e.node.data.len() as u64;
            if plan.version == 3 && len > 0x8000_0000 {
                return Err(format!("stream {:?}: {} bytes is too large for version 3", e.node.name, len));
            }
        }
    }

    // -- 1. sibling trees ---------------------------------------------------
    for i in 0..n {
        if ents[i].kind == TYPE_STREAM {
            continue;
        }
        let kids = std::mem::take(&mut ents[i].kids);
        let inserted = plan.library_like_trees && rng.chance(1, 2);
        let top = if kids.is_empty() {
            NONE
        } else if inserted {
            tree_inserted(&mut ents, &kids, &mut rng)
        } else {
            tree_balanced(&mut ents, &kids)
        };
        if top != NONE {
            ents[top].black = true;
        }
        ents[i].child = top;
        ents[i].kids = kids;
    }

    // -- 2. directory slots -------------------------------------------------
    let gaps = scaled(&mut rng, n, plan.slot_gaps);
    let total_slots = div_ceil((n + gaps) as u64, ents_per_sector as u64) as usize * ents_per_sector;
    if total_slots as u64 > MAXREGSECT as u64 {
        return Err("too many directory entries".to_string());
    }
    let mut slot_of: Vec<u32> = vec![0; n];
    {
        let others = n - 1;
        let spare = total_slots - n;
        // positions 1..total_slots for the non-root entries
        let pos = if plan.slot_gaps == 0 {
            place(&mut rng, others, 0, if plan.shuffle_sectors > 0 { 100 } else { 0 })
        } else {
            place(&mut rng, others, spare, if plan.shuffle_sectors > 0 { 100 } else { 0 })
        };
        for i in 1..n {
            slot_of[i] = 1 + pos[i - 1] as u32;
        }
    }
    let slot = |e: usize| -> u32 {
        if e == NONE {
            NOSTREAM
        } else {
            slot_of[e]
        }
    };

    // -- 3. mini sectors ----------------------------------------------------
    // mini streams in pre-order; each gets ceil(size/64) mini sectors
    let mut mini_streams: Vec<usize> = Vec::new();
    let mut big_streams: Vec<usize> = Vec::new();
    for i in 0..n {
        if ents[i].kind != TYPE_STREAM {
            continue;
        }
        let len = ents[i].node.data.len() as u64;
        ents[i].size = len;
        if len == 0 {
            ents[i].start = ENDOFCHAIN;
        } else if len < MINI_CUTOFF {
            mini_streams.push(i);
        } else {
            big_streams.push(i);
        }
    }
    let mini_used: usize =
        mini_streams.iter().map(|&i| div_ceil(ents[i].size, MINI_SECTOR_LEN as u64) as usize).sum();
    let mini_free = if mini_used == 0 { 0 } else { scaled(&mut rng, mini_used, plan.fragment_mini) };
    let mini_total = mini_used + mini_free;
    let mini_pos = place(&mut rng, mini_used, mini_free, plan.fragment_mini);
    if mini_total as u64 * MINI_SECTOR_LEN as u64 > 0x8000_0000 && plan.version == 3 {
        return Err("mini stream too large for version 3".to_string());
    }
    let mut minifat: Vec<u32> = vec![FREESECT; mini_total];
    let mut mini_chains: Vec<Vec<usize>> = Vec::with_capacity(mini_streams.len());
    {
        let mut next_item = 0usize;
        for &i in &mini_streams {
            let cnt = div_ceil(ents[i].size, MINI_SECTOR_LEN as u64) as usize;
            let chain: Vec<usize> = mini_pos[next_item..next_item + cnt].to_vec();
            next_item += cnt;
            for k in 0..cnt {
                minifat[chain[k]] = if k + 1 < cnt { chain[k + 1] as u32 } else { ENDOFCHAIN };
            }
            ents[i].start = chain[0] as u32;
            mini_chains.push(chain);
        }
    }

    // -- 4. regular sectors -------------------------------------------------
    let n_dir = total_slots / ents_per_sector;
    let n_minifat = div_ceil(mini_total as u64 * 4, sl as u64) as usize;
    let n_container = div_ceil(mini_total as u64 * MINI_SECTOR_LEN as u64, sl as u64) as usize;
    let big_counts: Vec<usize> =
        big_streams.iter().map(|&i| div_ceil(ents[i].size, sl as u64) as usize).collect();
    let n_big: usize = big_counts.iter().sum();
    let base_used = n_dir + n_minifat + n_container + n_big;
    let mut n_free = scaled(&mut rng, base_used, plan.free_sectors);
    // number of FAT and DIFAT sectors: least fixed point
    let difat_for = |nf: u64| -> u64 {
        if nf <= HEADER_DIFAT_SLOTS as u64 {
            0
        } else {
            div_ceil(nf - HEADER_DIFAT_SLOTS as u64, cells_per_sector as u64 - 1)
        }
    };
    let fixed_point = |others: u64| -> (u64, u64) {
        let mut nf = 0u64;
        let mut nd = 0u64;
        loop {
            let total = others + nf + nd;
            let nf2 = div_ceil(total, cells_per_sector as u64);
            let nd2 = difat_for(nf2);
            if nf2 == nf && nd2 == nd {
                return (nf, nd);
            }
            nf = nf2;
            nd = nd2;
        }
    };
    let (mut n_fat, mut n_difat) = fixed_point((base_used + n_free) as u64);
    if n_fat < plan.min_fat_sectors as u64 {
        // the fewest other sectors for which min_fat_sectors - 1 FAT sectors
        // (and the DIFAT sectors those need) are not enough
        let fewer = plan.min_fat_sectors as u64 - 1;
        let others_wanted = (fewer * cells_per_sector as u64 + 1).saturating_sub(fewer + difat_for(fewer));
        let others_now = (base_used + n_free) as u64;
        if others_wanted > others_now {
            if others_wanted > MAXREGSECT as u64 {
                return Err(format!("min_fat_sectors {} cannot be reached", plan.min_fat_sectors));
            }
            n_free += (others_wanted - others_now) as usize;
        }
        let fp = fixed_point((base_used + n_free) as u64);
        n_fat = fp.0;
        n_difat = fp.1;
        debug_assert!(n_fat >= plan.min_fat_sectors as u64);
    }
    if plan.extra_fat_sectors > 0 {
        // more FAT sectors than needed; the DIFAT has to list them all
        n_fat += plan.extra_fat_sectors as u64;
        n_difat = difat_for(n_fat);
        debug_assert!((base_used + n_free) as u64 + n_fat + n_difat <= n_fat * cells_per_sector as u64);
    }
    if plan.total_fat_sectors as u64 > n_fat {
        n_fat = plan.total_fat_sectors as u64;
        n_difat = difat_for(n_fat);
    }
    let n_fat = n_fat as usize;
    let mut n_difat = n_difat as usize;
    if plan.spare_difat_sectors > 0 {
        let spare = plan.spare_difat_sectors as usize;
        if n_fat + n_difat + spare + base_used + n_free > n_fat * cells_per_sector {
            return Err("no room in the FAT for the spare DIFAT sectors".to_string());
        }
        n_difat += spare;
    }
    let n_used = n_fat + n_difat + base_used;
    let n_sectors = n_used + n_free;
    if n_sectors as u64 > MAXREGSECT as u64 {
        return Err(format!("{} sectors cannot be addressed", n_sectors));
    }
    let file_len = (1 + n_sectors as u64) * sl as u64;
    if file_len > RANGE_LOCK_OFFSET {
        return Err(format!(
            "file of {} bytes would reach the range lock sector; not supported by this writer",
            file_len
        ));
    }
    let pos = place(&mut rng, n_used, n_free, plan.shuffle_sectors);
    let mut cursor = 0usize;
    let mut take = |cnt: usize| -> Vec<u32> {
        let v: Vec<u32> = pos[cursor..cursor + cnt].iter().map(|&p| p as u32).collect();
        cursor += cnt;
        v
    };
    let fat_secs = take(n_fat);
    let difat_secs = take(n_difat);
    let dir_secs = take(n_dir);
    let minifat_secs = take(n_minifat);
    let container_secs = take(n_container);
    let big_chains: Vec<Vec<u32>> = big_counts.iter().map(|&c| take(c)).collect();

    let mut fat: Vec<u32> = vec![FREESECT; n_fat * cells_per_sector];
    let mut used_mark = vec![false; n_sectors];
    let link = |fat: &mut Vec<u32>, used_mark: &mut Vec<bool>, chain: &[u32]| {
        for k in 0..chain.len() {
            fat[chain[k] as usize] = if k + 1 < chain.len() { chain[k + 1] } else { ENDOFCHAIN };
            used_mark[chain[k] as usize] = true;
        }
    };
    for &s in &fat_secs {
        fat[s as usize] = FATSECT;
        used_mark[s as usize] = true;
    }
    for &s in &difat_secs {
        fat[s as usize] = DIFSECT;
        used_mark[s as usize] = true;
    }
    link(&mut fat, &mut used_mark, &dir_secs);
    link(&mut fat, &mut used_mark, &minifat_secs);
    link(&mut fat, &mut used_mark, &container_secs);
    for (k, &i) in big_streams.iter().enumerate() {
        link(&mut fat, &mut used_mark, &big_chains[k]);
        ents[i].start = big_chains[k][0];
    }
    // the root entry describes the mini stream
    ents[0].start = container_secs.first().copied().unwrap_or(ENDOFCHAIN);
    ents[0].size = mini_total as u64 * MINI_SECTOR_LEN as u64;

    // -- 5. version 3: junk in the high half of the size fields ---------------
    let mut size_high: Vec<u32> = vec![0; n];
    if plan.version == 3 && plan.v3_size_high_garbage {
        for i in 1..n {
            if ents[i].kind == TYPE_STREAM {
                size_high[i] = rng.range(1, 0xFFFF_FFFF) as u32;
            }
        }
        if rng.chance(1, 2) {
            size_high[0] = rng.range(1, 0xFFFF_FFFF) as u32;
        }
    }

    // -- 6. emit --------------------------------------------------------------
    let mut buf = vec![0u8; file_len as usize];
    let off = |s: u32| -> usize { (s as usize + 1) * sl };

    // header
    buf[0..8].copy_from_slice(&SIGNATURE);
    put16(&mut buf, 24, 0x003E);
    put16(&mut buf, 26, plan.version);
    put16(&mut buf, 28, 0xFFFE);
    put16(&mut buf, 30, shift);
    put16(&mut buf, 32, 6);
    put32(&mut buf, 40, if plan.version == 4 { n_dir as u32 } else { 0 });
    put32(&mut buf, 44, n_fat as u32);
    put32(&mut buf, 48, dir_secs[0]);
    put32(&mut buf, 52, 0);
    put32(&mut buf, 56, MINI_CUTOFF as u32);
    put32(&mut buf, 60, minifat_secs.first().copied().unwrap_or(ENDOFCHAIN));
    put32(&mut buf, 64, n_minifat as u32);
    put32(&mut buf, 68, difat_secs.first().copied().unwrap_or(ENDOFCHAIN));
    put32(&mut buf, 72, n_difat as u32);
    for k in 0..HEADER_DIFAT_SLOTS {
        put32(&mut buf, 76 + 4 * k, fat_secs.get(k).copied().unwrap_or(FREESECT));
    }

    // DIFAT sectors
    for (d, &s) in difat_secs.iter().enumerate() {
        let base = off(s);
        let per = cells_per_sector - 1;
        for k in 0..per {
            let v = fat_secs.get(HEADER_DIFAT_SLOTS + d * per + k).copied().unwrap_or(FREESECT);
            put32(&mut buf, base + 4 * k, v);
        }
        put32(&mut buf, base + 4 * per, difat_secs.get(d + 1).copied().unwrap_or(ENDOFCHAIN));
    }

    // FAT sectors
    for (f, &s) in fat_secs.iter().enumerate() {
        let base = off(s);
        for k in 0..cells_per_sector {
            put32(&mut buf, base + 4 * k, fat[f * cells_per_sector + k]);
        }
    }

    // directory
    for slot_idx in 0..total_slots {
        let base = off(dir_secs[slot_idx / ents_per_sector]) + (slot_idx % ents_per_sector) * DIRENT_LEN;
        put32(&mut buf, base + 68, NOSTREAM);
        put32(&mut buf, base + 72, NOSTREAM);
        put32(&mut buf, base + 76, NOSTREAM);
    }
    for i in 0..n {
        let e = &ents[i];
        let s = slot_of[i] as usize;
        let base = off(dir_secs[s / ents_per_sector]) + (s % ents_per_sector) * DIRENT_LEN;
        let name: &str = if i == 0 { ROOT_NAME } else { &e.node.name };
        let mut nunits = 0usize;
        for (k, u) in name.encode_utf16().enumerate() {
            put16(&mut buf, base + 2 * k, u);
            nunits = k + 1;
        }
        debug_assert_eq!(nunits, units(name));
        if plan.name_slack_garbage && nunits + 1 < 32 {
            fill_nonzero(&mut rng, &mut buf[base + 2 * (nunits + 1)..base + 64]);
        }
        put16(&mut buf, base + 64, (2 * (nunits + 1)) as u16);
        buf[base + 66] = e.kind;
        buf[base + 67] = if e.black { COLOR_BLACK } else { COLOR_RED };
        if i == 0 {
            put32(&mut buf, base + 68, NOSTREAM);
            put32(&mut buf, base + 72, NOSTREAM);
        } else {
            put32(&mut buf, base + 68, slot(e.left));
            put32(&mut buf, base + 72, slot(e.right));
        }
        put32(&mut buf, base + 76, if e.kind == TYPE_STREAM { NOSTREAM } else { slot(e.child) });
        let m: &Meta = &e.node.meta;
        if e.kind != TYPE_STREAM {
            buf[base + 80..base + 96].copy_from_slice(&guid_bytes(&m.clsid));
            put64(&mut buf, base + 100, m.created);
            put64(&mut buf, base + 108, m.modified);
        }
        put32(&mut buf, base + 96, m.state_bits);
        if e.kind == TYPE_STORAGE {
            put32(&mut buf, base + 116, 0);
            put64(&mut buf, base + 120, 0);
        } else {
            put32(&mut buf, base + 116, e.start);
            put64(&mut buf, base + 120, e.size | (size_high[i] as u64) << 32);
        }
    }

    // MiniFAT
    for (m, &s) in minifat_secs.iter().enumerate() {
        let base = off(s);
        for k in 0..cells_per_sector {
            let v = minifat.get(m * cells_per_sector + k).copied().unwrap_or(FREESECT);
            put32(&mut buf, base + 4 * k, v);
        }
    }

    // mini stream (container), assembled flat and then cut into its sectors
    let mut container = vec![0u8; n_container * sl];
    let mut mini_is_used = vec![false; mini_total];
    for (k, &i) in mini_streams.iter().enumerate() {
        let data = &ents[i].node.data;
        let chain = &mini_chains[k];
        for (j, &ms) in chain.iter().enumerate() {
            mini_is_used[ms] = true;
            let lo = j * MINI_SECTOR_LEN;
            let hi = ((j + 1) * MINI_SECTOR_LEN).min(data.len());
            let at = ms * MINI_SECTOR_LEN;
            container[at..at + (hi - lo)].copy_from_slice(&data[lo..hi]);
            if hi - lo < MINI_SECTOR_LEN {
                fill_nonzero(&mut rng, &mut container[at + (hi - lo)..at + MINI_SECTOR_LEN]);
            }
        }
    }
    for ms in 0..mini_total {
        if !mini_is_used[ms] {
            let at = ms * MINI_SECTOR_LEN;
            fill_any(&mut rng, &mut container[at..at + MINI_SECTOR_LEN]);
        }
    }
    {
        let used_len = mini_total * MINI_SECTOR_LEN;
        fill_nonzero(&mut rng, &mut container[used_len..]);
    }
    debug_assert!(n_container * minis_per_sector >= mini_total);
    for (k, &s) in container_secs.iter().enumerate() {
        let base = off(s);
        buf[base..base + sl].copy_from_slice(&container[k * sl..(k + 1) * sl]);
    }

    // regular streams
    for (k, &i) in big_streams.iter().enumerate() {
        let data = &ents[i].node.data;
        for (j, &s) in big_chains[k].iter().enumerate() {
            let base = off(s);
            let lo = j * sl;
            let hi = ((j + 1) * sl).min(data.len());
            buf[base..base + (hi - lo)].copy_from_slice(&data[lo..hi]);
            if hi - lo < sl {
                fill_nonzero(&mut rng, &mut buf[base + (hi - lo)..base + sl]);
            }
        }
    }

    // free sectors: anything
    for s in 0..n_sectors {
        if !used_mark[s] {
            let base = off(s as u32);
            fill_any(&mut rng, &mut buf[base..base + sl]);
        }
    }

    Ok(buf)
}

// ---- random logical content --------------------------------------------------

const BOUNDARY_SIZES: [usize; 16] =
    [0, 1, 63, 64, 65, 127, 128, 511, 512, 513, 4095, 4096, 4097, 8191, 8192, 8193];

fn gen_ticks(rng: &mut Rng) -> u64 {
    match rng.below(5) {
        0 | 1 => 0,
        2 => rng.next_u64(),
        // between 1970 and about 2100
        3 => rng.range(116_444_736_000_000_000, 157_000_000_000_000_000),
        _ => rng.range(1, 1 << 40),
    }
}

fn gen_meta(rng: &mut Rng) -> Meta {
    let mut clsid = [0u8; 16];
    if rng.chance(1, 2) {
        for b in clsid.iter_mut() {
            *b = rng.next_u64() as u8;
        }
    }
    Meta { clsid, state_bits: gen_state(rng), created: gen_ticks(rng), modified: gen_ticks(rng) }
}

fn gen_state(rng: &mut Rng) -> u32 {
    match rng.below(3) {
        0 => 0,
        1 => rng.next_u64() as u32,
        _ => 1 << rng.below(32),
    }
}

fn gen_size(rng: &mut Rng, max_stream: usize) -> usize {
    if rng.chance(1, 2) {
        let ok: Vec<usize> = BOUNDARY_SIZES.iter().copied().filter(|&s| s <= max_stream).collect();
        return *rng.pick(&ok); // 0 is always in
    }
    let cap = match rng.below(4) {
        0 => 200,
        1 => 5000,
        _ => usize::MAX,
    };
    rng.range(0, max_stream.min(cap) as u64) as usize
}

fn gen_fill(rng: &mut Rng, node: &mut Node, depth: usize, budget: &mut usize, max_stream: usize) {
    if *budget == 0 {
        return;
    }
    let want = match rng.below(10) {
        0 => rng.range(1, (*budget).min(200) as u64) as usize,
        1 => 0,
        _ => rng.range(1, (*budget).min(8) as u64) as usize,
    };
    let class = if rng.chance(1, 4) { NameClass::Ascii } else { NameClass::Agreed };
    // (another writer's names: no embedded NUL - this writer refuses them, see check_name)
    let names: Vec<String> = gen_pool(rng, class, want).into_iter().filter(|n| !n.contains('\0')).collect();
    *budget -= names.len();
    for name in names {
        let child = if depth < 5 && rng.chance(1, 4) {
            let mut s = Node::storage(&name);
            s.meta = gen_meta(rng);
            s
        } else {
            let len = gen_size(rng, max_stream);
            let nonce = rng.next_u64() as u32;
            let mut s = Node::stream(&name, pattern(nonce, 0, len));
            s.meta.state_bits = gen_state(rng);
            s
        };
        node.children.push(child);
    }
    // listing order is arbitrary as far as the writer is concerned
    rng.shuffle(&mut node.children);
    for k in 0..node.children.len() {
        if !node.children[k].is_stream {
            gen_fill(rng, &mut node.children[k], depth + 1, budget, max_stream);
        }
    }
}

/// A random logical tree with at most `max_entries` entries besides the root.
pub fn gen_content(rng: &mut Rng, max_entries: usize, max_stream: usize) -> Dump {
    let mut d = Dump::empty();
    d.root.meta = gen_meta(rng);
    let mut budget = if rng.chance(1, 3) { max_entries } else { rng.range(0, max_entries as u64) as usize };
    gen_fill(rng, &mut d.root, 1, &mut budget, max_stream);
    d
}

// ============================================================================
// tests
// ============================================================================

#[cfg(test)]
mod tests {
    use super::*;
    use crate::dump::diff;
    use crate::names::upper_unit;
    use std::io::{Cursor, Read, Seek};
    use std::time::{SystemTime, UNIX_EPOCH};

    // ---- tiny independent re-reader -----------------------------------------

    fn g16(b: &[u8], at: usize) -> u16 {
        u16::from_le_bytes([b[at], b[at + 1]])
    }
    fn g32(b: &[u8], at: usize) -> u32 {
        u32::from_le_bytes([b[at], b[at + 1], b[at + 2], b[at + 3]])
    }
    fn g64(b: &[u8], at: usize) -> u64 {
        let mut x = [0u8; 8];
        x.copy_from_slice(&b[at..at + 8]);
        u64::from_le_bytes(x)
    }

    struct RawEnt {
        name: String,
        kind: u8,
        color: u8,
        left: u32,
        right: u32,
        child: u32,
        meta: Meta,
        start: u32,
        size: u64,
    }

    #[derive(Debug, Default)]
    struct Stats {
        n_sectors: usize,
        n_fat: usize,
        n_difat: usize,
        n_free: usize,
        n_mini: usize,
        n_mini_free: usize,
        n_slots: usize,
        n_unalloc: usize,
        backward_links: usize,
        red_nodes: usize,
        max_tree_height: usize,
        fat_first: bool,
        fat_not_first: usize,
    }

    const T_FAT: u8 = 1;
    const T_DIFAT: u8 = 2;
    const T_DIR: u8 = 3;
    const T_MINIFAT: u8 = 4;
    const T_CONTAINER: u8 = 5;
    const T_STREAM: u8 = 6;

    fn follow(
        fat: &[u32],
        start: u32,
        nsec: usize,
        owner: &mut [u8],
        tag: u8,
        st: &mut Stats,
    ) -> Result<Vec<u32>, String> {
        let mut v = Vec::new();
        let mut s = start;
        while s != ENDOFCHAIN {
            if s as usize >= nsec {
                return Err(format!("chain (tag {}) reaches sector {:#x} of {}", tag, s, nsec));
            }
            if owner[s as usize] != 0 {
                return Err(format!("sector {} owned by {} and {}", s, owner[s as usize], tag));
            }
            owner[s as usize] = tag;
            v.push(s);
            let nx = fat[s as usize];
            if nx != ENDOFCHAIN && nx < s {
                st.backward_links += 1;
            }
            s = nx;
        }
        Ok(v)
    }

    fn reread(b: &[u8]) -> Result<(Dump, Stats), String> {
        let mut st = Stats::default();
        if b.len() < 512 || b[0..8] != [0xD0, 0xCF, 0x11, 0xE0, 0xA1, 0xB1, 0x1A, 0xE1] {
            return Err("signature".into());
        }
        if b[8..24].iter().any(|&x| x != 0) {
            return Err("header clsid".into());
        }
        let minor = g16(b, 24);
        let major = g16(b, 26);
        let shift = g16(b, 30);
        if minor != 0x3E || g16(b, 28) != 0xFFFE || g16(b, 32) != 6 {
            return Err("minor/bom/minishift".into());
        }
        let sl: usize = match (major, shift) {
            (3, 9) => 512,
            (4, 12) => 4096,
            _ => return Err("version/shift".into()),
        };
        if b[34..40].iter().any(|&x| x != 0) {
            return Err("reserved".into());
        }
        if b[512..sl].iter().any(|&x| x != 0) {
            return Err("v4 header padding".into());
        }
        if b.len() % sl != 0 || b.len() < 2 * sl {
            return Err(format!("length {} not whole sectors", b.len()));
        }
        let nsec = b.len() / sl - 1;
        st.n_sectors = nsec;
        let sec = |s: u32| -> &[u8] { &b[(s as usize + 1) * sl..(s as usize + 2) * sl] };
        let h_ndir = g32(b, 40) as usize;
        let h_nfat = g32(b, 44) as usize;
        let h_dir0 = g32(b, 48);
        if g32(b, 52) != 0 || g32(b, 56) != 4096 {
            return Err("transaction signature / cutoff".into());
        }
        let h_minifat0 = g32(b, 60);
        let h_nminifat = g32(b, 64) as usize;
        let h_difat0 = g32(b, 68);
        let h_ndifat = g32(b, 72) as usize;
        let mut owner = vec![0u8; nsec];

        // DIFAT
        let mut difat: Vec<u32> = (0..109).map(|k| g32(b, 76 + 4 * k)).collect();
        let mut d = h_difat0;
        let mut ndifat = 0;
        while d != ENDOFCHAIN {
            if d as usize >= nsec {
                return Err("DIFAT sector out of file".into());
            }
            if owner[d as usize] != 0 {
                return Err("DIFAT loop".into());
            }
            owner[d as usize] = T_DIFAT;
            ndifat += 1;
            let s = sec(d);
            for k in 0..sl / 4 - 1 {
                difat.push(g32(s, 4 * k));
            }
            d = g32(s, sl - 4);
        }
        if ndifat != h_ndifat {
            return Err("DIFAT count".into());
        }
        st.n_difat = ndifat;
        let used = difat.iter().position(|&x| x == FREESECT).unwrap_or(difat.len());
        if difat[used..].iter().any(|&x| x != FREESECT) {
            return Err("DIFAT entries not contiguous".into());
        }
        if used != h_nfat {
            return Err(format!("DIFAT lists {} FAT sectors, header {}", used, h_nfat));
        }
        if h_nfat <= 109 && ndifat != 0 {
            return Err("needless DIFAT sector".into());
        }
        if h_nfat > 109 && ndifat != (h_nfat - 109 + sl / 4 - 2) / (sl / 4 - 1) {
            return Err("DIFAT sector count not minimal".into());
        }
        // FAT
        let mut fat: Vec<u32> = Vec::new();
        for &f in &difat[..used] {
            if f as usize >= nsec {
                return Err("FAT sector out of file".into());
            }
            if owner[f as usize] != 0 {
                return Err("FAT sector owned twice".into());
            }
            owner[f as usize] = T_FAT;
            let s = sec(f);
            for k in 0..sl / 4 {
                fat.push(g32(s, 4 * k));
            }
        }
        st.n_fat = used;
        st.fat_first = used > 0 && difat[0] == 0;
        if used != (nsec + sl / 4 - 1) / (sl / 4) {
            return Err(format!("{} FAT sectors for {} sectors", used, nsec));
        }
        if fat[nsec..].iter().any(|&x| x != FREESECT) {
            return Err("FAT cells beyond the file are not FREESECT".into());
        }
        for s in 0..nsec {
            match owner[s] {
                T_FAT if fat[s] != FATSECT => return Err("FAT sector not FATSECT".into()),
                T_DIFAT if fat[s] != DIFSECT => return Err("DIFAT sector not DIFSECT".into()),
                0 if fat[s] == FATSECT || fat[s] == DIFSECT => return Err("stray FATSECT/DIFSECT".into()),
                _ => {}
            }
            if fat[s] > MAXREGSECT && fat[s] < DIFSECT {
                return Err("0xFFFFFFFB in FAT".into());
            }
        }

        // directory
        let dir_chain = follow(&fat, h_dir0, nsec, &mut owner, T_DIR, &mut st)?;
        if dir_chain.is_empty() {
            return Err("no directory".into());
        }
        if major == 4 && h_ndir != dir_chain.len() || major == 3 && h_ndir != 0 {
            return Err("header directory sector count".into());
        }
        let mut raw: Vec<Option<RawEnt>> = Vec::new();
        for &ds in &dir_chain {
            let s = sec(ds);
            for k in 0..sl / 128 {
                let e = &s[k * 128..(k + 1) * 128];
                let kind = e[66];
                if kind == 0 {
                    let mut blank = [0u8; 128];
                    blank[68..80].copy_from_slice(&[0xFF; 12]);
                    if e != &blank[..] {
                        return Err(format!("unallocated slot {} is not blank", raw.len()));
                    }
                    raw.push(None);
                    st.n_unalloc += 1;
                    continue;
                }
                let nlen = g16(e, 64) as usize;
                if nlen < 4 || nlen > 64 || nlen % 2 != 0 {
                    return Err(format!("slot {}: name length {}", raw.len(), nlen));
                }
                let un: Vec<u16> = (0..32).map(|i| g16(e, 2 * i)).collect();
                let nu = nlen / 2 - 1;
                if un[..nu].iter().any(|&u| u == 0) || un[nu..].iter().any(|&u| u != 0) {
                    return Err(format!("slot {}: name termination/padding", raw.len()));
                }
                let name = String::from_utf16(&un[..nu]).map_err(|_| "utf16".to_string())?;
                let g = &e[80..96];
                let clsid = [
                    g[3], g[2], g[1], g[0], g[5], g[4], g[7], g[6], g[8], g[9], g[10], g[11], g[12], g[13],
                    g[14], g[15],
                ];
                let mut size = g64(e, 120);
                if major == 3 {
                    size &= 0xFFFF_FFFF;
                }
                raw.push(Some(RawEnt {
                    name,
                    kind,
                    color: e[67],
                    left: g32(e, 68),
                    right: g32(e, 72),
                    child: g32(e, 76),
                    meta: Meta { clsid, state_bits: g32(e, 96), created: g64(e, 100), modified: g64(e, 108) },
                    start: g32(e, 116),
                    size,
                }));
            }
        }
        st.n_slots = raw.len();
        for (i, e) in raw.iter().enumerate() {
            let e = match e {
                Some(e) => e,
                None => continue,
            };
            if e.color > 1 {
                return Err("colour".into());
            }
            match e.kind {
                5 if i == 0 => {
                    if e.name != "Root Entry" || e.left != NOSTREAM || e.right != NOSTREAM {
                        return Err("root entry name/siblings".into());
                    }
                }
                1 if i != 0 => {
                    if e.start != 0 || e.size != 0 {
                        return Err("storage start/size".into());
                    }
                }
                2 if i != 0 => {
                    if e.child != NOSTREAM
                        || e.meta.clsid != [0; 16]
                        || e.meta.created != 0
                        || e.meta.modified != 0
                    {
                        return Err("stream child/clsid/times".into());
                    }
                }
                k => return Err(format!("slot {}: object type {}", i, k)),
            }
        }
        let root = raw[0].as_ref().ok_or("slot 0 unallocated")?;

        // MiniFAT and mini stream
        if root.size % 64 != 0 {
            return Err("root size".into());
        }
        let n_mini = (root.size / 64) as usize;
        st.n_mini = n_mini;
        let minifat_chain = follow(&fat, h_minifat0, nsec, &mut owner, T_MINIFAT, &mut st)?;
        if minifat_chain.len() != h_nminifat || minifat_chain.len() != (n_mini * 4 + sl - 1) / sl {
            return Err(format!("MiniFAT chain {} sectors for {} mini sectors", minifat_chain.len(), n_mini));
        }
        let mut minifat: Vec<u32> = Vec::new();
        for &m in &minifat_chain {
            let s = sec(m);
            for k in 0..sl / 4 {
                minifat.push(g32(s, 4 * k));
            }
        }
        if minifat[n_mini..].iter().any(|&x| x != FREESECT) {
            return Err("MiniFAT cells beyond the mini stream".into());
        }
        let container_chain = follow(&fat, root.start, nsec, &mut owner, T_CONTAINER, &mut st)?;
        if container_chain.len() != (n_mini * 64 + sl - 1) / sl {
            return Err("container chain length".into());
        }
        if n_mini == 0 && (root.start != ENDOFCHAIN || h_minifat0 != ENDOFCHAIN) {
            return Err("empty mini stream must have no chain".into());
        }
        let mut container: Vec<u8> = Vec::new();
        for &c in &container_chain {
            container.extend_from_slice(sec(c));
        }
        let mut mini_owner = vec![false; n_mini];

        // trees and streams
        let mut seen = vec![false; raw.len()];
        seen[0] = true;
        fn inorder(
            raw: &[Option<RawEnt>],
            id: u32,
            parent_red: bool,
            depth: usize,
            seen: &mut Vec<bool>,
            out: &mut Vec<usize>,
            st: &mut Stats,
        ) -> Result<u32, String> {
            if id == NOSTREAM {
                return Ok(1);
            }
            let i = id as usize;
            if i >= raw.len() {
                return Err("sibling id out of range".into());
            }
            let e = raw[i].as_ref().ok_or("link to unallocated slot")?;
            if seen[i] {
                return Err(format!("slot {} reached twice", i));
            }
            seen[i] = true;
            st.max_tree_height = st.max_tree_height.max(depth + 1);
            let red = e.color == 0;
            if red {
                st.red_nodes += 1;
            }
            if red && parent_red {
                return Err("red node with red child".into());
            }
            let lh = inorder(raw, e.left, red, depth + 1, seen, out, st)?;
            out.push(i);
            let rh = inorder(raw, e.right, red, depth + 1, seen, out, st)?;
            if lh != rh {
                return Err(format!("black heights {} and {} below slot {}", lh, rh, i));
            }
            Ok(lh + if red { 0 } else { 1 })
        }
        struct Ctx<'a> {
            raw: &'a [Option<RawEnt>],
            fat: &'a [u32],
            minifat: &'a [u32],
            container: &'a [u8],
            b: &'a [u8],
            sl: usize,
            nsec: usize,
        }
        fn build(
            cx: &Ctx,
            i: usize,
            seen: &mut Vec<bool>,
            owner: &mut Vec<u8>,
            mini_owner: &mut Vec<bool>,
            st: &mut Stats,
        ) -> Result<Node, String> {
            let e = cx.raw[i].as_ref().unwrap();
            let mut node = Node {
                name: e.name.clone(),
                is_stream: e.kind == 2,
                meta: e.meta.clone(),
                data: Vec::new(),
                children: Vec::new(),
            };
            if e.kind == 2 {
                if e.size == 0 {
                    if e.start != ENDOFCHAIN {
                        return Err("empty stream with a start sector".into());
                    }
                } else if e.size < 4096 {
                    let mut m = e.start;
                    let mut cnt = 0;
                    while m != ENDOFCHAIN {
                        if m as usize >= mini_owner.len() {
                            return Err("mini chain out of range".into());
                        }
                        if mini_owner[m as usize] {
                            return Err("mini sector owned twice".into());
                        }
                        mini_owner[m as usize] = true;
                        let at = m as usize * 64;
                        node.data.extend_from_slice(&cx.container[at..at + 64]);
                        cnt += 1;
                        m = cx.minifat[m as usize];
                    }
                    if cnt != (e.size as usize + 63) / 64 {
                        return Err("mini chain length".into());
                    }
                    node.data.truncate(e.size as usize);
                } else {
                    let ch = follow(cx.fat, e.start, cx.nsec, owner, T_STREAM, st)?;
                    if ch.len() != (e.size as usize + cx.sl - 1) / cx.sl {
                        return Err("stream chain length".into());
                    }
                    for s in ch {
                        let at = (s as usize + 1) * cx.sl;
                        node.data.extend_from_slice(&cx.b[at..at + cx.sl]);
                    }
                    node.data.truncate(e.size as usize);
                }
                return Ok(node);
            }
            let mut kids = Vec::new();
            if e.child != NOSTREAM {
                let top = cx.raw.get(e.child as usize).and_then(|x| x.as_ref()).ok_or("child link")?;
                if top.color != 1 {
                    return Err("top of a sibling tree is red".into());
                }
                inorder(cx.raw, e.child, false, 0, seen, &mut kids, st)?;
            }
            for w in kids.windows(2) {
                let a = &cx.raw[w[0]].as_ref().unwrap().name;
                let c = &cx.raw[w[1]].as_ref().unwrap().name;
                if cfb_cmp(a, c) != Ordering::Less {
                    return Err(format!("tree order: {:?} !< {:?}", a, c));
                }
            }
            for k in kids {
                node.children.push(build(cx, k, seen, owner, mini_owner, st)?);
            }
            Ok(node)
        }
        let cx = Ctx { raw: &raw, fat: &fat, minifat: &minifat, container: &container, b, sl, nsec };
        let root_node = build(&cx, 0, &mut seen, &mut owner, &mut mini_owner, &mut st)?;
        for (i, e) in raw.iter().enumerate() {
            if e.is_some() && !seen[i] {
                return Err(format!("slot {} allocated but unreachable", i));
            }
        }
        for s in 0..nsec {
            if owner[s] == 0 {
                st.n_free += 1;
                if fat[s] != FREESECT {
                    return Err(format!("sector {} unowned but FAT says {:#x}", s, fat[s]));
                }
            } else if fat[s] == FREESECT {
                return Err(format!("sector {} owned but free in FAT", s));
            }
        }
        for m in 0..n_mini {
            if !mini_owner[m] {
                st.n_mini_free += 1;
                if minifat[m] != FREESECT {
                    return Err("unowned mini sector not free".into());
                }
            } else if minifat[m] == FREESECT {
                return Err("owned mini sector free".into());
            }
        }
        Ok((Dump { root: root_node }, st))
    }

    /// What the image is expected to say: children in CFB order, stream
    /// CLSIDs and times dropped.
    fn normalized(n: &Node) -> Node {
        let mut m = n.clone();
        if m.is_stream {
            m.meta.clsid = [0; 16];
            m.meta.created = 0;
            m.meta.modified = 0;
        }
        m.children = n.children.iter().map(normalized).collect();
        m.children.sort_by(|a, b| cfb_cmp(&a.name, &b.name));
        m
    }

    // ---- the library as a reader ----------------------------------------------

    fn ticks(t: SystemTime) -> u64 {
        const EPOCH: i128 = 116_444_736_000_000_000;
        let v: i128 = match t.duration_since(UNIX_EPOCH) {
            Ok(d) => EPOCH + d.as_secs() as i128 * 10_000_000 + (d.subsec_nanos() / 100) as i128,
            Err(e) => {
                let d = e.duration();
                EPOCH - (d.as_secs() as i128 * 10_000_000 + (d.subsec_nanos() / 100) as i128)
            }
        };
        v as u64
    }

    fn lib_node<F: Read + Seek>(cf: &mut cfb::CompoundFile<F>, e: &cfb::Entry) -> Result<Node, String> {
        let mut node = Node {
            name: e.name().to_string(),
            is_stream: e.is_stream(),
            meta: Meta {
                clsid: *e.clsid().as_bytes(),
                state_bits: e.state_bits(),
                created: ticks(e.created()),
                modified: ticks(e.modified()),
            },
            data: Vec::new(),
            children: Vec::new(),
        };
        if e.is_stream() {
            let mut s = cf.open_stream(e.path()).map_err(|x| format!("open_stream {:?}: {}", e.path(), x))?;
            s.read_to_end(&mut node.data).map_err(|x| format!("read {:?}: {}", e.path(), x))?;
            if node.data.len() as u64 != e.len() {
                return Err(format!("{:?}: len() {} but read {}", e.path(), e.len(), node.data.len()));
            }
        } else {
            let kids: Vec<cfb::Entry> =
                cf.read_storage(e.path()).map_err(|x| format!("read_storage {:?}: {}", e.path(), x))?.collect();
            for k in &kids {
                node.children.push(lib_node(cf, k)?);
            }
        }
        Ok(node)
    }

    fn lib_read(bytes: &[u8], strict: bool) -> Result<Dump, String> {
        let cur = Cursor::new(bytes.to_vec());
        let mut cf = if strict { cfb::CompoundFile::open_strict(cur) } else { cfb::CompoundFile::open(cur) }
            .map_err(|e| format!("open{}: {}", if strict { "_strict" } else { "" }, e))?;
        let root = cf.root_entry();
        let d = Dump { root: lib_node(&mut cf, &root)? };
        // the walk must see the same number of entries
        let walked = cf.walk().count();
        if walked != d.root.count() {
            return Err(format!("walk() sees {} entries, recursive listing {}", walked, d.root.count()));
        }
        Ok(d)
    }

    /// Name order the way the library is known to compute it (upper-cased code
    /// points instead of code units); used only to classify discrepancies.
    fn codepoint_cmp(a: &str, b: &str) -> Ordering {
        let up = |c: char| -> u32 {
            if (c as u32) < 0x10000 {
                upper_unit(c as u32 as u16) as u32
            } else {
                c as u32
            }
        };
        match units(a).cmp(&units(b)) {
            Ordering::Equal => a.chars().map(up).cmp(b.chars().map(up)),
            o => o,
        }
    }

    /// Does some sibling set sort differently by code points than by code units?
    fn order_sensitive(n: &Node) -> bool {
        let mut by_units: Vec<&str> = n.children.iter().map(|c| c.name.as_str()).collect();
        let mut by_points = by_units.clone();
        by_units.sort_by(|a, b| cfb_cmp(a, b));
        by_points.sort_by(|a, b| codepoint_cmp(a, b));
        by_units != by_points || n.children.iter().any(order_sensitive)
    }

    // ---- tests ----------------------------------------------------------------

    fn sequential_plan(version: u16) -> LayoutPlan {
        LayoutPlan {
            seed: 1,
            version,
            shuffle_sectors: 0,
            free_sectors: 0,
            slot_gaps: 0,
            fragment_mini: 0,
            v3_size_high_garbage: false,
            min_fat_sectors: 0,
        extra_fat_sectors: 0,
        total_fat_sectors: 0,
            library_like_trees: false,
        }
    }

    fn check_one(content: &Dump, plan: &LayoutPlan, tag: &str) -> (Stats, Option<String>) {
        let bytes = write_image(content, plan).unwrap_or_else(|e| panic!("{}: write_image: {}", tag, e));
        let sl = if plan.version == 3 { 512 } else { 4096 };
        assert_eq!(bytes.len() % sl, 0, "{}: length", tag);
        let want = Dump { root: normalized(&content.root) };
        let (got, st) = reread(&bytes).unwrap_or_else(|e| panic!("{}: re-reader rejects: {}\nplan {:?}", tag, e, plan));
        if let Some(d) = diff(&want, &got) {
            panic!("{}: re-read differs: {}\nplan {:?}", tag, d, plan);
        }
        assert!(want == got, "{}: re-read differs (==)", tag);
        // the library
        let sensitive = order_sensitive(&content.root);
        let mut discrepancy = None;
        for strict in [true, false] {
            if strict && plan.version == 3 && plan.v3_size_high_garbage {
                // MS-CFB 2.6.1: the high half MUST be zero in v3, parsers are
                // recommended to ignore it "unless verifying": a strict reader
                // may say no.  Still exercised, but not judged.
                let _ = lib_read(&bytes, true);
                continue;
            }
            let r = lib_read(&bytes, strict).and_then(|d| match diff(&want, &d) {
                None => Ok(()),
                Some(x) => Err(format!("content differs: {}", x)),
            });
            if let Err(e) = r {
                let msg = format!("{} strict={}: {}", tag, strict, e);
                if sensitive {
                    discrepancy = Some(msg);
                } else {
                    panic!("UNEXPLAINED library discrepancy: {}\nplan {:?}", msg, plan);
                }
            }
        }
        (st, discrepancy)
    }

    #[test]
    fn empty_file_both_versions() {
        for v in [3u16, 4] {
            let bytes = write_image(&Dump::empty(), &sequential_plan(v)).unwrap();
            let sl = if v == 3 { 512 } else { 4096 };
            // header, one FAT sector, one directory sector
            assert_eq!(bytes.len(), 3 * sl);
            let (d, st) = reread(&bytes).unwrap();
            assert_eq!(d, Dump::empty());
            assert_eq!(st.n_free, 0);
            assert_eq!(lib_read(&bytes, true).unwrap(), Dump::empty());
        }
    }

    #[test]
    fn sequential_layout_is_sequential() {
        let mut c = Dump::empty();
        c.root.children.push(Node::stream("big", pattern(1, 0, 10_000)));
        c.root.children.push(Node::stream("small", pattern(2, 0, 100)));
        let mut st = Node::storage("dir");
        st.children.push(Node::stream("x", pattern(3, 0, 4096)));
        c.root.children.push(st);
        for v in [3u16, 4] {
            let (st, d) = check_one(&c, &sequential_plan(v), "seq");
            assert!(d.is_none());
            assert_eq!(st.backward_links, 0);
            assert_eq!(st.n_free, 0);
            assert_eq!(st.n_mini_free, 0);
            assert!(st.fat_first);
        }
    }

    #[test]
    fn unrepresentable_content_is_an_error() {
        let p = sequential_plan(3);
        let with = |n: Node| {
            let mut c = Dump::empty();
            c.root.children.push(n);
            c
        };
        assert!(write_image(&with(Node::stream("a/b", vec![])), &p).is_err());
        assert!(write_image(&with(Node::stream("a:b", vec![])), &p).is_err());
        assert!(write_image(&with(Node::stream("", vec![])), &p).is_err());
        assert!(write_image(&with(Node::stream(&"x".repeat(32), vec![])), &p).is_err());
        assert!(write_image(&with(Node::stream(&"x".repeat(31), vec![])), &p).is_ok());
        // 16 supplementary characters are 32 units
        assert!(write_image(&with(Node::stream(&"\u{10000}".repeat(16), vec![])), &p).is_err());
        let mut c = Dump::empty();
        c.root.children.push(Node::stream("Abc", vec![]));
        c.root.children.push(Node::storage("aBC"));
        assert!(write_image(&c, &p).unwrap_err().contains("equal names"));
        let mut c = Dump::empty();
        c.root.name = "Root".into();
        assert!(write_image(&c, &p).is_err());
        let mut bad = sequential_plan(3);
        bad.version = 5;
        assert!(write_image(&Dump::empty(), &bad).is_err());
    }

    #[test]
    fn deterministic() {
        let mut rng = Rng::new(77);
        for case in 0..50 {
            let c = gen_content(&mut rng, 60, 9000);
            let plan = plan_from_seed(case, if case % 2 == 0 { 3 } else { 4 });
            assert_eq!(plan, plan_from_seed(case, plan.version));
            let a = write_image(&c, &plan).unwrap();
            let b = write_image(&c, &plan).unwrap();
            assert!(a == b);
            let mut other = plan.clone();
            other.seed ^= 1;
            other.shuffle_sectors = 100;
            other.free_sectors = 50;
            let d = write_image(&c, &other).unwrap();
            let (x, _) = reread(&a).unwrap();
            let (y, _) = reread(&d).unwrap();
            assert_eq!(x, y);
        }
    }

    #[test]
    fn balanced_and_inserted_trees_are_red_black() {
        // sibling sets of every size 0..=70 and a few large ones, both styles
        for style in [false, true] {
            for n in (0..=70usize).chain([127, 128, 129, 200, 255, 256, 500]) {
                let mut c = Dump::empty();
                for k in 0..n {
                    c.root.children.push(Node::stream(&format!("s{:03}", k), vec![]));
                }
                let mut plan = sequential_plan(if n % 2 == 0 { 3 } else { 4 });
                plan.library_like_trees = style;
                plan.seed = n as u64 * 31 + 5;
                plan.shuffle_sectors = 100;
                let (st, d) = check_one(&c, &plan, "rb");
                assert!(d.is_none());
                if !style && n > 0 {
                    // height of a perfectly balanced tree
                    let h = (usize::BITS - n.leading_zeros()) as usize;
                    assert_eq!(st.max_tree_height, h, "n={}", n);
                    let full = (1usize << h) - 1 == n;
                    let deepest = n - ((1usize << (h - 1)) - 1);
                    assert_eq!(st.red_nodes, if full { 0 } else { deepest }, "n={}", n);
                }
            }
        }
    }

    #[test]
    fn roundtrip_many() {
        let cases: u64 = std::env::var("IMGWR_CASES").ok().and_then(|s| s.parse().ok()).unwrap_or(4000);
        let mut discrepancies: Vec<String> = Vec::new();
        let mut sensitive_cases = 0;
        let mut agg = Stats::default();
        let mut with_difat_like = 0;
        let master: u64 = std::env::var("IMGWR_SEED").ok().and_then(|s| s.parse().ok()).unwrap_or(20260924);
        for case in 0..cases {
            let mut rng = Rng::for_case(master, "imgwr.roundtrip", case);
            let version = if case % 2 == 0 { 3 } else { 4 };
            let max_entries = *rng.pick(&[0usize, 1, 3, 10, 40, 120, 400]);
            let max_stream = *rng.pick(&[0usize, 64, 600, 5000, 9000, 40000]);
            let content = gen_content(&mut rng, max_entries, max_stream);
            let mut plan = plan_from_seed(rng.next_u64(), version);
            if rng.chance(1, 10) {
                plan.min_fat_sectors = if version == 3 { rng.range(2, 6) as u32 } else { 2 };
                with_difat_like += 1;
            }
            if order_sensitive(&content.root) {
                sensitive_cases += 1;
            }
            let (st, d) = check_one(&content, &plan, &format!("case {}", case));
            if let Some(d) = d {
                discrepancies.push(d);
            }
            agg.n_sectors += st.n_sectors;
            agg.n_free += st.n_free;
            agg.n_mini += st.n_mini;
            agg.n_mini_free += st.n_mini_free;
            agg.n_slots += st.n_slots;
            agg.n_unalloc += st.n_unalloc;
            agg.backward_links += st.backward_links;
            agg.red_nodes += st.red_nodes;
            agg.n_fat += st.n_fat;
            agg.n_difat += st.n_difat;
            agg.max_tree_height = agg.max_tree_height.max(st.max_tree_height);
            if !st.fat_first {
                agg.fat_not_first += 1;
            }
        }
        println!(
            "roundtrip_many: {} cases, {} padded; totals {:?}",
            cases, with_difat_like, agg
        );
        println!(
            "order-sensitive sibling sets in {} cases; library disagreed in {} of them",
            sensitive_cases,
            discrepancies.len()
        );
        for d in discrepancies.iter().take(5) {
            println!("  known-class discrepancy: {}", d);
        }
        // the knobs must actually do something
        assert!(agg.n_free > 0 && agg.n_mini_free > 0 && agg.n_unalloc > 0 && agg.backward_links > 0);
        assert!(agg.fat_not_first > 0 && agg.red_nodes > 0);
    }

    #[test]
    fn difat_v3_111_fat_sectors() {
        let mut rng = Rng::new(111);
        let content = gen_content(&mut rng, 50, 9000);
        for (min_fat, shuffle) in [(111u32, 0u8), (111, 100), (240, 100)] {
            let mut plan = plan_from_seed(5, 3);
            plan.min_fat_sectors = min_fat;
            plan.shuffle_sectors = shuffle;
            plan.v3_size_high_garbage = false;
            let bytes = write_image(&content, &plan).unwrap();
            let (got, st) = reread(&bytes).unwrap();
            assert_eq!(got, Dump { root: normalized(&content.root) });
            assert_eq!(st.n_fat as u32, min_fat);
            assert_eq!(st.n_difat, if min_fat == 111 { 1 } else { 2 });
            // least number of sectors that needs min_fat FAT sectors, plus the header
            assert_eq!(bytes.len(), (1 + (min_fat as usize - 1) * 128 + 2) * 512);
            println!("difat: {} bytes, {:?}", bytes.len(), st);
            if order_sensitive(&content.root) {
                panic!("pick another seed: content is order sensitive");
            }
            for strict in [true, false] {
                let d = lib_read(&bytes, strict).unwrap_or_else(|e| panic!("library: {}", e));
                assert_eq!(diff(&Dump { root: normalized(&content.root) }, &d), None);
            }
        }
    }

    /// Version 4 needs 110 FAT sectors of 1024 cells before a DIFAT sector
    /// appears: a 461 MB image.  Run with `--ignored`.
    #[test]
    #[ignore]
    fn difat_v4_110_fat_sectors() {
        let mut rng = Rng::new(112);
        let content = gen_content(&mut rng, 30, 9000);
        assert!(!order_sensitive(&content.root));
        let mut plan = plan_from_seed(6, 4);
        plan.min_fat_sectors = 110;
        plan.shuffle_sectors = 100;
        let bytes = write_image(&content, &plan).unwrap();
        let want = Dump { root: normalized(&content.root) };
        let (got, st) = reread(&bytes).unwrap();
        assert_eq!(got, want);
        assert_eq!((st.n_fat, st.n_difat), (110, 1));
        println!("difat v4: {} bytes, {:?}", bytes.len(), st);
        let cur = Cursor::new(bytes);
        let mut cf = cfb::CompoundFile::open_strict(cur).unwrap_or_else(|e| panic!("library: {}", e));
        let root = cf.root_entry();
        let d = Dump { root: lib_node(&mut cf, &root).unwrap() };
        assert_eq!(diff(&want, &d), None);
    }

    /// Minimal example for the known name-order defect of the library: the
    /// writer orders by UTF-16 code units (MS-CFB 2.6.4), the library by code
    /// points.  Both names are two units long: "\u{FF61}\u{FF61}" is FF61 FF61,
    /// "\u{10000}" is D800 DC00.  By units D800 < FF61, so U+10000 comes first;
    /// by code points 0x10000 > 0xFF61, so the library wants it last.
    #[test]
    fn name_order_minimal_example() {
        let mut c = Dump::empty();
        c.root.children.push(Node::stream("\u{FF61}\u{FF61}", b"bmp".to_vec()));
        c.root.children.push(Node::stream("\u{10000}", b"supplementary".to_vec()));
        assert_eq!(cfb_cmp("\u{10000}", "\u{FF61}\u{FF61}"), Ordering::Less);
        assert!(order_sensitive(&c.root));
        for v in [3u16, 4] {
            let bytes = write_image(&c, &sequential_plan(v)).unwrap();
            let (got, _) = reread(&bytes).unwrap();
            assert_eq!(got, Dump { root: normalized(&c.root) });
            for strict in [true, false] {
                match lib_read(&bytes, strict) {
                    Ok(d) => println!(
                        "name order example v{} strict={}: library reads it: {:?}",
                        v,
                        strict,
                        diff(&Dump { root: normalized(&c.root) }, &d)
                    ),
                    Err(e) => println!("name order example v{} strict={}: LIBRARY DISAGREES: {}", v, strict, e),
                }
            }
        }
    }

    /// Second flavour of the same defect: the library only compares each node
    /// with its direct children when opening, so some unit-ordered trees pass
    /// even `open_strict`, the entry is listed, and then cannot be opened.
    #[test]
    fn name_order_silent_misread_example() {
        let mut c = Dump::empty();
        // by code units: "AA" < U+10000 < U+E000 U+E000 < U+E001 U+E001
        // by code points: "AA" < U+E000 U+E000 < U+E001 U+E001 < U+10000
        c.root.children.push(Node::stream("AA", b"1".to_vec()));
        c.root.children.push(Node::stream("\u{10000}", b"2".to_vec()));
        c.root.children.push(Node::stream("\u{E000}\u{E000}", b"3".to_vec()));
        c.root.children.push(Node::stream("\u{E001}\u{E001}", b"4".to_vec()));
        let mut found = false;
        for seed in 0..400 {
            let mut plan = sequential_plan(3);
            plan.library_like_trees = true;
            plan.seed = seed;
            let bytes = write_image(&c, &plan).unwrap();
            let (got, _) = reread(&bytes).unwrap();
            assert_eq!(got, Dump { root: normalized(&c.root) });
            if let Err(e) = lib_read(&bytes, true) {
                if !e.starts_with("open_strict") {
                    println!("silent misread example: plan seed {} (v3, sequential, library_like_trees): open_strict Ok, then: {}", seed, e);
                    let cf = cfb::CompoundFile::open_strict(Cursor::new(bytes.clone())).unwrap();
                    let listed: Vec<String> = cf.read_root_storage().map(|e| e.name().to_string()).collect();
                    println!("  listed by read_root_storage: {:?}; exists(U+10000) = {}", listed, cf.exists("/\u{10000}"));
                    found = true;
                    break;
                }
            }
        }
        println!("silent misread example found: {}", found);
    }

    #[test]
    fn v3_size_high_garbage_is_ignored_by_permissive_reader() {
        let mut c = Dump::empty();
        c.root.children.push(Node::stream("mini", pattern(9, 0, 100)));
        c.root.children.push(Node::stream("big", pattern(8, 0, 5000)));
        c.root.children.push(Node::stream("empty", vec![]));
        for seed in 0..8 {
            let mut plan = sequential_plan(3);
            plan.seed = seed;
            plan.v3_size_high_garbage = true;
            let bytes = write_image(&c, &plan).unwrap();
            let (got, _) = reread(&bytes).unwrap();
            assert_eq!(got, Dump { root: normalized(&c.root) });
            match lib_read(&bytes, false) {
                Ok(d) => assert_eq!(diff(&Dump { root: normalized(&c.root) }, &d), None),
                Err(e) => panic!("permissive library read of v3 size garbage: {}", e),
            }
            match lib_read(&bytes, true) {
                Ok(_) => println!("seed {}: strict library accepts v3 size garbage", seed),
                Err(e) => println!("seed {}: strict library rejects v3 size garbage: {}", seed, e),
            }
        }
    }

    #[test]
    fn gen_content_respects_limits() {
        let mut rng = Rng::new(4);
        let mut biggest_set = 0;
        let mut deepest = 0;
        fn depth(n: &Node) -> usize {
            1 + n.children.iter().map(depth).max().unwrap_or(0)
        }
        fn widest(n: &Node) -> usize {
            n.children.len().max(n.children.iter().map(widest).max().unwrap_or(0))
        }
        fn check(n: &Node, max_stream: usize) {
            assert!(n.data.len() <= max_stream);
            if n.is_stream {
                assert_eq!(n.meta.clsid, [0; 16]);
                assert_eq!((n.meta.created, n.meta.modified), (0, 0));
            }
            for (i, a) in n.children.iter().enumerate() {
                assert!(name_valid(&a.name) && !a.name.is_empty());
                for b in &n.children[i + 1..] {
                    assert_ne!(cfb_cmp(&a.name, &b.name), Ordering::Equal);
                }
                check(a, max_stream);
            }
        }
        for _ in 0..300 {
            let d = gen_content(&mut rng, 400, 10_000);
            assert!(d.root.count() <= 401);
            check(&d.root, 10_000);
            biggest_set = biggest_set.max(widest(&d.root));
            deepest = deepest.max(depth(&d.root));
        }
        println!("gen_content: biggest sibling set {}, deepest {}", biggest_set, deepest);
        assert!(biggest_set > 100 && biggest_set <= 200);
        assert!(deepest >= 4 && deepest <= 6);
    }
}
