//! Stale handles: a `Stream` kept open while its own stream is removed (directly, or with its
//! parent storage) and its directory slot is left free, or taken by a new storage, or by a new
//! stream.  The generic runner drops such handles on the caller's behalf; this scenario does
//! not, because "every subsequent sequence of API calls" (C11) includes them, because a write
//! through one that returns Ok must still leave a well-formed file (C03), and because a handle
//! "never touches other objects" (C07).
//!
//! What is judged, by property:
//!  * C11: no call panics or exceeds its step budget;
//!  * C03: after every call that returned Ok the image passes the independent checker;
//!  * C07: the bystanders (streams and storages that existed before the removal) keep their
//!    content and metadata.  The library identifies a handle by its directory slot, so when a
//!    new STREAM takes the slot the old handle simply refers to that stream: what happens to the
//!    newcomer is not judged (no property speaks about it); for a slot taken by a storage, or
//!    left free, nothing else may change.
//!
//! What a stale call returns (Ok from the handle's buffer, NotFound, ...) is not judged.

use crate::case::{Case, Outcome, Violation};
use crate::disk::SimDisk;
use crate::driver::{normalise_site, Lib};
use crate::imgck;
use crate::ops::{Op, Res, Whence};
use crate::prng::{self, Rng};
use std::collections::BTreeMap;

pub const SIZES: &[u64] = &[0, 10, 64, 100, 700, 3000, 4095, 4096, 5000, 9000, 20_000];

/// Explicit op list of one scenario (so that it can be minimised and replayed as it stands).
pub fn gen_ops(rng: &mut Rng) -> Vec<Op> {
    let mut ops = vec![];
    let mut nonce = 3000u32;
    let mut n = || {
        nonce += 1;
        nonce
    };
    let in_storage = rng.chance(1, 3);
    if in_storage {
        ops.push(Op::CreateStorage("/dir".into()));
    }
    let nby = rng.range(1, 4);
    for i in 0..nby {
        ops.push(Op::WriteWhole { path: format!("/by{}", i), len: *rng.pick(SIZES), nonce: n() });
    }
    if rng.chance(1, 2) {
        ops.push(Op::CreateStorage("/keep".into()));
        ops.push(Op::WriteWhole { path: "/keep/inner".into(), len: *rng.pick(SIZES), nonce: n() });
    }
    let victim = if in_storage { "/dir/victim".to_string() } else { "/victim".to_string() };
    let vlen = *rng.pick(SIZES);
    ops.push(Op::WriteWhole { path: victim.clone(), len: vlen, nonce: n() });
    for i in 0..rng.range(0, 2) {
        ops.push(Op::WriteWhole { path: format!("/late{}", i), len: *rng.pick(SIZES), nonce: n() });
    }
    ops.push(Op::HOpen { h: 0, path: victim.clone() });
    // leave the handle in a drawn state: untouched, parked at an offset, with read-ahead, dirty
    match rng.below(5) {
        0 => {}
        1 => ops.push(Op::HSeek { h: 0, whence: Whence::Start, off: 0, uoff: rng.below(vlen + 1) }),
        2 => ops.push(Op::HReadFull { h: 0, n: rng.range(1, 5000) as usize }),
        3 => {
            ops.push(Op::HSeek { h: 0, whence: Whence::Start, off: 0, uoff: rng.below(vlen + 1) });
            ops.push(Op::HWriteAll { h: 0, len: rng.range(1, 6000) as usize, nonce: n() });
        }
        _ => {
            ops.push(Op::HSeek { h: 0, whence: Whence::End, off: 0, uoff: 0 });
            ops.push(Op::HWriteAll { h: 0, len: rng.range(1, 300) as usize, nonce: n() });
            ops.push(Op::HFlush { h: 0 });
        }
    }
    // the handle's own stream goes away
    if in_storage && rng.chance(1, 2) {
        ops.push(Op::RemoveStorageAll("/dir".into()));
    } else {
        ops.push(Op::RemoveStream(victim));
    }
    // the freed slot: left free, taken by a storage, or by a stream (shorter / longer)
    match rng.below(4) {
        0 => {}
        1 => ops.push(Op::CreateStorage("/newsto".into())),
        2 => {
            ops.push(Op::CreateStorage("/newsto".into()));
            ops.push(Op::WriteWhole { path: "/newsto/x".into(), len: *rng.pick(SIZES), nonce: n() });
        }
        _ => ops.push(Op::WriteWhole { path: "/newstream".into(), len: *rng.pick(SIZES), nonce: n() }),
    }
    // calls through the stale handle
    for _ in 0..rng.range(1, 5) {
        let op = match rng.below(10) {
            0 => Op::HRead { h: 0, n: *rng.pick(&[1usize, 100, 5000]) },
            1 => Op::HReadFull { h: 0, n: *rng.pick(&[10usize, 4096, 30_000]) },
            2 => Op::HFillBuf { h: 0 },
            3 => Op::HWriteAll { h: 0, len: *rng.pick(&[1usize, 100, 4000, 6000]), nonce: n() },
            4 => Op::HWrite { h: 0, len: *rng.pick(&[1usize, 100, 1024, 4000, 6000]), nonce: n() },
            5 => Op::HFlush { h: 0 },
            6 => Op::HSeek { h: 0, whence: *rng.pick(&[Whence::Start, Whence::End, Whence::Current]), off: 0, uoff: 0 },
            7 => Op::HSetLen { h: 0, n: *rng.pick(&[0u64, 1, 64, 100, 4095, 4096, 8000]) },
            8 => Op::HLen { h: 0 },
            _ => Op::HFlush { h: 0 },
        };
        ops.push(op);
    }
    ops.push(Op::HFlush { h: 0 });
    ops.push(Op::HDrop { h: 0 });
    ops.push(Op::WriteWhole { path: "/after".into(), len: *rng.pick(SIZES), nonce: n() });
    ops
}

#[derive(Clone, Copy)]
pub struct Judge {
    pub property: &'static str,
    pub image: bool,
    pub bystanders: bool,
    /// C10: a call through the stale handle that is REFUSED (NotFound / AlreadyExists /
    /// InvalidInput) leaves the bytes and what the handle reports (len, position) unchanged
    pub refusals: bool,
}

pub fn run(case: &Case, j: Judge) -> Outcome {
    let mut o = Outcome::default();
    crate::driver::set_clock(crate::ops::T { secs: 1_600_000_000, nanos: 0 });
    let disk = SimDisk::new(Vec::new());
    let mut lib = match Lib::create_cfg(disk, case.version, case.bufsize) {
        Ok(l) => l,
        Err(r) => {
            o.harness_error = Some(format!("create failed: {}", r.brief()));
            return o;
        }
    };
    lib.budget_base = 400_000;
    let report = |o: &mut Outcome, rule: &str, site: &str, msg: String, step: usize| {
        o.violations.push(Violation { property: j.property.into(), rule: rule.into(), site: site.into(), msg, step });
    };
    // content every bystander must keep (None = no longer judged)
    let mut expect: BTreeMap<String, Vec<u8>> = BTreeMap::new();
    let mut victim: Option<String> = None;
    let mut stale = false;
    let mut stale_calls = 0u64;
    for (i, op) in case.ops.iter().enumerate() {
        // (minimisation may delete the removal: then there is nothing stale and the op list is an
        // ordinary history)
        let before = if j.refusals && stale && op.handle() == Some(0) && !matches!(op, Op::HDrop { .. }) {
            Some((lib.disk.snapshot(), lib.exec(&Op::HLen { h: 0 }), lib.exec(&Op::HPos { h: 0 })))
        } else {
            None
        };
        let got = lib.exec(op);
        o.stats.api_calls += 1;
        if let (Some((img, len0, pos0)), Res::Err(kind, _)) = (&before, &got) {
            if matches!(kind, crate::ops::ErrKind::NotFound | crate::ops::ErrKind::AlreadyExists | crate::ops::ErrKind::InvalidInput) {
                o.stats.probe("stale_call_refused");
                o.stats.boundary_checks += 1;
                // write_all / the read loop are several calls: the earlier ones may have had their effect
                let single = !matches!(op, Op::HWriteAll { .. } | Op::HReadFull { .. });
                if single && lib.disk.snapshot() != *img {
                    report(&mut o, "no-effect.image-changed", op.kind(), format!("step {} {} through a handle whose stream was removed was refused ({}), but the underlying bytes changed", i, op.to_json(), got.brief()), i);
                    break;
                }
                let (len1, pos1) = (lib.exec(&Op::HLen { h: 0 }), lib.exec(&Op::HPos { h: 0 }));
                if single && (len1.brief() != len0.brief() || pos1.brief() != pos0.brief()) {
                    report(
                        &mut o,
                        "no-effect.handle-state-changed",
                        op.kind(),
                        format!("step {} {} through a handle whose stream was removed was refused ({}), but the handle now reports len {} (before: {}) and position {} (before: {})", i, op.to_json(), got.brief(), len1.brief(), len0.brief(), pos1.brief(), pos0.brief()),
                        i,
                    );
                    break;
                }
                // "... every subsequently observable result the same as if the call had not been
                // made": the same call made again meets the same state and is refused the same way
                if single {
                    let again = lib.exec(op);
                    o.stats.api_calls += 1;
                    if again.brief() != got.brief() {
                        report(&mut o, "no-effect.repeat-differs", op.kind(), format!("step {} {} through a handle whose stream was removed was refused ({}); the same call made again returns {}", i, op.to_json(), got.brief(), again.brief()), i);
                        break;
                    }
                }
            }
        }
        match &got {
            Res::Panic(p) => {
                // (panics and runaways are C11's subject; the other users of the scenario end the case)
                if j.property == "C11" {
                    report(&mut o, "panic", &normalise_site(p), format!("step {} {}{}: {}", i, op.to_json(), if stale { " (handle 0 is stale: its stream was removed)" } else { "" }, p), i);
                } else {
                    o.stats.probe("out_of_scope:panic");
                }
                break;
            }
            Res::Hang => {
                if j.property == "C11" {
                    report(&mut o, "hang", op.kind(), format!("step {} {}: seam-step budget exceeded", i, op.to_json()), i);
                } else {
                    o.stats.probe("out_of_scope:hang");
                }
                break;
            }
            _ => {}
        }
        let ok = !got.is_err() && !matches!(got, Res::Skipped);
        match op {
            Op::HOpen { path, .. } => victim = Some(path.clone()),
            Op::WriteWhole { path, len, nonce } => {
                if ok && !stale {
                    expect.insert(path.clone(), prng::pattern(*nonce, 0, *len as usize));
                }
            }
            Op::RemoveStream(p) if ok => {
                expect.remove(p);
                if victim.as_deref() == Some(p.as_str()) {
                    stale = true;
                }
            }
            Op::RemoveStorageAll(p) if ok => {
                let prefix = format!("{}/", p);
                expect.retain(|k, _| !k.starts_with(&prefix));
                if victim.as_deref().map(|v| v.starts_with(&prefix)).unwrap_or(false) {
                    stale = true;
                }
            }
            Op::HWriteAll { .. } | Op::HFlush { .. } | Op::HSetLen { .. } if !stale => {
                // the victim itself changes while the handle is legitimate: not a bystander
                if let Some(v) = &victim {
                    expect.remove(v);
                }
            }
            _ => {}
        }
        if !stale {
            continue;
        }
        if op.handle() == Some(0) {
            stale_calls += 1;
            if ok {
                o.stats.probe("stale_call_returned_ok");
            } else {
                o.stats.probe("stale_call_returned_err");
            }
        }
        // C03: after a call that returned Ok the image is well-formed
        if j.image && ok && (op.is_mutator() || matches!(op, Op::HFlush { .. } | Op::HDrop { .. } | Op::HWriteAll { .. } | Op::HSetLen { .. })) {
            o.stats.boundary_checks += 1;
            let img = lib.disk.snapshot();
            let p = imgck::check(&img);
            if let Some(f) = &p.fatal {
                report(&mut o, "imgck.fatal", "image", format!("after step {} {} (returned {}; handle 0 is stale): the independent parser cannot read the image: {}", i, op.to_json(), got.brief(), f), i);
                break;
            }
            if let Some(v) = p.violations.iter().find(|v| v.rule != "R5.minifat-short") {
                report(&mut o, &format!("imgck.{}", v.rule), "image", format!("after step {} {} (returned {}; handle 0 is stale): {}", i, op.to_json(), got.brief(), v.msg), i);
                break;
            }
        }
        // C07: bystanders are untouched
        if j.bystanders && op.handle() == Some(0) {
            o.stats.boundary_checks += 1;
            let mut bad = None;
            for (path, want) in expect.iter() {
                match lib.exec(&Op::ReadWhole(path.clone())) {
                    Res::Bytes(b) if &b == want => {}
                    Res::Bytes(b) => {
                        let first = b.iter().zip(want.iter()).position(|(x, y)| x != y);
                        bad = Some(format!("stream {:?} now reads {} bytes (expected {}; first difference at {:?})", path, b.len(), want.len(), first));
                        break;
                    }
                    other => {
                        bad = Some(format!("stream {:?} can no longer be read: {}", path, other.brief()));
                        break;
                    }
                }
            }
            if bad.is_none() {
                for sto in ["/keep", "/newsto"] {
                    if let Res::Entry(e) = lib.exec(&Op::Entry(sto.into())) {
                        if !e.is_storage || e.len != 0 {
                            bad = Some(format!("storage {:?} now reports is_storage={} len={}", sto, e.is_storage, e.len));
                        }
                    }
                }
            }
            if let Some(m) = bad {
                report(&mut o, "stale.bystander-changed", op.kind(), format!("after step {} {} (returned {}) through a handle whose stream was removed: {}", i, op.to_json(), got.brief(), m), i);
                break;
            }
        }
    }
    lib.close();
    let d = lib.disk.0.borrow();
    o.stats.seam_events = d.k;
    o.stats.trace_hash = d.hash.finish();
    o.stats.state_hashes = vec![o.stats.trace_hash];
    o.stats.nontrivial = stale_calls > 0;
    o.stats.ok_mutations = stale_calls;
    if stale_calls > 0 {
        o.stats.probe("stale_handle_scenarios");
    }
    o
}
