//! The operation alphabet (public API surface of the crate) and observable
//! results, with JSON encoding for replay files.

use crate::dump::Meta;
use serde_json::{json, Value};

/// A point in time as `UNIX_EPOCH + secs + nanos` (secs may be negative).
#[derive(Clone, Copy, Debug, PartialEq, Eq)]
pub struct T {
    pub secs: i64,
    pub nanos: u32,
}

impl T {
    pub fn to_system_time(self) -> Option<std::time::SystemTime> {
        use std::time::{Duration, UNIX_EPOCH};
        let base = if self.secs >= 0 {
            UNIX_EPOCH.checked_add(Duration::from_secs(self.secs as u64))?
        } else {
            UNIX_EPOCH.checked_sub(Duration::from_secs(self.secs.unsigned_abs()))?
        };
        base.checked_add(Duration::new(0, self.nanos))
    }
    /// Independent conversion to CFB ticks (100 ns since 1601-01-01), in i128:
    /// truncate toward the Unix epoch, clamp to 0..=u64::MAX.
    pub fn ticks(self) -> u64 {
        const EPOCH_1970_TICKS: i128 = 11_644_473_600i128 * 10_000_000;
        // nanoseconds relative to 1970
        let ns: i128 = self.secs as i128 * 1_000_000_000 + self.nanos as i128;
        // truncation toward 1970 == truncation toward zero of ns/100
        let t100 = ns / 100; // Rust i128 division truncates toward zero
        let ticks = EPOCH_1970_TICKS + t100;
        if ticks < 0 {
            0
        } else if ticks > u64::MAX as i128 {
            u64::MAX
        } else {
            ticks as u64
        }
    }
}

/// Convert a SystemTime returned by the library into ticks, independently.
pub fn system_time_to_ticks(t: std::time::SystemTime) -> u64 {
    use std::time::UNIX_EPOCH;
    let tt = match t.duration_since(UNIX_EPOCH) {
        Ok(d) => T { secs: d.as_secs() as i64, nanos: d.subsec_nanos() },
        Err(e) => {
            let d = e.duration();
            // -(secs + nanos) = (-secs - 1) + (1e9 - nanos)
            if d.subsec_nanos() == 0 {
                T { secs: -(d.as_secs() as i64), nanos: 0 }
            } else {
                T { secs: -(d.as_secs() as i64) - 1, nanos: 1_000_000_000 - d.subsec_nanos() }
            }
        }
    };
    // exact: library times are whole ticks, so no rounding issue arises here
    tt.ticks_floor_exact()
}

impl T {
    /// For values that are whole multiples of 100 ns: exact tick count (floor).
    fn ticks_floor_exact(self) -> u64 {
        const EPOCH_1970_TICKS: i128 = 11_644_473_600i128 * 10_000_000;
        let ns: i128 = self.secs as i128 * 1_000_000_000 + self.nanos as i128;
        let t100 = ns.div_euclid(100);
        let ticks = EPOCH_1970_TICKS + t100;
        ticks.clamp(0, u64::MAX as i128) as u64
    }
}

#[derive(Clone, Copy, Debug, PartialEq, Eq)]
pub enum Whence {
    Start,
    End,
    Current,
}

#[derive(Clone, Debug, PartialEq, Eq)]
pub enum Op {
    CreateStorage(String),
    CreateStorageAll(String),
    RemoveStorage(String),
    RemoveStorageAll(String),
    /// create_stream + drop
    CreateStream(String),
    /// create_new_stream + drop
    CreateNewStream(String),
    RemoveStream(String),
    /// create_stream + write_all(pattern) + flush + drop
    WriteWhole { path: String, len: u64, nonce: u32 },
    /// open_stream + read_to_end + drop
    ReadWhole(String),
    Entry(String),
    RootEntry,
    Exists(String),
    IsStream(String),
    IsStorage(String),
    ReadStorage(String),
    ReadRoot,
    Walk,
    WalkStorage(String),
    SetStateBits(String, u32),
    SetClsid(String, [u8; 16]),
    SetCreated(String, T),
    SetModified(String, T),
    Touch(String),
    FlushFile,
    Version,
    // handles
    HOpen { h: usize, path: String },
    HCreate { h: usize, path: String },
    HCreateNew { h: usize, path: String },
    HRead { h: usize, n: usize },
    HReadFull { h: usize, n: usize },
    HFillBuf { h: usize },
    HConsume { h: usize, n: usize },
    HWrite { h: usize, len: usize, nonce: u32 },
    HWriteAll { h: usize, len: usize, nonce: u32 },
    HSeek { h: usize, whence: Whence, off: i64, uoff: u64 },
    HSetLen { h: usize, n: u64 },
    HFlush { h: usize },
    HLen { h: usize },
    HPos { h: usize },
    HDrop { h: usize },
    /// drop handles, into_inner, open the same bytes again
    Reopen { strict: bool },
    /// install the simulated clock reading used by following calls
    SetClock(T),
}

impl Op {
    pub fn kind(&self) -> &'static str {
        match self {
            Op::CreateStorage(_) => "create_storage",
            Op::CreateStorageAll(_) => "create_storage_all",
            Op::RemoveStorage(_) => "remove_storage",
            Op::RemoveStorageAll(_) => "remove_storage_all",
            Op::CreateStream(_) => "create_stream",
            Op::CreateNewStream(_) => "create_new_stream",
            Op::RemoveStream(_) => "remove_stream",
            Op::WriteWhole { .. } => "write_whole",
            Op::ReadWhole(_) => "read_whole",
            Op::Entry(_) => "entry",
            Op::RootEntry => "root_entry",
            Op::Exists(_) => "exists",
            Op::IsStream(_) => "is_stream",
            Op::IsStorage(_) => "is_storage",
            Op::ReadStorage(_) => "read_storage",
            Op::ReadRoot => "read_root_storage",
            Op::Walk => "walk",
            Op::WalkStorage(_) => "walk_storage",
            Op::SetStateBits(..) => "set_state_bits",
            Op::SetClsid(..) => "set_storage_clsid",
            Op::SetCreated(..) => "set_created_time",
            Op::SetModified(..) => "set_modified_time",
            Op::Touch(_) => "touch",
            Op::FlushFile => "flush",
            Op::Version => "version",
            Op::HOpen { .. } => "open_stream",
            Op::HCreate { .. } => "h_create_stream",
            Op::HCreateNew { .. } => "h_create_new_stream",
            Op::HRead { .. } => "h_read",
            Op::HReadFull { .. } => "h_read_full",
            Op::HFillBuf { .. } => "h_fill_buf",
            Op::HConsume { .. } => "h_consume",
            Op::HWrite { .. } => "h_write",
            Op::HWriteAll { .. } => "h_write_all",
            Op::HSeek { .. } => "h_seek",
            Op::HSetLen { .. } => "h_set_len",
            Op::HFlush { .. } => "h_flush",
            Op::HLen { .. } => "h_len",
            Op::HPos { .. } => "h_pos",
            Op::HDrop { .. } => "h_drop",
            Op::Reopen { .. } => "reopen",
            Op::SetClock(_) => "set_clock",
        }
    }

    pub fn handle(&self) -> Option<usize> {
        match self {
            Op::HOpen { h, .. }
            | Op::HCreate { h, .. }
            | Op::HCreateNew { h, .. }
            | Op::HRead { h, .. }
            | Op::HReadFull { h, .. }
            | Op::HFillBuf { h }
            | Op::HConsume { h, .. }
            | Op::HWrite { h, .. }
            | Op::HWriteAll { h, .. }
            | Op::HSeek { h, .. }
            | Op::HSetLen { h, .. }
            | Op::HFlush { h }
            | Op::HLen { h }
            | Op::HPos { h }
            | Op::HDrop { h } => Some(*h),
            _ => None,
        }
    }

    /// Does a successful execution change the file (structure, data or metadata)?
    pub fn is_mutator(&self) -> bool {
        matches!(
            self,
            Op::CreateStorage(_)
                | Op::CreateStorageAll(_)
                | Op::RemoveStorage(_)
                | Op::RemoveStorageAll(_)
                | Op::CreateStream(_)
                | Op::CreateNewStream(_)
                | Op::RemoveStream(_)
                | Op::WriteWhole { .. }
                | Op::SetStateBits(..)
                | Op::SetClsid(..)
                | Op::SetCreated(..)
                | Op::SetModified(..)
                | Op::Touch(_)
                | Op::HCreate { .. }
                | Op::HCreateNew { .. }
                | Op::HWrite { .. }
                | Op::HWriteAll { .. }
                | Op::HSetLen { .. }
        )
    }

    pub fn to_json(&self) -> Value {
        let t = |t: &T| json!([t.secs, t.nanos]);
        match self {
            Op::CreateStorage(p)
            | Op::CreateStorageAll(p)
            | Op::RemoveStorage(p)
            | Op::RemoveStorageAll(p)
            | Op::CreateStream(p)
            | Op::CreateNewStream(p)
            | Op::RemoveStream(p)
            | Op::ReadWhole(p)
            | Op::Entry(p)
            | Op::Exists(p)
            | Op::IsStream(p)
            | Op::IsStorage(p)
            | Op::ReadStorage(p)
            | Op::WalkStorage(p)
            | Op::Touch(p) => json!({"op": self.kind(), "path": p}),
            Op::WriteWhole { path, len, nonce } => json!({"op": self.kind(), "path": path, "len": len, "nonce": nonce}),
            Op::RootEntry | Op::ReadRoot | Op::Walk | Op::FlushFile | Op::Version => json!({"op": self.kind()}),
            Op::SetStateBits(p, b) => json!({"op": self.kind(), "path": p, "bits": b}),
            Op::SetClsid(p, c) => json!({"op": self.kind(), "path": p, "clsid": c.to_vec()}),
            Op::SetCreated(p, x) | Op::SetModified(p, x) => json!({"op": self.kind(), "path": p, "t": t(x)}),
            Op::HOpen { h, path } | Op::HCreate { h, path } | Op::HCreateNew { h, path } => {
                json!({"op": self.kind(), "h": h, "path": path})
            }
            Op::HRead { h, n } | Op::HReadFull { h, n } | Op::HConsume { h, n } => {
                json!({"op": self.kind(), "h": h, "n": n})
            }
            Op::HFillBuf { h } | Op::HFlush { h } | Op::HLen { h } | Op::HPos { h } | Op::HDrop { h } => {
                json!({"op": self.kind(), "h": h})
            }
            Op::HWrite { h, len, nonce } | Op::HWriteAll { h, len, nonce } => {
                json!({"op": self.kind(), "h": h, "len": len, "nonce": nonce})
            }
            Op::HSeek { h, whence, off, uoff } => {
                let w = match whence {
                    Whence::Start => "start",
                    Whence::End => "end",
                    Whence::Current => "current",
                };
                json!({"op": self.kind(), "h": h, "whence": w, "off": off, "uoff": uoff.to_string()})
            }
            Op::HSetLen { h, n } => json!({"op": self.kind(), "h": h, "n": n}),
            Op::Reopen { strict } => json!({"op": self.kind(), "strict": strict}),
            Op::SetClock(x) => json!({"op": self.kind(), "t": t(x)}),
        }
    }

    pub fn from_json(v: &Value) -> Result<Op, String> {
        let kind = v["op"].as_str().ok_or("op missing")?;
        let p = || -> Result<String, String> { Ok(v["path"].as_str().ok_or("path missing")?.to_string()) };
        let h = || -> Result<usize, String> { Ok(v["h"].as_u64().ok_or("h missing")? as usize) };
        let n = |k: &str| -> Result<u64, String> { v[k].as_u64().ok_or(format!("{} missing", k)) };
        let t = || -> Result<T, String> {
            let a = v["t"].as_array().ok_or("t missing")?;
            Ok(T { secs: a[0].as_i64().ok_or("t.secs")?, nanos: a[1].as_u64().ok_or("t.nanos")? as u32 })
        };
        Ok(match kind {
            "create_storage" => Op::CreateStorage(p()?),
            "create_storage_all" => Op::CreateStorageAll(p()?),
            "remove_storage" => Op::RemoveStorage(p()?),
            "remove_storage_all" => Op::RemoveStorageAll(p()?),
            "create_stream" => Op::CreateStream(p()?),
            "create_new_stream" => Op::CreateNewStream(p()?),
            "remove_stream" => Op::RemoveStream(p()?),
            "write_whole" => Op::WriteWhole { path: p()?, len: n("len")?, nonce: n("nonce")? as u32 },
            "read_whole" => Op::ReadWhole(p()?),
            "entry" => Op::Entry(p()?),
            "root_entry" => Op::RootEntry,
            "exists" => Op::Exists(p()?),
            "is_stream" => Op::IsStream(p()?),
            "is_storage" => Op::IsStorage(p()?),
            "read_storage" => Op::ReadStorage(p()?),
            "read_root_storage" => Op::ReadRoot,
            "walk" => Op::Walk,
            "walk_storage" => Op::WalkStorage(p()?),
            "set_state_bits" => Op::SetStateBits(p()?, n("bits")? as u32),
            "set_storage_clsid" => {
                let a = v["clsid"].as_array().ok_or("clsid")?;
                let mut c = [0u8; 16];
                for (i, x) in a.iter().enumerate().take(16) {
                    c[i] = x.as_u64().ok_or("clsid byte")? as u8;
                }
                Op::SetClsid(p()?, c)
            }
            "set_created_time" => Op::SetCreated(p()?, t()?),
            "set_modified_time" => Op::SetModified(p()?, t()?),
            "touch" => Op::Touch(p()?),
            "flush" => Op::FlushFile,
            "version" => Op::Version,
            "open_stream" => Op::HOpen { h: h()?, path: p()? },
            "h_create_stream" => Op::HCreate { h: h()?, path: p()? },
            "h_create_new_stream" => Op::HCreateNew { h: h()?, path: p()? },
            "h_read" => Op::HRead { h: h()?, n: n("n")? as usize },
            "h_read_full" => Op::HReadFull { h: h()?, n: n("n")? as usize },
            "h_fill_buf" => Op::HFillBuf { h: h()? },
            "h_consume" => Op::HConsume { h: h()?, n: n("n")? as usize },
            "h_write" => Op::HWrite { h: h()?, len: n("len")? as usize, nonce: n("nonce")? as u32 },
            "h_write_all" => Op::HWriteAll { h: h()?, len: n("len")? as usize, nonce: n("nonce")? as u32 },
            "h_seek" => {
                let w = match v["whence"].as_str().ok_or("whence")? {
                    "start" => Whence::Start,
                    "end" => Whence::End,
                    _ => Whence::Current,
                };
                let uoff = v["uoff"].as_str().ok_or("uoff")?.parse::<u64>().map_err(|e| e.to_string())?;
                Op::HSeek { h: h()?, whence: w, off: v["off"].as_i64().ok_or("off")?, uoff }
            }
            "h_set_len" => Op::HSetLen { h: h()?, n: n("n")? },
            "h_flush" => Op::HFlush { h: h()? },
            "h_len" => Op::HLen { h: h()? },
            "h_pos" => Op::HPos { h: h()? },
            "h_drop" => Op::HDrop { h: h()? },
            "reopen" => Op::Reopen { strict: v["strict"].as_bool().unwrap_or(false) },
            "set_clock" => Op::SetClock(t()?),
            other => return Err(format!("unknown op {}", other)),
        })
    }
}

#[derive(Clone, Copy, Debug, PartialEq, Eq, PartialOrd, Ord)]
pub enum ErrKind {
    NotFound,
    AlreadyExists,
    InvalidInput,
    InvalidData,
    Other,
}

impl ErrKind {
    pub fn of(e: &std::io::Error) -> ErrKind {
        match e.kind() {
            std::io::ErrorKind::NotFound => ErrKind::NotFound,
            std::io::ErrorKind::AlreadyExists => ErrKind::AlreadyExists,
            std::io::ErrorKind::InvalidInput => ErrKind::InvalidInput,
            std::io::ErrorKind::InvalidData => ErrKind::InvalidData,
            _ => ErrKind::Other,
        }
    }
    pub fn is_refusal(self) -> bool {
        matches!(self, ErrKind::NotFound | ErrKind::AlreadyExists | ErrKind::InvalidInput)
    }
}

#[derive(Clone, Debug, PartialEq, Eq)]
pub struct EntryInfo {
    pub name: String,
    pub path: String,
    pub is_stream: bool,
    pub is_storage: bool,
    pub is_root: bool,
    pub len: u64,
    pub meta: Meta,
}

/// What an API call returned, as far as a caller can observe it.
#[derive(Clone, Debug, PartialEq, Eq)]
pub enum Res {
    Unit,
    Bool(bool),
    Num(u64),
    Bytes(Vec<u8>),
    Entry(EntryInfo),
    Listing(Vec<EntryInfo>),
    Err(ErrKind, String),
    Panic(String),
    /// seam-step budget exceeded during this call
    Hang,
    /// the op could not be attempted (e.g. handle slot empty)
    Skipped,
}

impl Res {
    pub fn brief(&self) -> String {
        match self {
            Res::Unit => "Ok(())".into(),
            Res::Bool(b) => format!("{}", b),
            Res::Num(n) => format!("Ok({})", n),
            Res::Bytes(b) => format!("Ok({} bytes, fnv {:08x})", b.len(), crate::prng::fnv(b) as u32),
            Res::Entry(e) => format!("Ok(entry {:?} len {})", e.path, e.len),
            Res::Listing(l) => format!("Ok([{}])", l.iter().map(|e| e.name.clone()).collect::<Vec<_>>().join(",")),
            Res::Err(k, m) => format!("Err({:?}: {})", k, m),
            Res::Panic(m) => format!("PANIC({})", m),
            Res::Hang => "HANG".into(),
            Res::Skipped => "skipped".into(),
        }
    }
    pub fn is_err(&self) -> bool {
        matches!(self, Res::Err(..))
    }
    pub fn err_kind(&self) -> Option<ErrKind> {
        match self {
            Res::Err(k, _) => Some(*k),
            _ => None,
        }
    }
    /// Hash for cross-run / cross-configuration comparison.
    pub fn hash_into(&self, h: &mut crate::prng::Fnv) {
        h.write(format!("{:?}", self).as_bytes());
    }
}
