//! `imgck` — an independent reader and structural checker for MS-CFB images.
//!
//! Written from the MS-CFB specification only; it shares no code, constants or
//! parsing logic with the crate under test.  `check` never panics, never loops
//! unboundedly and never allocates more than a small multiple of the input
//! size, whatever the bytes are.

use crate::dump::{Dump, Meta, Node};
use crate::names;
use std::cmp::Ordering;
use std::collections::{HashMap, HashSet, VecDeque};

// ---------------------------------------------------------------- constants

const MAXREGSECT: u32 = 0xFFFF_FFFA;
const RESERVED_SECT: u32 = 0xFFFF_FFFB;
const DIFSECT: u32 = 0xFFFF_FFFC;
const FATSECT: u32 = 0xFFFF_FFFD;
const ENDOFCHAIN: u32 = 0xFFFF_FFFE;
const FREESECT: u32 = 0xFFFF_FFFF;
const NOSTREAM: u32 = 0xFFFF_FFFF;

const HEADER_LEN: usize = 512;
const HEADER_DIFAT_SLOTS: usize = 109;
const HEADER_DIFAT_OFFSET: usize = 76;
const ENTRY_LEN: usize = 128;
const MINI_LEN: u64 = 64;
const CUTOFF: u64 = 4096;
const SIGNATURE: [u8; 8] = [0xD0, 0xCF, 0x11, 0xE0, 0xA1, 0xB1, 0x1A, 0xE1];

/// Storage nesting deeper than this is still checked, but no `Dump` is built
/// (the `Node` type is recursive, so is its destructor).
const MAX_NESTING: usize = 1024;
/// At most this many distinct messages are kept per rule id.
const PER_RULE_CAP: usize = 200;

// owner ids for regular sectors
const OWN_NONE: u32 = u32::MAX;
const OWN_FAT: u32 = u32::MAX - 1;
const OWN_DIFAT: u32 = u32::MAX - 2;
const OWN_DIR: u32 = u32::MAX - 3;
const OWN_MINIFAT: u32 = u32::MAX - 4;
const OWN_MINISTREAM: u32 = u32::MAX - 5;

// ------------------------------------------------------------- public types

#[derive(Clone, Debug)]
pub struct Violation {
    pub rule: &'static str,
    pub msg: String,
}

#[derive(Clone, Debug)]
pub struct RawEntry {
    pub slot: u32,
    pub offset: usize,
    pub name_units: [u16; 32],
    pub name_len_field: u16,
    pub obj_type: u8,
    pub color: u8,
    pub left: u32,
    pub right: u32,
    pub child: u32,
    pub clsid_raw: [u8; 16],
    pub state_bits: u32,
    pub created: u64,
    pub modified: u64,
    pub start_sector: u32,
    pub size: u64,
    pub reachable: bool,
}

#[derive(Clone, Debug, Default)]
pub struct Layout {
    pub version: u16,
    pub sector_len: usize,
    pub num_sectors: u32,
    pub file_len: usize,
    pub difat: Vec<u32>,
    pub difat_sectors: Vec<u32>,
    pub fat_sectors: Vec<u32>,
    pub fat: Vec<u32>,
    pub dir_sectors: Vec<u32>,
    pub minifat_sectors: Vec<u32>,
    pub ministream_sectors: Vec<u32>,
    pub minifat: Vec<u32>,
    pub entries: Vec<RawEntry>,
    pub hdr_num_dir: u32,
    pub hdr_num_fat: u32,
    pub hdr_first_dir: u32,
    pub hdr_first_minifat: u32,
    pub hdr_num_minifat: u32,
    pub hdr_first_difat: u32,
    pub hdr_num_difat: u32,
    pub free_sectors: usize,
    pub free_mini_sectors: usize,
    pub unallocated_entries: usize,
    pub orphan_entries: usize,
    pub nodes_with_two_siblings: usize,
    pub red_nodes: usize,
    pub max_tree_depth: usize,
}

pub struct Parsed {
    pub layout: Layout,
    pub dump: Option<Dump>,
    pub violations: Vec<Violation>,
    pub fatal: Option<String>,
}

// ------------------------------------------------------------------ locators

pub fn header_field_offsets() -> Vec<(&'static str, usize, usize)> {
    let mut v: Vec<(&'static str, usize, usize)> = vec![
        ("signature", 0, 8),
        ("clsid", 8, 16),
        ("minor_version", 24, 2),
        ("major_version", 26, 2),
        ("byte_order", 28, 2),
        ("sector_shift", 30, 2),
        ("mini_sector_shift", 32, 2),
        ("reserved", 34, 6),
        ("num_dir_sectors", 40, 4),
        ("num_fat_sectors", 44, 4),
        ("first_dir_sector", 48, 4),
        ("transaction_signature", 52, 4),
        ("mini_stream_cutoff", 56, 4),
        ("first_minifat_sector", 60, 4),
        ("num_minifat_sectors", 64, 4),
        ("first_difat_sector", 68, 4),
        ("num_difat_sectors", 72, 4),
    ];
    for i in 0..HEADER_DIFAT_SLOTS {
        v.push(("difat_slot", HEADER_DIFAT_OFFSET + 4 * i, 4));
    }
    v
}

pub fn entry_field_offsets() -> Vec<(&'static str, usize, usize)> {
    vec![
        ("name", 0, 64),
        ("name_len", 64, 2),
        ("type", 66, 1),
        ("color", 67, 1),
        ("left", 68, 4),
        ("right", 72, 4),
        ("child", 76, 4),
        ("clsid", 80, 16),
        ("state", 96, 4),
        ("created", 100, 8),
        ("modified", 108, 8),
        ("start", 116, 4),
        ("size", 120, 8),
    ]
}

pub fn sector_offset(l: &Layout, sector: u32) -> usize {
    (sector as usize).saturating_add(1).saturating_mul(l.sector_len)
}

pub fn fat_cell_offset(l: &Layout, sector: u32) -> Option<usize> {
    if l.sector_len < 4 {
        return None;
    }
    let per = l.sector_len / 4;
    let idx = sector as usize;
    if idx >= l.fat.len() {
        return None;
    }
    let fs = *l.fat_sectors.get(idx / per)?;
    Some(sector_offset(l, fs).saturating_add((idx % per) * 4))
}

pub fn minifat_cell_offset(l: &Layout, mini: u32) -> Option<usize> {
    if l.sector_len < 4 {
        return None;
    }
    let per = l.sector_len / 4;
    let idx = mini as usize;
    if idx >= l.minifat.len() {
        return None;
    }
    let ms = *l.minifat_sectors.get(idx / per)?;
    Some(sector_offset(l, ms).saturating_add((idx % per) * 4))
}

pub fn difat_slot_offset(l: &Layout, index: usize) -> Option<usize> {
    if index >= l.difat.len() {
        return None;
    }
    if index < HEADER_DIFAT_SLOTS {
        return Some(HEADER_DIFAT_OFFSET + 4 * index);
    }
    if l.sector_len < 8 {
        return None;
    }
    let per = l.sector_len / 4 - 1;
    let k = (index - HEADER_DIFAT_SLOTS) / per;
    let j = (index - HEADER_DIFAT_SLOTS) % per;
    let ds = *l.difat_sectors.get(k)?;
    Some(sector_offset(l, ds).saturating_add(j * 4))
}

// ------------------------------------------------------------ little helpers

fn rd_u16(b: &[u8], off: usize) -> Option<u16> {
    let s = b.get(off..off.checked_add(2)?)?;
    Some(u16::from_le_bytes([s[0], s[1]]))
}

fn rd_u32(b: &[u8], off: usize) -> Option<u32> {
    let s = b.get(off..off.checked_add(4)?)?;
    Some(u32::from_le_bytes([s[0], s[1], s[2], s[3]]))
}

fn rd_u64(b: &[u8], off: usize) -> Option<u64> {
    let s = b.get(off..off.checked_add(8)?)?;
    let mut a = [0u8; 8];
    a.copy_from_slice(s);
    Some(u64::from_le_bytes(a))
}

fn sect_name(v: u32) -> String {
    match v {
        FREESECT => "FREESECT".to_string(),
        ENDOFCHAIN => "ENDOFCHAIN".to_string(),
        FATSECT => "FATSECT".to_string(),
        DIFSECT => "DIFSECT".to_string(),
        RESERVED_SECT => "0xFFFFFFFB".to_string(),
        x => format!("{}", x),
    }
}

fn owner_label(o: u32) -> String {
    match o {
        OWN_NONE => "nobody".to_string(),
        OWN_FAT => "the FAT".to_string(),
        OWN_DIFAT => "the DIFAT chain".to_string(),
        OWN_DIR => "the directory chain".to_string(),
        OWN_MINIFAT => "the MiniFAT chain".to_string(),
        OWN_MINISTREAM => "the mini stream (root) chain".to_string(),
        id => format!("stream entry {}", id),
    }
}

fn ceil_div(a: u64, b: u64) -> u64 {
    if b == 0 {
        return 0;
    }
    a / b + if a % b != 0 { 1 } else { 0 }
}

/// Windows GUID on disk -> canonical RFC 4122 byte order.
fn clsid_canonical(r: &[u8; 16]) -> [u8; 16] {
    [
        r[3], r[2], r[1], r[0], r[5], r[4], r[7], r[6], r[8], r[9], r[10], r[11], r[12], r[13], r[14], r[15],
    ]
}

// ---------------------------------------------------------- violation sink

struct Sink {
    list: Vec<Violation>,
    seen: HashSet<(&'static str, String)>,
    per_rule: HashMap<&'static str, usize>,
    calls: u64,
}

impl Sink {
    fn new() -> Sink {
        Sink { list: Vec::new(), seen: HashSet::new(), per_rule: HashMap::new(), calls: 0 }
    }

    fn add(&mut self, rule: &'static str, msg: String) {
        self.calls += 1;
        let c = self.per_rule.entry(rule).or_insert(0);
        if *c > PER_RULE_CAP {
            return;
        }
        if *c == PER_RULE_CAP {
            *c += 1;
            self.list.push(Violation {
                rule,
                msg: format!("more than {} violations of this rule; further ones suppressed", PER_RULE_CAP),
            });
            return;
        }
        if !self.seen.insert((rule, msg.clone())) {
            return;
        }
        *c += 1;
        self.list.push(Violation { rule, msg });
    }
}

// ------------------------------------------------------- fixed header checks

/// Checks the fixed header fields (needs only the first 512 bytes) and decides
/// the version: Some(3) / Some(4), or None when neither the major version nor
/// the sector shift is usable.
fn header_fixed_checks(b: &[u8], v: &mut Sink) -> Option<u16> {
    if b.get(0..8) != Some(&SIGNATURE[..]) {
        v.add("R1.signature", format!("signature bytes are {:02X?}", b.get(0..8).unwrap_or(&[])));
    }
    if b.get(8..24).map(|s| s.iter().any(|&x| x != 0)).unwrap_or(true) {
        v.add("R1.clsid", "header CLSID field is not all zero".to_string());
    }
    let minor = rd_u16(b, 24).unwrap_or(0);
    let major = rd_u16(b, 26).unwrap_or(0);
    let order = rd_u16(b, 28).unwrap_or(0);
    let shift = rd_u16(b, 30).unwrap_or(0);
    let mshift = rd_u16(b, 32).unwrap_or(0);
    if minor != 0x003E {
        v.add("R1.minor", format!("minor version is {:#06x}, expected 0x003e", minor));
    }
    if major != 3 && major != 4 {
        v.add("R1.major", format!("major version is {}, expected 3 or 4", major));
    }
    if order != 0xFFFE {
        v.add("R1.byte-order", format!("byte order mark is {:#06x}, expected 0xfffe", order));
    }
    let version: Option<u16> = match major {
        3 => Some(3),
        4 => Some(4),
        _ => match shift {
            9 => Some(3),
            12 => Some(4),
            _ => None,
        },
    };
    match version {
        Some(3) if shift != 9 => {
            v.add("R1.sector-shift", format!("sector shift is {}, expected 9 for version 3", shift))
        }
        Some(4) if shift != 12 => {
            v.add("R1.sector-shift", format!("sector shift is {}, expected 12 for version 4", shift))
        }
        None => v.add("R1.sector-shift", format!("sector shift is {}, expected 9 or 12", shift)),
        _ => {}
    }
    if mshift != 6 {
        v.add("R1.mini-shift", format!("mini sector shift is {}, expected 6", mshift));
    }
    if b.get(34..40).map(|s| s.iter().any(|&x| x != 0)).unwrap_or(true) {
        v.add("R1.reserved", "reserved header bytes 34..40 are not all zero".to_string());
    }
    let cutoff = rd_u32(b, 56).unwrap_or(0);
    if cutoff != 4096 {
        v.add("R1.cutoff", format!("mini stream cutoff is {}, expected 4096", cutoff));
    }
    version
}

// ------------------------------------------------------------------ checker

struct Ck<'a> {
    b: &'a [u8],
    sl: usize,
    nsec: u32,
    v: Sink,
    l: Layout,
    /// owner of every regular sector (index < nsec)
    owner: Vec<u32>,
    /// owner of every mini sector that has a MiniFAT cell
    mini_owner: Vec<u32>,
    /// number of FAT sectors (prefix of l.fat_sectors) actually read into l.fat
    fat_sectors_read: usize,
}

impl<'a> Ck<'a> {
    fn sec_off(&self, s: u32) -> usize {
        (s as usize).saturating_add(1).saturating_mul(self.sl)
    }

    /// The whole sector, only if it lies completely inside the file.
    fn sector_full(&self, s: u32) -> Option<&'a [u8]> {
        let off = self.sec_off(s);
        let b: &'a [u8] = self.b;
        b.get(off..off.checked_add(self.sl)?)
    }

    /// Whatever part of the sector lies inside the file (possibly empty).
    fn sector_avail(&self, s: u32) -> &'a [u8] {
        let off = self.sec_off(s);
        let b: &'a [u8] = self.b;
        if off >= b.len() {
            return &[];
        }
        let end = off.saturating_add(self.sl).min(b.len());
        &b[off..end]
    }

    fn eff_size(&self, raw: u64) -> u64 {
        if self.l.version == 3 {
            raw & 0xFFFF_FFFF
        } else {
            raw
        }
    }

    // ------------------------------------------------------------ R10, pad

    fn check_length_and_pad(&mut self) {
        let len = self.b.len();
        if len % self.sl != 0 {
            self.v.add(
                "R10.length",
                format!("file length {} is not a multiple of the sector length {}", len, self.sl),
            );
        }
        if len < 3 * self.sl {
            self.v.add(
                "R10.length",
                format!("file length {} is less than three sectors ({} bytes)", len, 3 * self.sl),
            );
        }
        if self.l.version == 4 {
            let end = len.min(4096);
            if let Some(pad) = self.b.get(HEADER_LEN..end) {
                if let Some(p) = pad.iter().position(|&x| x != 0) {
                    self.v.add(
                        "R1.header-pad",
                        format!("byte {} of the version-4 header sector is {:#04x}, expected 0", HEADER_LEN + p, pad[p]),
                    );
                }
            }
        }
    }

    // --------------------------------------------------------------- DIFAT

    fn read_difat(&mut self) {
        let b = self.b;
        for i in 0..HEADER_DIFAT_SLOTS {
            self.l.difat.push(rd_u32(b, HEADER_DIFAT_OFFSET + 4 * i).unwrap_or(FREESECT));
        }
        let per = self.sl / 4 - 1;
        let mut seen: HashSet<u32> = HashSet::new();
        let mut cur = self.l.hdr_first_difat;
        loop {
            if cur == ENDOFCHAIN {
                break;
            }
            if cur == FREESECT {
                if self.l.difat_sectors.is_empty() {
                    // reported below as R1.num-difat
                } else {
                    self.v.add(
                        "R1.difat-term",
                        "the last DIFAT sector's next pointer is FREESECT, expected ENDOFCHAIN".to_string(),
                    );
                }
                break;
            }
            if cur > MAXREGSECT {
                self.v.add(
                    "R1.difat-term",
                    format!("DIFAT chain ends with {} after {} sectors, expected ENDOFCHAIN", sect_name(cur), self.l.difat_sectors.len()),
                );
                break;
            }
            if cur >= self.nsec {
                self.v.add(
                    "R1.difat-chain",
                    format!("DIFAT chain points to sector {} but the file has only {} sectors", cur, self.nsec),
                );
                break;
            }
            if !seen.insert(cur) {
                self.v.add("R1.difat-chain", format!("DIFAT chain revisits sector {} (cycle)", cur));
                break;
            }
            let sec = match self.sector_full(cur) {
                Some(s) => s,
                None => {
                    self.v.add("R1.difat-chain", format!("DIFAT sector {} is not completely inside the file", cur));
                    break;
                }
            };
            self.l.difat_sectors.push(cur);
            for j in 0..per {
                self.l.difat.push(rd_u32(sec, 4 * j).unwrap_or(FREESECT));
            }
            cur = rd_u32(sec, 4 * per).unwrap_or(ENDOFCHAIN);
        }

        // header first/num DIFAT against the actual chain
        let n = self.l.difat_sectors.len();
        if n == 0 {
            if self.l.hdr_first_difat != ENDOFCHAIN || self.l.hdr_num_difat != 0 {
                self.v.add(
                    "R1.num-difat",
                    format!(
                        "there is no DIFAT chain but the header says first DIFAT sector {} / count {} (expected ENDOFCHAIN / 0)",
                        sect_name(self.l.hdr_first_difat),
                        self.l.hdr_num_difat
                    ),
                );
            }
        } else if self.l.hdr_num_difat as usize != n {
            self.v.add(
                "R1.num-difat",
                format!("header says {} DIFAT sectors but the DIFAT chain has {}", self.l.hdr_num_difat, n),
            );
        }

        // contiguity
        if let Some(first_free) = self.l.difat.iter().position(|&x| x == FREESECT) {
            if let Some(rel) = self.l.difat[first_free..].iter().position(|&x| x != FREESECT) {
                self.v.add(
                    "R1.difat-gap",
                    format!(
                        "DIFAT slot {} is FREESECT but later slot {} holds {}",
                        first_free,
                        first_free + rel,
                        sect_name(self.l.difat[first_free + rel])
                    ),
                );
            }
        }

        self.l.fat_sectors = self.l.difat.iter().copied().filter(|&x| x != FREESECT).collect();
        if self.l.hdr_num_fat as usize != self.l.fat_sectors.len() {
            self.v.add(
                "R1.num-fat",
                format!(
                    "header says {} FAT sectors but the DIFAT lists {}",
                    self.l.hdr_num_fat,
                    self.l.fat_sectors.len()
                ),
            );
        }
    }

    // ----------------------------------------------------------------- FAT

    fn read_fat(&mut self) {
        // DIFAT sectors are owned first
        let ds = self.l.difat_sectors.clone();
        for s in ds {
            if let Some(o) = self.owner.get_mut(s as usize) {
                *o = OWN_DIFAT;
            }
        }
        let fs_list = self.l.fat_sectors.clone();
        let mut building = true;
        for (i, &fs) in fs_list.iter().enumerate() {
            let mut ok = true;
            if fs > MAXREGSECT {
                self.v.add("R1.difat-range", format!("DIFAT entry {} is {}, not a sector number", i, sect_name(fs)));
                ok = false;
            } else if fs >= self.nsec {
                self.v.add(
                    "R1.difat-range",
                    format!("DIFAT entry {} names FAT sector {} but the file has only {} sectors", i, fs, self.nsec),
                );
                ok = false;
            } else {
                let o = self.owner[fs as usize];
                if o != OWN_NONE {
                    self.v.add(
                        "R3.cross-link",
                        format!("FAT sector {} (DIFAT entry {}) is already used by {}", fs, i, owner_label(o)),
                    );
                    ok = false;
                } else if self.sector_full(fs).is_none() {
                    self.v.add("R1.difat-range", format!("FAT sector {} is not completely inside the file", fs));
                    ok = false;
                }
            }
            if !ok {
                building = false;
                continue;
            }
            self.owner[fs as usize] = OWN_FAT;
            if building {
                if let Some(sec) = self.sector_full(fs) {
                    for j in 0..self.sl / 4 {
                        self.l.fat.push(rd_u32(sec, 4 * j).unwrap_or(FREESECT));
                    }
                    self.fat_sectors_read = i + 1;
                }
            }
        }
    }

    /// R2 and the range part of R3 that only needs the FAT itself.
    fn check_fat_cells(&mut self) {
        let covered = (self.nsec as usize).min(self.l.fat.len());
        if self.l.fat.len() < self.nsec as usize {
            self.v.add(
                "R2.fat-short",
                format!("the FAT has {} cells but the file has {} sectors", self.l.fat.len(), self.nsec),
            );
        }
        for k in 0..self.fat_sectors_read {
            let fs = self.l.fat_sectors[k];
            match self.l.fat.get(fs as usize) {
                Some(&FATSECT) => {}
                Some(&c) => self.v.add(
                    "R2.fat-not-marked",
                    format!("FAT sector {} has FAT cell {}, expected FATSECT", fs, sect_name(c)),
                ),
                None => {}
            }
        }
        for k in 0..self.l.difat_sectors.len() {
            let ds = self.l.difat_sectors[k];
            match self.l.fat.get(ds as usize) {
                Some(&DIFSECT) => {}
                Some(&c) => self.v.add(
                    "R2.difat-not-marked",
                    format!("DIFAT sector {} has FAT cell {}, expected DIFSECT", ds, sect_name(c)),
                ),
                None => {}
            }
        }
        for i in 0..covered {
            let c = self.l.fat[i];
            let o = self.owner[i];
            if c == FATSECT && o != OWN_FAT {
                self.v.add("R2.stray-mark", format!("FAT cell {} is FATSECT but sector {} is not listed in the DIFAT", i, i));
            } else if c == DIFSECT && o != OWN_DIFAT {
                self.v.add("R2.stray-mark", format!("FAT cell {} is DIFSECT but sector {} is not in the DIFAT chain", i, i));
            } else if c == RESERVED_SECT {
                self.v.add("R2.bad-cell", format!("FAT cell {} holds the reserved value 0xFFFFFFFB", i));
            } else if c <= MAXREGSECT && c >= self.nsec {
                self.v.add(
                    "R2.bad-cell",
                    format!("FAT cell {} points to sector {} but the file has only {} sectors", i, c, self.nsec),
                );
            }
        }
        for i in covered..self.l.fat.len() {
            let c = self.l.fat[i];
            if c != FREESECT {
                self.v.add(
                    "R3.fat-tail",
                    format!("FAT cell {} is {} but the file has only {} sectors (expected FREESECT)", i, sect_name(c), self.nsec),
                );
            }
        }
    }

    // -------------------------------------------------------- chain walkers

    /// Follows a FAT chain, claiming each sector for `who`.  Stops at the first
    /// problem.  Returns the claimed sectors and whether the chain ended with
    /// ENDOFCHAIN.
    fn walk_chain(&mut self, start: u32, who: u32) -> (Vec<u32>, bool) {
        let mut out: Vec<u32> = Vec::new();
        let mut cur = start;
        let label = owner_label(who);
        loop {
            if cur == ENDOFCHAIN {
                return (out, true);
            }
            if cur > MAXREGSECT {
                self.v.add(
                    "R3.range",
                    format!("chain of {}: link {} after {} sectors is not a sector number", label, sect_name(cur), out.len()),
                );
                return (out, false);
            }
            if cur >= self.nsec {
                self.v.add(
                    "R3.range",
                    format!("chain of {}: sector {} after {} sectors is beyond the file ({} sectors)", label, cur, out.len(), self.nsec),
                );
                return (out, false);
            }
            if cur as usize >= self.l.fat.len() {
                self.v.add(
                    "R3.range",
                    format!("chain of {}: sector {} after {} sectors has no FAT cell", label, cur, out.len()),
                );
                return (out, false);
            }
            let o = self.owner[cur as usize];
            if o == who {
                self.v.add(
                    "R3.cycle",
                    format!("chain of {}: sector {} is visited twice (after {} sectors)", label, cur, out.len()),
                );
                return (out, false);
            }
            if o != OWN_NONE {
                self.v.add(
                    "R3.cross-link",
                    format!("chain of {}: sector {} (after {} sectors) already belongs to {}", label, cur, out.len(), owner_label(o)),
                );
                return (out, false);
            }
            self.owner[cur as usize] = who;
            out.push(cur);
            let next = self.l.fat[cur as usize];
            if next == FREESECT {
                self.v.add(
                    "R3.free-in-chain",
                    format!("chain of {}: sector {} is in the chain but its FAT cell is FREESECT", label, cur),
                );
                return (out, false);
            }
            cur = next;
        }
    }

    /// Same for a MiniFAT chain of stream entry `who`.
    fn walk_mini(&mut self, start: u32, who: u32, root_size: u64) -> (Vec<u32>, bool) {
        let mut out: Vec<u32> = Vec::new();
        let mut cur = start;
        let mut beyond_reported = false;
        loop {
            if cur == ENDOFCHAIN {
                return (out, true);
            }
            if cur > MAXREGSECT {
                self.v.add(
                    "R4.range",
                    format!("mini chain of stream entry {}: link {} after {} mini sectors is not a mini sector number", who, sect_name(cur), out.len()),
                );
                return (out, false);
            }
            if cur as usize >= self.l.minifat.len() {
                self.v.add(
                    "R4.range",
                    format!(
                        "mini chain of stream entry {}: mini sector {} after {} mini sectors has no MiniFAT cell ({} cells)",
                        who,
                        cur,
                        out.len(),
                        self.l.minifat.len()
                    ),
                );
                return (out, false);
            }
            let o = self.mini_owner[cur as usize];
            if o == who {
                self.v.add(
                    "R4.cycle",
                    format!("mini chain of stream entry {}: mini sector {} is visited twice (after {} mini sectors)", who, cur, out.len()),
                );
                return (out, false);
            }
            if o != OWN_NONE {
                self.v.add(
                    "R4.cross-link",
                    format!("mini chain of stream entry {}: mini sector {} (after {} mini sectors) already belongs to stream entry {}", who, cur, out.len(), o),
                );
                return (out, false);
            }
            self.mini_owner[cur as usize] = who;
            out.push(cur);
            if !beyond_reported && (cur as u64 + 1) * MINI_LEN > root_size {
                beyond_reported = true;
                self.v.add(
                    "R4.beyond-ministream",
                    format!("mini chain of stream entry {}: mini sector {} lies beyond the mini stream size {}", who, cur, root_size),
                );
            }
            let next = self.l.minifat[cur as usize];
            if next == FREESECT {
                self.v.add(
                    "R4.free-in-chain",
                    format!("mini chain of stream entry {}: mini sector {} is in the chain but its MiniFAT cell is FREESECT", who, cur),
                );
                return (out, false);
            }
            cur = next;
        }
    }

    // ----------------------------------------------------------- directory

    /// Reads the directory chain and every entry slot.  Returns false when
    /// there is no usable slot 0.
    fn read_directory(&mut self) -> bool {
        let (secs, _complete) = self.walk_chain(self.l.hdr_first_dir, OWN_DIR);
        if secs.is_empty() {
            self.v.add(
                "R1.first-dir",
                format!("first directory sector {} does not start a valid chain", sect_name(self.l.hdr_first_dir)),
            );
        }
        let per = self.sl / ENTRY_LEN;
        'outer: for &s in secs.iter() {
            let avail = self.sector_avail(s);
            let base = self.sec_off(s);
            for k in 0..per {
                let raw = match avail.get(k * ENTRY_LEN..(k + 1) * ENTRY_LEN) {
                    Some(r) => r,
                    None => break 'outer,
                };
                let slot = self.l.entries.len() as u32;
                let mut units = [0u16; 32];
                for (i, u) in units.iter_mut().enumerate() {
                    *u = rd_u16(raw, 2 * i).unwrap_or(0);
                }
                let mut clsid = [0u8; 16];
                clsid.copy_from_slice(&raw[80..96]);
                self.l.entries.push(RawEntry {
                    slot,
                    offset: base + k * ENTRY_LEN,
                    name_units: units,
                    name_len_field: rd_u16(raw, 64).unwrap_or(0),
                    obj_type: raw[66],
                    color: raw[67],
                    left: rd_u32(raw, 68).unwrap_or(NOSTREAM),
                    right: rd_u32(raw, 72).unwrap_or(NOSTREAM),
                    child: rd_u32(raw, 76).unwrap_or(NOSTREAM),
                    clsid_raw: clsid,
                    state_bits: rd_u32(raw, 96).unwrap_or(0),
                    created: rd_u64(raw, 100).unwrap_or(0),
                    modified: rd_u64(raw, 108).unwrap_or(0),
                    start_sector: rd_u32(raw, 116).unwrap_or(0),
                    size: rd_u64(raw, 120).unwrap_or(0),
                    reachable: false,
                });
            }
        }
        self.l.dir_sectors = secs;
        let n = self.l.dir_sectors.len();
        if self.l.version == 3 {
            if self.l.hdr_num_dir != 0 {
                self.v.add(
                    "R1.num-dir",
                    format!("header says {} directory sectors; must be 0 in version 3", self.l.hdr_num_dir),
                );
            }
        } else if self.l.hdr_num_dir as usize != n {
            self.v.add(
                "R1.num-dir",
                format!("header says {} directory sectors but the directory chain has {}", self.l.hdr_num_dir, n),
            );
        }
        !self.l.entries.is_empty()
    }

    /// Per-entry format rules: R8 for unallocated entries, R9 and R6.color for
    /// allocated ones.  Returns the decoded names (None when not valid UTF-16)
    /// and a lossy rendering for the dump.
    fn check_entry_formats(&mut self) -> (Vec<Option<String>>, Vec<String>) {
        let n = self.l.entries.len();
        let mut names_ok: Vec<Option<String>> = Vec::with_capacity(n);
        let mut names_lossy: Vec<String> = Vec::with_capacity(n);
        for i in 0..n {
            let e = self.l.entries[i].clone();
            if e.obj_type == 0 {
                let mut parts: Vec<String> = Vec::new();
                if e.name_units.iter().any(|&u| u != 0) {
                    parts.push("name=nonzero".to_string());
                }
                if e.name_len_field != 0 {
                    parts.push(format!("name_len={}", e.name_len_field));
                }
                if e.color != 0 {
                    parts.push(format!("color={}", e.color));
                }
                if e.left != NOSTREAM {
                    parts.push(format!("left={:#x}", e.left));
                }
                if e.right != NOSTREAM {
                    parts.push(format!("right={:#x}", e.right));
                }
                if e.child != NOSTREAM {
                    parts.push(format!("child={:#x}", e.child));
                }
                if e.clsid_raw.iter().any(|&x| x != 0) {
                    parts.push("clsid=nonzero".to_string());
                }
                if e.state_bits != 0 {
                    parts.push(format!("state={:#x}", e.state_bits));
                }
                if e.created != 0 {
                    parts.push(format!("created={:#x}", e.created));
                }
                if e.modified != 0 {
                    parts.push(format!("modified={:#x}", e.modified));
                }
                if e.start_sector != 0 {
                    parts.push(format!("start={:#x}", e.start_sector));
                }
                if e.size != 0 {
                    parts.push(format!("size={:#x}", e.size));
                }
                if !parts.is_empty() {
                    self.v.add("R8.unallocated-not-blank", format!("slot {}: {}", i, parts.join(" ")));
                }
                names_ok.push(None);
                names_lossy.push(String::new());
                continue;
            }

            // allocated entry
            if e.color > 1 {
                self.v.add("R6.color", format!("slot {}: color byte is {}, expected 0 (red) or 1 (black)", i, e.color));
            }
            let f = e.name_len_field;
            let n_units: usize;
            if f % 2 != 0 || f < 2 || f > 64 {
                self.v.add("R9.name-len", format!("slot {}: name length field is {}, expected an even value in 2..=64", i, f));
                n_units = e.name_units.iter().position(|&u| u == 0).unwrap_or(32);
            } else {
                n_units = (f / 2 - 1) as usize;
                if e.name_units[n_units] != 0 {
                    self.v.add(
                        "R9.terminator",
                        format!("slot {}: unit {} is {:#06x}, expected the terminating NUL (name length field {})", i, n_units, e.name_units[n_units], f),
                    );
                }
                // (a NUL inside the name, before the position the length field gives, is not
                // judged: C09 counts every name without / \ : ! and of at most 31 units as valid,
                // the length field - not the first NUL - delimits the name, and C03's statement
                // has no rule about names.  An earlier version of this rule flagged such names.)
                if let Some(p) = e.name_units[n_units + 1..].iter().position(|&u| u != 0) {
                    self.v.add(
                        "R9.name-padding",
                        format!("slot {}: unit {} after the terminator is {:#06x}, expected 0", i, n_units + 1 + p, e.name_units[n_units + 1 + p]),
                    );
                }
            }
            let units = &e.name_units[..n_units.min(32)];
            let lossy = String::from_utf16_lossy(units);
            let strict = match String::from_utf16(units) {
                Ok(s) => Some(s),
                Err(_) => {
                    self.v.add("R9.utf16", format!("slot {}: name is not valid UTF-16 ({:04x?})", i, units));
                    None
                }
            };
            if let Some(s) = &strict {
                if !names::name_valid(s) {
                    self.v.add("R9.charset", format!("slot {}: name {:?} is not a valid CFB name", i, s));
                }
            }
            if i == 0 && strict.as_deref() != Some("Root Entry") {
                self.v.add("R9.root-name", format!("slot 0 is named {:?}, expected \"Root Entry\"", lossy));
            }
            names_ok.push(strict);
            names_lossy.push(lossy);
        }
        (names_ok, names_lossy)
    }

    // ------------------------------------------------ MiniFAT / mini stream

    /// Reads the MiniFAT chain and the root's mini stream chain, and applies
    /// the root-entry part of R5.  Returns the root's effective size.
    fn read_mini(&mut self) -> u64 {
        let first = self.l.hdr_first_minifat;
        let mut secs: Vec<u32> = Vec::new();
        if first == ENDOFCHAIN || first == FREESECT {
            // no chain
        } else {
            secs = self.walk_chain(first, OWN_MINIFAT).0;
        }
        for &s in secs.iter() {
            let avail = self.sector_avail(s);
            for j in 0..avail.len() / 4 {
                self.l.minifat.push(rd_u32(avail, 4 * j).unwrap_or(FREESECT));
            }
        }
        let n = secs.len();
        self.l.minifat_sectors = secs;
        if n == 0 {
            if first != ENDOFCHAIN || self.l.hdr_num_minifat != 0 {
                self.v.add(
                    "R1.num-minifat",
                    format!(
                        "there is no MiniFAT chain but the header says first MiniFAT sector {} / count {} (expected ENDOFCHAIN / 0)",
                        sect_name(first),
                        self.l.hdr_num_minifat
                    ),
                );
            }
        } else if self.l.hdr_num_minifat as usize != n {
            self.v.add(
                "R1.num-minifat",
                format!("header says {} MiniFAT sectors but the MiniFAT chain has {}", self.l.hdr_num_minifat, n),
            );
        }
        self.mini_owner = vec![OWN_NONE; self.l.minifat.len()];

        // root entry
        let (root_start, root_raw_size) = match self.l.entries.first() {
            Some(r) => (r.start_sector, r.size),
            None => (ENDOFCHAIN, 0),
        };
        let root_size = self.eff_size(root_raw_size);
        if root_start != ENDOFCHAIN {
            self.l.ministream_sectors = self.walk_chain(root_start, OWN_MINISTREAM).0;
        }
        if root_size % MINI_LEN != 0 {
            self.v.add("R5.root-size", format!("root entry size {} is not a multiple of 64", root_size));
        }
        let cap = (self.l.ministream_sectors.len() as u64).saturating_mul(self.sl as u64);
        if cap < root_size {
            self.v.add(
                "R5.root-short",
                format!(
                    "root entry size is {} but its chain has only {} sectors ({} bytes)",
                    root_size,
                    self.l.ministream_sectors.len(),
                    cap
                ),
            );
        }
        if (self.l.minifat.len() as u64) < root_size / MINI_LEN {
            self.v.add(
                "R5.minifat-short",
                format!(
                    "the mini stream has {} mini sectors but the MiniFAT has only {} cells",
                    root_size / MINI_LEN,
                    self.l.minifat.len()
                ),
            );
        }
        root_size
    }

    // ------------------------------------------------------ directory tree

    fn walk_tree(&mut self, names_ok: &[Option<String>]) -> Tree {
        let n = self.l.entries.len();
        let mut t = Tree {
            children_of: vec![Vec::new(); n],
            reach_order: Vec::new(),
            storage_order: Vec::new(),
            max_nest: 0,
        };
        if n == 0 {
            return t;
        }
        let usable: Vec<bool> = names_ok
            .iter()
            .map(|s| match s {
                Some(s) => names::is_agreed(s),
                None => false,
            })
            .collect();
        let name_of = |id: u32| -> &str { names_ok[id as usize].as_deref().unwrap_or("") };

        let mut reached = vec![false; n];
        reached[0] = true;
        t.reach_order.push(0);

        // root entry rules
        {
            let r = &self.l.entries[0];
            let (ty, left, right, color) = (r.obj_type, r.left, r.right, r.color);
            if ty != 5 {
                self.v.add("R6.root-type", format!("slot 0 has object type {}, expected 5 (root storage)", ty));
            }
            if left != NOSTREAM || right != NOSTREAM {
                self.v.add(
                    "R6.root-siblings",
                    format!("root entry has left={:#x} right={:#x}, expected NOSTREAM for both", left, right),
                );
            }
            if color == 0 {
                self.l.red_nodes += 1;
            }
        }

        struct Frame {
            id: u32,
            lo: Option<u32>,
            hi: Option<u32>,
            parent_red: bool,
            depth: usize,
            stage: u8,
        }

        let mut queue: VecDeque<(u32, usize)> = VecDeque::new();
        queue.push_back((0, 0));
        while let Some((sid, nest)) = queue.pop_front() {
            t.storage_order.push(sid);
            if nest > t.max_nest {
                t.max_nest = nest;
            }
            let child = self.l.entries[sid as usize].child;
            if child == NOSTREAM {
                continue;
            }
            if child as usize >= n {
                self.v.add("R6.range", format!("slot {}: child id {:#x} is not below the number of slots {}", sid, child, n));
                continue;
            }
            let mut stack: Vec<Frame> = vec![Frame { id: child, lo: None, hi: None, parent_red: false, depth: 1, stage: 0 }];
            while let Some(top) = stack.last_mut() {
                let id = top.id;
                let e = &self.l.entries[id as usize];
                match top.stage {
                    0 => {
                        if reached[id as usize] {
                            self.v.add(
                                "R6.reached-twice",
                                format!("slot {} is reached a second time (in the sibling tree of storage slot {})", id, sid),
                            );
                            stack.pop();
                            continue;
                        }
                        reached[id as usize] = true;
                        t.reach_order.push(id);
                        let (lo, hi, parent_red, depth) = (top.lo, top.hi, top.parent_red, top.depth);
                        top.stage = 1;
                        let (ty, color, left, right, echild) = (e.obj_type, e.color, e.left, e.right, e.child);
                        if depth > self.l.max_tree_depth {
                            self.l.max_tree_depth = depth;
                        }
                        if color == 0 {
                            self.l.red_nodes += 1;
                            if parent_red {
                                self.v.add(
                                    "R6.red-red",
                                    format!("slot {} is red and its parent in the sibling tree of storage slot {} is red too", id, sid),
                                );
                            }
                        }
                        if left != NOSTREAM && right != NOSTREAM {
                            self.l.nodes_with_two_siblings += 1;
                        }
                        if ty != 1 && ty != 2 {
                            self.v.add(
                                "R6.type",
                                format!("slot {} is reachable but has object type {} (expected 1 or 2)", id, ty),
                            );
                        }
                        if ty == 2 && echild != NOSTREAM {
                            self.v.add("R6.stream-child", format!("stream slot {} has child {:#x}, expected NOSTREAM", id, echild));
                        }
                        if usable[id as usize] {
                            if let Some(lo) = lo {
                                match names::cfb_cmp(name_of(lo), name_of(id)) {
                                    Ordering::Less => {}
                                    Ordering::Equal => self.v.add(
                                        "R6.duplicate",
                                        format!("slots {} and {} in storage slot {} have equal names {:?} / {:?}", lo, id, sid, name_of(lo), name_of(id)),
                                    ),
                                    Ordering::Greater => self.v.add(
                                        "R6.order",
                                        format!("slot {} ({:?}) is in the right subtree of slot {} ({:?}) but sorts before it", id, name_of(id), lo, name_of(lo)),
                                    ),
                                }
                            }
                            if let Some(hi) = hi {
                                match names::cfb_cmp(name_of(id), name_of(hi)) {
                                    Ordering::Less => {}
                                    Ordering::Equal => self.v.add(
                                        "R6.duplicate",
                                        format!("slots {} and {} in storage slot {} have equal names {:?} / {:?}", id, hi, sid, name_of(id), name_of(hi)),
                                    ),
                                    Ordering::Greater => self.v.add(
                                        "R6.order",
                                        format!("slot {} ({:?}) is in the left subtree of slot {} ({:?}) but sorts after it", id, name_of(id), hi, name_of(hi)),
                                    ),
                                }
                            }
                        }
                        if left != NOSTREAM {
                            if left as usize >= n {
                                self.v.add("R6.range", format!("slot {}: left id {:#x} is not below the number of slots {}", id, left, n));
                            } else {
                                let nhi = if usable[id as usize] { Some(id) } else { hi };
                                stack.push(Frame { id: left, lo, hi: nhi, parent_red: color == 0, depth: depth + 1, stage: 0 });
                            }
                        }
                    }
                    1 => {
                        let (lo, hi, depth) = (top.lo, top.hi, top.depth);
                        top.stage = 2;
                        let (ty, color, right) = (e.obj_type, e.color, e.right);
                        if ty == 2 {
                            t.children_of[sid as usize].push(id);
                        } else if ty == 1 || ty == 5 {
                            t.children_of[sid as usize].push(id);
                            queue.push_back((id, nest + 1));
                        }
                        if right != NOSTREAM {
                            if right as usize >= n {
                                self.v.add("R6.range", format!("slot {}: right id {:#x} is not below the number of slots {}", id, right, n));
                            } else {
                                let nlo = if usable[id as usize] { Some(id) } else { lo };
                                stack.push(Frame { id: right, lo: nlo, hi, parent_red: color == 0, depth: depth + 1, stage: 0 });
                            }
                        }
                    }
                    _ => {
                        stack.pop();
                    }
                }
            }
        }
        for (i, r) in reached.iter().enumerate() {
            self.l.entries[i].reachable = *r;
        }
        t
    }

    // -------------------------------------------------------------- streams

    /// R5 / R7 for every reachable entry, and the stream contents.
    fn read_streams(&mut self, t: &Tree, root_size: u64) -> HashMap<u32, Vec<u8>> {
        let mut datas: HashMap<u32, Vec<u8>> = HashMap::new();
        let b = self.b;
        for &id in t.reach_order.iter() {
            if id == 0 {
                continue;
            }
            let e = self.l.entries[id as usize].clone();
            if e.obj_type == 1 {
                if e.start_sector != 0 || e.size != 0 {
                    self.v.add(
                        "R5.storage-fields",
                        format!("storage slot {} has start sector {:#x} and size {}, expected 0 and 0", id, e.start_sector, e.size),
                    );
                }
                continue;
            }
            if e.obj_type != 2 {
                continue;
            }
            if e.clsid_raw.iter().any(|&x| x != 0) {
                self.v.add("R7.stream-clsid", format!("stream slot {} has a non-zero CLSID", id));
            }
            if e.created != 0 || e.modified != 0 {
                self.v.add(
                    "R7.stream-time",
                    format!("stream slot {} has created={:#x} modified={:#x}, expected 0 for both", id, e.created, e.modified),
                );
            }
            let size = self.eff_size(e.size);
            let mut data: Vec<u8> = Vec::new();
            if size == 0 {
                if e.start_sector != ENDOFCHAIN {
                    self.v.add(
                        "R5.empty-start",
                        format!("empty stream slot {} has start sector {}, expected ENDOFCHAIN", id, sect_name(e.start_sector)),
                    );
                }
            } else if size < CUTOFF {
                let calls_before = self.v.calls;
                let (minis, complete) = self.walk_mini(e.start_sector, id, root_size);
                let expected = ceil_div(size, MINI_LEN);
                if complete && minis.len() as u64 != expected {
                    self.v.add(
                        "R5.mini-len",
                        format!("stream slot {} of size {} has a mini chain of {} mini sectors, expected {}", id, size, minis.len(), expected),
                    );
                }
                for &m in minis.iter() {
                    let remaining = size.saturating_sub(data.len() as u64);
                    if remaining == 0 {
                        break;
                    }
                    let take = remaining.min(MINI_LEN) as usize;
                    let pos = m as u64 * MINI_LEN;
                    let si = (pos / self.sl as u64) as usize;
                    let within = (pos % self.sl as u64) as usize;
                    let sec = match self.l.ministream_sectors.get(si) {
                        Some(&s) => s,
                        None => break,
                    };
                    let off = self.sec_off(sec).saturating_add(within);
                    match b.get(off..off.saturating_add(take)) {
                        Some(s) => data.extend_from_slice(s),
                        None => {
                            if let Some(s) = b.get(off..) {
                                data.extend_from_slice(s);
                            }
                            break;
                        }
                    }
                }
                if (data.len() as u64) < size && self.v.calls == calls_before {
                    self.v.add(
                        "R5.mini-len",
                        format!("stream slot {} of size {}: only {} bytes could be read from the mini stream", id, size, data.len()),
                    );
                }
            } else {
                let calls_before = self.v.calls;
                let (secs, complete) = self.walk_chain(e.start_sector, id);
                let expected = ceil_div(size, self.sl as u64);
                if complete && secs.len() as u64 != expected {
                    self.v.add(
                        "R5.chain-len",
                        format!("stream slot {} of size {} has a chain of {} sectors, expected {}", id, size, secs.len(), expected),
                    );
                }
                for &s in secs.iter() {
                    let remaining = size.saturating_sub(data.len() as u64);
                    if remaining == 0 {
                        break;
                    }
                    let take = remaining.min(self.sl as u64) as usize;
                    let avail = self.sector_avail(s);
                    if avail.len() >= take {
                        data.extend_from_slice(&avail[..take]);
                    } else {
                        data.extend_from_slice(avail);
                        break;
                    }
                }
                if (data.len() as u64) < size && self.v.calls == calls_before {
                    self.v.add(
                        "R5.chain-len",
                        format!("stream slot {} of size {}: only {} bytes could be read", id, size, data.len()),
                    );
                }
            }
            datas.insert(id, data);
        }
        datas
    }

    // ------------------------------------------------ final sweeps, summary

    fn sweep(&mut self, root_size: u64) {
        let covered = (self.nsec as usize).min(self.l.fat.len());
        let mut free = 0usize;
        for i in 0..covered {
            let c = self.l.fat[i];
            if c == FREESECT {
                free += 1;
                continue;
            }
            if c == FATSECT || c == DIFSECT {
                continue;
            }
            if self.owner[i] == OWN_NONE {
                self.v.add(
                    "R3.orphan-sector",
                    format!("sector {} is allocated (FAT cell {}) but belongs to no chain", i, sect_name(c)),
                );
            }
        }
        self.l.free_sectors = free;

        let n_mini = (root_size / MINI_LEN).min(self.l.minifat.len() as u64) as usize;
        let mut free_mini = 0usize;
        for i in 0..n_mini {
            let c = self.l.minifat[i];
            if c == FREESECT {
                free_mini += 1;
            } else if self.mini_owner[i] == OWN_NONE {
                self.v.add(
                    "R4.orphan-mini",
                    format!("mini sector {} is allocated (MiniFAT cell {}) but belongs to no stream", i, sect_name(c)),
                );
            }
        }
        for i in n_mini..self.l.minifat.len() {
            let c = self.l.minifat[i];
            if c != FREESECT {
                self.v.add(
                    "R4.minifat-tail",
                    format!("MiniFAT cell {} is {} but the mini stream has only {} mini sectors (expected FREESECT)", i, sect_name(c), root_size / MINI_LEN),
                );
            }
        }
        self.l.free_mini_sectors = free_mini;
        self.l.unallocated_entries = self.l.entries.iter().filter(|e| e.obj_type == 0).count();
        self.l.orphan_entries = self.l.entries.iter().filter(|e| e.obj_type != 0 && !e.reachable).count();
    }
}

struct Tree {
    /// in-order children (streams and storages only) of every storage slot
    children_of: Vec<Vec<u32>>,
    /// every reachable slot, parents before children
    reach_order: Vec<u32>,
    /// every storage that was expanded, parents before children
    storage_order: Vec<u32>,
    max_nest: usize,
}

fn meta_of(e: &RawEntry) -> Meta {
    Meta { clsid: clsid_canonical(&e.clsid_raw), state_bits: e.state_bits, created: e.created, modified: e.modified }
}

fn build_dump(l: &Layout, t: &Tree, lossy: &[String], mut datas: HashMap<u32, Vec<u8>>) -> Option<Dump> {
    let mut built: HashMap<u32, Node> = HashMap::new();
    for &sid in t.storage_order.iter().rev() {
        let e = l.entries.get(sid as usize)?;
        let mut children: Vec<Node> = Vec::new();
        for &c in t.children_of.get(sid as usize)?.iter() {
            let ce = l.entries.get(c as usize)?;
            let name = lossy.get(c as usize).cloned().unwrap_or_default();
            if ce.obj_type == 2 {
                children.push(Node {
                    name,
                    is_stream: true,
                    meta: meta_of(ce),
                    data: datas.remove(&c).unwrap_or_default(),
                    children: Vec::new(),
                });
            } else {
                match built.remove(&c) {
                    Some(nd) => children.push(nd),
                    None => children.push(Node { name, is_stream: false, meta: meta_of(ce), data: Vec::new(), children: Vec::new() }),
                }
            }
        }
        built.insert(
            sid,
            Node {
                name: lossy.get(sid as usize).cloned().unwrap_or_default(),
                is_stream: false,
                meta: meta_of(e),
                data: Vec::new(),
                children,
            },
        );
    }
    built.remove(&0).map(|root| Dump { root })
}

// -------------------------------------------------------------------- check

pub fn check(bytes: &[u8]) -> Parsed {
    let mut sink = Sink::new();
    if bytes.len() < HEADER_LEN {
        return Parsed {
            layout: Layout::default(),
            dump: None,
            violations: Vec::new(),
            fatal: Some(format!("file has {} bytes, less than the 512-byte header", bytes.len())),
        };
    }
    let version = match header_fixed_checks(bytes, &mut sink) {
        Some(v) => v,
        None => {
            return Parsed {
                layout: Layout::default(),
                dump: None,
                violations: sink.list,
                fatal: Some("neither the major version nor the sector shift identifies the sector size".to_string()),
            }
        }
    };
    let sl: usize = if version == 3 { 512 } else { 4096 };
    let total = bytes.len() / sl + if bytes.len() % sl != 0 { 1 } else { 0 };
    let nsec: u32 = total.saturating_sub(1).min(MAXREGSECT as usize) as u32;

    let mut l = Layout::default();
    l.version = version;
    l.sector_len = sl;
    l.num_sectors = nsec;
    l.file_len = bytes.len();
    l.hdr_num_dir = rd_u32(bytes, 40).unwrap_or(0);
    l.hdr_num_fat = rd_u32(bytes, 44).unwrap_or(0);
    l.hdr_first_dir = rd_u32(bytes, 48).unwrap_or(ENDOFCHAIN);
    l.hdr_first_minifat = rd_u32(bytes, 60).unwrap_or(ENDOFCHAIN);
    l.hdr_num_minifat = rd_u32(bytes, 64).unwrap_or(0);
    l.hdr_first_difat = rd_u32(bytes, 68).unwrap_or(ENDOFCHAIN);
    l.hdr_num_difat = rd_u32(bytes, 72).unwrap_or(0);

    let mut ck = Ck {
        b: bytes,
        sl,
        nsec,
        v: sink,
        l,
        owner: vec![OWN_NONE; nsec as usize],
        mini_owner: Vec::new(),
        fat_sectors_read: 0,
    };
    ck.check_length_and_pad();
    ck.read_difat();
    ck.read_fat();
    ck.check_fat_cells();
    if !ck.read_directory() {
        ck.sweep(0);
        return Parsed {
            layout: ck.l,
            dump: None,
            violations: ck.v.list,
            fatal: Some("no readable directory sector / root entry".to_string()),
        };
    }
    let (names_ok, names_lossy) = ck.check_entry_formats();
    let root_size = ck.read_mini();
    let tree = ck.walk_tree(&names_ok);
    let datas = ck.read_streams(&tree, root_size);
    ck.sweep(root_size);

    let mut fatal = None;
    let dump = if tree.max_nest > MAX_NESTING {
        fatal = Some(format!("storages are nested {} deep; no dump is built beyond {}", tree.max_nest, MAX_NESTING));
        None
    } else {
        let d = build_dump(&ck.l, &tree, &names_lossy, datas);
        if d.is_none() {
            fatal = Some("internal: could not assemble the dump".to_string());
        }
        d
    };
    Parsed { layout: ck.l, dump, violations: ck.v.list, fatal }
}

// -------------------------------------------------------------------- tests

#[cfg(test)]
mod tests {
    use super::*;
    use crate::prng::{pattern, Rng};
    use std::io::{Cursor, Write};
    use std::time::{Duration, UNIX_EPOCH};

    type Cf = cfb::CompoundFile<Cursor<Vec<u8>>>;

    fn build(version: cfb::Version, f: impl FnOnce(&mut Cf)) -> Vec<u8> {
        let mut c = cfb::CompoundFile::create_with_version(version, Cursor::new(Vec::new())).unwrap();
        f(&mut c);
        c.flush().unwrap();
        c.into_inner().into_inner()
    }

    fn put(c: &mut Cf, path: &str, nonce: u32, len: usize) {
        let mut s = c.create_stream(path).unwrap();
        s.write_all(&pattern(nonce, 0, len)).unwrap();
        s.flush().unwrap();
    }

    fn find<'a>(n: &'a Node, path: &str) -> Option<&'a Node> {
        let mut cur = n;
        for part in path.split('/').filter(|p| !p.is_empty()) {
            cur = cur.children.iter().find(|c| c.name == part)?;
        }
        Some(cur)
    }

    fn rules(p: &Parsed) -> Vec<&'static str> {
        let mut r: Vec<&'static str> = p.violations.iter().map(|v| v.rule).collect();
        r.sort();
        r.dedup();
        r
    }

    fn has(p: &Parsed, rule: &str) -> bool {
        p.violations.iter().any(|v| v.rule == rule)
    }

    /// Only the known "name_len=2 in unallocated entries" alarm is tolerated.
    fn assert_clean(p: &Parsed) {
        assert!(p.fatal.is_none(), "fatal: {:?}", p.fatal);
        for v in &p.violations {
            let ok = v.rule == "R8.unallocated-not-blank" && (v.msg.ends_with(": name_len=2") || v.msg.contains("suppressed"));
            assert!(ok, "unexpected violation {} : {}", v.rule, v.msg);
        }
        assert!(p.dump.is_some());
    }

    fn entry_by_name<'a>(l: &'a Layout, name: &str) -> &'a RawEntry {
        let want: Vec<u16> = name.encode_utf16().collect();
        l.entries
            .iter()
            .find(|e| e.obj_type != 0 && e.name_len_field as usize == (want.len() + 1) * 2 && e.name_units[..want.len()] == want[..])
            .unwrap_or_else(|| panic!("no entry named {}", name))
    }

    fn set_u32(b: &mut [u8], off: usize, v: u32) {
        b[off..off + 4].copy_from_slice(&v.to_le_bytes());
    }

    const SIZES: &[usize] = &[0, 1, 63, 64, 65, 100, 4095, 4096, 4097, 5000, 70000];

    fn sample(version: cfb::Version) -> Vec<u8> {
        build(version, |c| {
            c.create_storage("/stg").unwrap();
            c.create_storage("/stg/inner").unwrap();
            c.create_storage("/empty").unwrap();
            for (i, &len) in SIZES.iter().enumerate() {
                put(c, &format!("/s{}", len), i as u32 + 1, len);
                put(c, &format!("/stg/t{}", len), i as u32 + 101, len);
            }
            put(c, "/stg/inner/deep", 77, 300);
            let id = uuid::Uuid::parse_str("00112233-4455-6677-8899-aabbccddeeff").unwrap();
            c.set_storage_clsid("/stg", id).unwrap();
            c.set_state_bits("/stg", 0xdead_beef).unwrap();
            c.set_state_bits("/s100", 0x1234).unwrap();
            c.set_created_time("/stg", UNIX_EPOCH + Duration::from_secs(1_000_000)).unwrap();
            c.set_modified_time("/stg", UNIX_EPOCH + Duration::from_secs(2_000_000)).unwrap();
        })
    }

    fn check_sample(version: cfb::Version, vnum: u16, sl: usize) {
        let img = sample(version);
        let p = check(&img);
        assert_clean(&p);
        let l = &p.layout;
        assert_eq!(l.version, vnum);
        assert_eq!(l.sector_len, sl);
        assert_eq!(l.file_len, img.len());
        assert_eq!(l.num_sectors as usize, img.len() / sl - 1);
        assert_eq!(l.difat.len(), 109);
        assert!(l.difat_sectors.is_empty());
        assert_eq!(l.fat.len(), l.fat_sectors.len() * sl / 4);
        assert_eq!(l.orphan_entries, 0);
        let d = p.dump.as_ref().unwrap();
        assert_eq!(d.root.name, "Root Entry");
        assert!(!d.root.is_stream);
        assert_eq!(d.root.count(), 1 + 3 + 2 * SIZES.len() + 1);
        for (i, &len) in SIZES.iter().enumerate() {
            let a = find(&d.root, &format!("/s{}", len)).unwrap();
            assert!(a.is_stream);
            assert_eq!(a.data, pattern(i as u32 + 1, 0, len), "s{}", len);
            let b = find(&d.root, &format!("/stg/t{}", len)).unwrap();
            assert_eq!(b.data, pattern(i as u32 + 101, 0, len), "t{}", len);
            assert_eq!(b.meta, Meta::default());
        }
        assert_eq!(find(&d.root, "/stg/inner/deep").unwrap().data, pattern(77, 0, 300));
        assert!(find(&d.root, "/empty").unwrap().children.is_empty());
        let stg = find(&d.root, "/stg").unwrap();
        assert!(!stg.is_stream);
        assert_eq!(
            stg.meta.clsid,
            [0x00, 0x11, 0x22, 0x33, 0x44, 0x55, 0x66, 0x77, 0x88, 0x99, 0xaa, 0xbb, 0xcc, 0xdd, 0xee, 0xff]
        );
        assert_eq!(stg.meta.state_bits, 0xdead_beef);
        assert_eq!(stg.meta.created, (1_000_000u64 + 11_644_473_600) * 10_000_000);
        assert_eq!(stg.meta.modified, (2_000_000u64 + 11_644_473_600) * 10_000_000);
        assert_eq!(find(&d.root, "/s100").unwrap().meta.state_bits, 0x1234);
        // children come out in name order
        for st in [&d.root, stg] {
            for w in st.children.windows(2) {
                assert_eq!(names::cfb_cmp(&w[0].name, &w[1].name), Ordering::Less);
            }
        }
        // and the library reads the same thing back
        let c = cfb::CompoundFile::open(Cursor::new(img.clone())).unwrap();
        let listed: Vec<String> = c.read_storage("/stg").unwrap().map(|e| e.name().to_string()).collect();
        let mine: Vec<String> = stg.children.iter().map(|n| n.name.clone()).collect();
        assert_eq!(listed, mine);
    }

    #[test]
    fn library_sample_v3() {
        check_sample(cfb::Version::V3, 3, 512);
    }

    #[test]
    fn library_sample_v4() {
        check_sample(cfb::Version::V4, 4, 4096);
    }

    #[test]
    fn empty_files() {
        for (v, sl) in [(cfb::Version::V3, 512usize), (cfb::Version::V4, 4096usize)] {
            let img = build(v, |_| {});
            assert_eq!(img.len(), 3 * sl);
            let p = check(&img);
            assert_clean(&p);
            assert_eq!(p.dump.unwrap(), Dump::empty());
            assert_eq!(p.layout.num_sectors, 2);
            assert_eq!(p.layout.fat_sectors, vec![0]);
            assert_eq!(p.layout.dir_sectors, vec![1]);
            assert_eq!(p.layout.entries.len(), sl / 128);
            assert_eq!(p.layout.unallocated_entries, sl / 128 - 1);
        }
    }

    #[test]
    fn many_entries() {
        for v in [cfb::Version::V3, cfb::Version::V4] {
            let mut rng = Rng::new(7);
            // BMP-only names: for astral vs. U+E000..U+FFFF the library's order is
            // a known defect (see `astral_order_is_judged_by_code_units`)
            let pool: Vec<String> = names::gen_pool(&mut rng, names::NameClass::Agreed, 400)
                .into_iter()
                .filter(|n| n.chars().all(|c| (c as u32) < 0x10000))
                .take(300)
                .collect();
            assert!(pool.len() >= 250);
            let img = build(v, |c| {
                c.create_storage("/big").unwrap();
                for (i, n) in pool.iter().enumerate() {
                    if i % 5 == 0 {
                        c.create_storage(format!("/big/{}", n)).unwrap();
                    } else {
                        put(c, &format!("/big/{}", n), i as u32, (i * 37) % 200);
                    }
                }
            });
            let p = check(&img);
            assert_clean(&p);
            let d = p.dump.as_ref().unwrap();
            let big = find(&d.root, "/big").unwrap();
            assert_eq!(big.children.len(), pool.len());
            for w in big.children.windows(2) {
                assert_eq!(names::cfb_cmp(&w[0].name, &w[1].name), Ordering::Less);
            }
            for (i, n) in pool.iter().enumerate() {
                let nd = big.children.iter().find(|c| &c.name == n).unwrap();
                if i % 5 == 0 {
                    assert!(!nd.is_stream);
                } else {
                    assert_eq!(nd.data, pattern(i as u32, 0, (i * 37) % 200));
                }
            }
            assert!(p.layout.max_tree_depth >= 9 && p.layout.max_tree_depth <= 20, "depth {}", p.layout.max_tree_depth);
            assert!(p.layout.nodes_with_two_siblings > 50);
            assert!(p.layout.dir_sectors.len() > 1);
        }
    }

    /// MS-CFB orders names by UTF-16 code units, so a surrogate pair (0xD8xx..)
    /// sorts before U+E000..U+FFFF.  A writer that compares code points gets
    /// this wrong; the checker must say R6.order and nothing else.
    #[test]
    fn astral_order_is_judged_by_code_units() {
        let img = build(cfb::Version::V3, |c| {
            put(c, "/\u{e000}x", 1, 1);
            put(c, "/\u{20000}", 2, 1);
            put(c, "/\u{ff61}y", 3, 1);
        });
        let p = check(&img);
        for v in &p.violations {
            assert!(v.rule == "R8.unallocated-not-blank" || v.rule == "R6.order", "{} {}", v.rule, v.msg);
        }
        if has(&p, "R6.order") {
            eprintln!("library orders astral names by code point: {}", p.violations.iter().find(|v| v.rule == "R6.order").unwrap().msg);
        }
        // hand-made correct order: pair first
        assert_eq!(names::cfb_cmp("\u{20000}", "\u{e000}x"), Ordering::Less);
    }

    #[test]
    fn difat_chain_v3() {
        // more than 109 FAT sectors: > 109*128 sectors of 512 bytes
        let len = 110 * 128 * 512 + 1000;
        let img = build(cfb::Version::V3, |c| {
            put(c, "/huge", 9, len);
            put(c, "/small", 10, 10);
        });
        let p = check(&img);
        assert_clean(&p);
        assert!(p.layout.fat_sectors.len() > 109);
        assert_eq!(p.layout.difat_sectors.len(), 1);
        assert_eq!(p.layout.difat.len(), 109 + 127);
        let d = p.dump.unwrap();
        assert_eq!(find(&d.root, "/huge").unwrap().data, pattern(9, 0, len));
        assert_eq!(find(&d.root, "/small").unwrap().data, pattern(10, 0, 10));
        // locators agree with the parsed tables
        let l = &p.layout;
        for s in [0u32, 1, 127, 128, 13951, 13952, l.num_sectors - 1] {
            let off = fat_cell_offset(l, s).unwrap();
            assert_eq!(rd_u32(&img, off), Some(l.fat[s as usize]));
        }
        for i in [0usize, 108, 109, 110, 200] {
            let off = difat_slot_offset(l, i).unwrap();
            assert_eq!(rd_u32(&img, off), Some(l.difat[i]));
        }
        assert!(difat_slot_offset(l, 109 + 127).is_none());
    }

    // ------------------------------------------------ targeted corruptions

    fn small_v3() -> Vec<u8> {
        build(cfb::Version::V3, |c| {
            c.create_storage("/d").unwrap();
            put(c, "/d/a", 1, 100);
            put(c, "/d/b", 2, 200);
            put(c, "/d/c", 3, 300);
            put(c, "/big1", 4, 5000);
            put(c, "/big2", 5, 6000);
            put(c, "/zero", 6, 0);
        })
    }

    fn corrupt(img: &[u8], f: impl FnOnce(&mut Vec<u8>, &Layout)) -> Parsed {
        let base = check(img);
        assert_clean(&base);
        let mut m = img.to_vec();
        f(&mut m, &base.layout);
        check(&m)
    }

    #[test]
    fn header_corruptions() {
        let img = small_v3();
        let cases: &[(&str, &str)] = &[
            ("signature", "R1.signature"),
            ("clsid", "R1.clsid"),
            ("minor_version", "R1.minor"),
            ("byte_order", "R1.byte-order"),
            ("mini_sector_shift", "R1.mini-shift"),
            ("reserved", "R1.reserved"),
            ("num_dir_sectors", "R1.num-dir"),
            ("num_fat_sectors", "R1.num-fat"),
            ("mini_stream_cutoff", "R1.cutoff"),
            ("num_minifat_sectors", "R1.num-minifat"),
            ("num_difat_sectors", "R1.num-difat"),
        ];
        for (field, rule) in cases {
            let (_, off, _) = header_field_offsets().into_iter().find(|(n, _, _)| n == field).unwrap();
            let p = corrupt(&img, |m, _| m[off] ^= 0x01);
            assert!(has(&p, rule), "{}: {:?}", field, rules(&p));
            assert!(p.dump.is_some(), "{}", field);
        }
        // major 3 -> 2 with a good sector shift: still readable
        let p = corrupt(&img, |m, _| m[26] = 2);
        assert!(has(&p, "R1.major") && p.dump.is_some());
        // both unusable: fatal, default layout
        let p = corrupt(&img, |m, _| {
            m[26] = 9;
            m[30] = 10;
        });
        assert!(p.fatal.is_some() && p.dump.is_none() && p.layout.sector_len == 0);
        // a used slot after a free one
        let p = corrupt(&img, |m, _| set_u32(m, 76 + 8, 0));
        assert!(has(&p, "R1.difat-gap"), "{:?}", rules(&p));
        // first DIFAT FREESECT instead of ENDOFCHAIN
        let p = corrupt(&img, |m, _| set_u32(m, 68, FREESECT));
        assert!(has(&p, "R1.num-difat"));
        // first MiniFAT
        let p = corrupt(&img, |m, _| set_u32(m, 60, ENDOFCHAIN));
        assert!(has(&p, "R1.num-minifat"), "{:?}", rules(&p));
        // v4 header padding
        let img4 = build(cfb::Version::V4, |c| put(c, "/x", 1, 10));
        let p = corrupt(&img4, |m, _| m[3000] = 1);
        assert_eq!(rules(&p).into_iter().filter(|r| !r.starts_with("R8")).collect::<Vec<_>>(), vec!["R1.header-pad"]);
        // length
        let mut t = img.clone();
        t.push(0);
        assert!(has(&check(&t), "R10.length"));
        t.truncate(img.len() - 1);
        assert!(has(&check(&t), "R10.length"));
        assert_eq!(header_field_offsets().len(), 17 + 109);
        let total: usize = header_field_offsets().iter().map(|f| f.2).sum();
        assert_eq!(total, 512);
        let total: usize = entry_field_offsets().iter().map(|f| f.2).sum();
        assert_eq!(total, 128);
    }

    #[test]
    fn fat_corruptions() {
        let img = small_v3();
        // cycle
        let p = corrupt(&img, |m, l| {
            let s = entry_by_name(l, "big1").start_sector;
            set_u32(m, fat_cell_offset(l, s).unwrap(), s);
        });
        assert!(has(&p, "R3.cycle") && has(&p, "R3.orphan-sector"), "{:?}", rules(&p));
        assert!(p.dump.is_some());
        // cross-link
        let p = corrupt(&img, |m, l| {
            let a = entry_by_name(l, "big1").start_sector;
            let b = entry_by_name(l, "big2").start_sector;
            set_u32(m, fat_cell_offset(l, a).unwrap(), b);
        });
        assert!(has(&p, "R3.cross-link"), "{:?}", rules(&p));
        // stray mark + range
        let p = corrupt(&img, |m, l| {
            let a = entry_by_name(l, "big1").start_sector;
            set_u32(m, fat_cell_offset(l, a).unwrap(), FATSECT);
        });
        assert!(has(&p, "R2.stray-mark") && has(&p, "R3.range"), "{:?}", rules(&p));
        // FAT sector not marked
        let p = corrupt(&img, |m, l| set_u32(m, fat_cell_offset(l, l.fat_sectors[0]).unwrap(), ENDOFCHAIN));
        assert!(has(&p, "R2.fat-not-marked"), "{:?}", rules(&p));
        // free in chain
        let p = corrupt(&img, |m, l| {
            let a = entry_by_name(l, "big2").start_sector;
            set_u32(m, fat_cell_offset(l, a).unwrap(), FREESECT);
        });
        assert!(has(&p, "R3.free-in-chain"), "{:?}", rules(&p));
        // bad cells
        let p = corrupt(&img, |m, l| {
            let a = entry_by_name(l, "big2").start_sector;
            set_u32(m, fat_cell_offset(l, a).unwrap(), 0xFFFF_FFFB);
        });
        assert!(has(&p, "R2.bad-cell"), "{:?}", rules(&p));
        let p = corrupt(&img, |m, l| {
            let a = entry_by_name(l, "big2").start_sector;
            set_u32(m, fat_cell_offset(l, a).unwrap(), l.num_sectors);
        });
        assert!(has(&p, "R2.bad-cell") && has(&p, "R3.range"), "{:?}", rules(&p));
        // tail
        let p = corrupt(&img, |m, l| set_u32(m, fat_cell_offset(l, l.num_sectors).unwrap(), ENDOFCHAIN));
        assert_eq!(rules(&p).into_iter().filter(|r| !r.starts_with("R8")).collect::<Vec<_>>(), vec!["R3.fat-tail"]);
        // chain one sector short / stream declared shorter than its chain
        let p = corrupt(&img, |m, l| {
            let e = entry_by_name(l, "big1");
            m[e.offset + 120..e.offset + 128].copy_from_slice(&4096u64.to_le_bytes());
        });
        assert!(has(&p, "R5.chain-len"), "{:?}", rules(&p));
        // v3 ignores the high half of the size
        let p = corrupt(&img, |m, l| {
            let e = entry_by_name(l, "big1");
            m[e.offset + 124] = 0x55;
        });
        assert_clean(&p);
        assert_eq!(find(&p.dump.unwrap().root, "/big1").unwrap().data, pattern(4, 0, 5000));
        // stream dropped from the directory's view: its sectors become orphans
        let p = corrupt(&img, |m, l| {
            let e = entry_by_name(l, "big1");
            m[e.offset + 120..e.offset + 128].copy_from_slice(&0u64.to_le_bytes());
            set_u32(m, e.offset + 116, ENDOFCHAIN);
        });
        assert_eq!(rules(&p).into_iter().filter(|r| !r.starts_with("R8")).collect::<Vec<_>>(), vec!["R3.orphan-sector"]);
        // empty stream with a start sector
        let p = corrupt(&img, |m, l| set_u32(m, entry_by_name(l, "zero").offset + 116, 0));
        assert!(has(&p, "R5.empty-start"), "{:?}", rules(&p));
    }

    #[test]
    fn mini_corruptions() {
        let img = small_v3();
        let p = corrupt(&img, |m, l| {
            let s = entry_by_name(l, "c").start_sector;
            set_u32(m, minifat_cell_offset(l, s).unwrap(), s);
        });
        assert!(has(&p, "R4.cycle") && has(&p, "R4.orphan-mini"), "{:?}", rules(&p));
        let p = corrupt(&img, |m, l| {
            let a = entry_by_name(l, "c").start_sector;
            let b = entry_by_name(l, "b").start_sector;
            set_u32(m, minifat_cell_offset(l, a).unwrap(), b);
        });
        assert!(has(&p, "R4.cross-link"), "{:?}", rules(&p));
        let p = corrupt(&img, |m, l| {
            let a = entry_by_name(l, "c").start_sector;
            set_u32(m, minifat_cell_offset(l, a).unwrap(), FREESECT);
        });
        assert!(has(&p, "R4.free-in-chain"), "{:?}", rules(&p));
        let p = corrupt(&img, |m, l| {
            let a = entry_by_name(l, "c").start_sector;
            set_u32(m, minifat_cell_offset(l, a).unwrap(), 100_000);
        });
        assert!(has(&p, "R4.range"), "{:?}", rules(&p));
        // declared size vs chain length
        let p = corrupt(&img, |m, l| {
            let e = entry_by_name(l, "c");
            m[e.offset + 120..e.offset + 128].copy_from_slice(&10u64.to_le_bytes());
        });
        assert!(has(&p, "R5.mini-len"), "{:?}", rules(&p));
        assert_eq!(find(&p.dump.unwrap().root, "/d/c").unwrap().data, pattern(3, 0, 10));
        // root size shrunk: used mini sectors fall outside
        let p = corrupt(&img, |m, l| {
            let e = &l.entries[0];
            m[e.offset + 120..e.offset + 128].copy_from_slice(&64u64.to_le_bytes());
        });
        assert!(has(&p, "R4.beyond-ministream") && has(&p, "R4.minifat-tail"), "{:?}", rules(&p));
        let p = corrupt(&img, |m, l| {
            let e = &l.entries[0];
            m[e.offset + 120..e.offset + 128].copy_from_slice(&(e.size + 1).to_le_bytes());
        });
        assert!(has(&p, "R5.root-size"), "{:?}", rules(&p));
        let p = corrupt(&img, |m, l| {
            let e = &l.entries[0];
            m[e.offset + 120..e.offset + 128].copy_from_slice(&(64u64 * 100_000).to_le_bytes());
        });
        assert!(has(&p, "R5.root-short") && has(&p, "R5.minifat-short"), "{:?}", rules(&p));
    }

    #[test]
    fn directory_corruptions() {
        let img = small_v3();
        let only = |p: &Parsed| rules(p).into_iter().filter(|r| !r.starts_with("R8")).collect::<Vec<_>>();
        // smallest name of /d made the largest
        let p = corrupt(&img, |m, l| m[entry_by_name(l, "a").offset] = b'z');
        assert_eq!(only(&p), vec!["R6.order"]);
        let p = corrupt(&img, |m, l| m[entry_by_name(l, "a").offset] = b'B');
        assert_eq!(only(&p), vec!["R6.duplicate"]);
        let p = corrupt(&img, |m, l| m[entry_by_name(l, "a").offset + 67] = 2);
        assert_eq!(only(&p), vec!["R6.color"]);
        // all of /d red
        let p = corrupt(&img, |m, l| {
            for n in ["a", "b", "c"] {
                m[entry_by_name(l, n).offset + 67] = 0;
            }
        });
        assert_eq!(only(&p), vec!["R6.red-red"]);
        let p = corrupt(&img, |m, l| m[l.entries[0].offset + 66] = 1);
        assert!(has(&p, "R6.root-type"));
        let p = corrupt(&img, |m, l| set_u32(m, l.entries[0].offset + 68, 1));
        assert_eq!(only(&p), vec!["R6.root-siblings"]);
        let p = corrupt(&img, |m, l| m[entry_by_name(l, "a").offset + 66] = 5);
        assert!(has(&p, "R6.type"));
        let p = corrupt(&img, |m, l| m[entry_by_name(l, "a").offset + 66] = 0);
        assert!(has(&p, "R6.type") && has(&p, "R8.unallocated-not-blank"));
        let p = corrupt(&img, |m, l| set_u32(m, entry_by_name(l, "d").offset + 76, 5000));
        assert!(has(&p, "R6.range"), "{:?}", only(&p));
        // child of /d points back at /d
        let p = corrupt(&img, |m, l| {
            let e = entry_by_name(l, "d");
            set_u32(m, e.offset + 76, e.slot);
        });
        assert!(has(&p, "R6.reached-twice"), "{:?}", only(&p));
        assert!(p.layout.orphan_entries >= 3);
        let p = corrupt(&img, |m, l| set_u32(m, entry_by_name(l, "zero").offset + 76, 0));
        assert_eq!(only(&p), vec!["R6.stream-child"]);
        let p = corrupt(&img, |m, l| m[entry_by_name(l, "zero").offset + 80] = 1);
        assert_eq!(only(&p), vec!["R7.stream-clsid"]);
        let p = corrupt(&img, |m, l| m[entry_by_name(l, "zero").offset + 100] = 1);
        assert_eq!(only(&p), vec!["R7.stream-time"]);
        let p = corrupt(&img, |m, l| m[entry_by_name(l, "zero").offset + 110] = 1);
        assert_eq!(only(&p), vec!["R7.stream-time"]);
        let p = corrupt(&img, |m, l| set_u32(m, entry_by_name(l, "d").offset + 116, ENDOFCHAIN));
        assert_eq!(only(&p), vec!["R5.storage-fields"]);
        // names
        let p = corrupt(&img, |m, l| m[entry_by_name(l, "zero").offset + 64] = 11);
        assert!(has(&p, "R9.name-len"), "{:?}", only(&p));
        let p = corrupt(&img, |m, l| m[entry_by_name(l, "zero").offset + 64] = 8);
        assert!(has(&p, "R9.terminator"), "{:?}", only(&p));
        let p = corrupt(&img, |m, l| m[entry_by_name(l, "zero").offset + 64] = 12);
        assert!(has(&p, "R9.terminator"), "{:?}", only(&p));
        let p = corrupt(&img, |m, l| m[entry_by_name(l, "zero").offset + 40] = 1);
        assert_eq!(only(&p), vec!["R9.name-padding"]);
        let p = corrupt(&img, |m, l| m[entry_by_name(l, "zero").offset + 1] = 0xD8);
        assert!(has(&p, "R9.utf16"), "{:?}", only(&p));
        let p = corrupt(&img, |m, l| m[entry_by_name(l, "zero").offset] = b':');
        assert!(has(&p, "R9.charset"), "{:?}", only(&p));
        let p = corrupt(&img, |m, l| m[l.entries[0].offset] = b'r');
        assert_eq!(only(&p), vec!["R9.root-name"]);
        // directory start
        let p = corrupt(&img, |m, _| set_u32(m, 48, ENDOFCHAIN));
        assert!(has(&p, "R1.first-dir") && p.fatal.is_some() && p.dump.is_none());
    }

    #[test]
    fn disputed_names_are_not_judged() {
        // a tree that is only mis-ordered with respect to a disputed name is not reported
        let img = build(cfb::Version::V3, |c| {
            put(c, "/m", 1, 1);
            put(c, "/a", 2, 1);
            put(c, "/z", 3, 1);
        });
        let p = corrupt(&img, |m, l| {
            let e = entry_by_name(l, "a");
            // U+00DF sharp s: disputed
            m[e.offset] = 0xDF;
        });
        assert!(!has(&p, "R6.order") && !has(&p, "R6.duplicate"), "{:?}", rules(&p));
    }

    // ---------------------------------------------------------------- fuzz

    #[test]
    fn fuzz_never_panics_and_terminates() {
        let bases: Vec<Vec<u8>> = vec![
            small_v3(),
            build(cfb::Version::V4, |c| {
                c.create_storage("/d").unwrap();
                put(c, "/d/a", 1, 100);
                put(c, "/big", 2, 9000);
            }),
            sample(cfb::Version::V3),
        ];
        const INTERESTING: &[u32] = &[0, 1, 2, 3, 7, 0x7fff_ffff, 0xFFFF_FFFA, 0xFFFF_FFFB, 0xFFFF_FFFC, 0xFFFF_FFFD, 0xFFFF_FFFE, 0xFFFF_FFFF];
        let started = std::time::Instant::now();
        let mut n = 0u32;
        let mut slowest = Duration::ZERO;
        for case in 0..4000u64 {
            let mut rng = Rng::for_case(1, "imgck.fuzz", case);
            let base = &bases[rng.usize_below(bases.len())];
            let mut m = base.clone();
            match rng.below(6) {
                0 => {
                    for _ in 0..rng.range(1, 8) {
                        let i = rng.usize_below(m.len());
                        m[i] ^= 1 << rng.below(8);
                    }
                }
                1 => {
                    let keep = rng.usize_below(m.len() + 1);
                    m.truncate(keep);
                }
                2 => {
                    let len = rng.usize_below(6000);
                    m = (0..len).map(|_| rng.next_u64() as u8).collect();
                    if rng.chance(1, 2) && m.len() >= 32 {
                        m[..8].copy_from_slice(&SIGNATURE);
                        m[26] = if rng.chance(1, 2) { 3 } else { 4 };
                        m[27] = 0;
                        m[30] = if rng.chance(1, 2) { 9 } else { 12 };
                        m[31] = 0;
                    }
                }
                3 => {
                    // aligned words replaced by interesting values, anywhere
                    for _ in 0..rng.range(1, 6) {
                        let i = rng.usize_below(m.len() / 4) * 4;
                        let v = if rng.chance(3, 4) { *rng.pick(INTERESTING) } else { rng.below(64) as u32 };
                        set_u32(&mut m, i, v);
                    }
                }
                4 => {
                    // structure-aware: FAT / MiniFAT cells and entry link fields
                    let l = check(base).layout;
                    for _ in 0..rng.range(1, 5) {
                        let v = if rng.chance(1, 2) { *rng.pick(INTERESTING) } else { rng.below(l.num_sectors as u64 + 2) as u32 };
                        let off = match rng.below(4) {
                            0 => fat_cell_offset(&l, rng.below(l.fat.len() as u64) as u32),
                            1 if !l.minifat.is_empty() => minifat_cell_offset(&l, rng.below(l.minifat.len() as u64) as u32),
                            2 => {
                                let e = rng.pick(&l.entries);
                                Some(e.offset + *rng.pick(&[68usize, 72, 76, 116, 120]))
                            }
                            _ => Some(*rng.pick(&[40usize, 44, 48, 60, 64, 68, 72, 76, 80])),
                        };
                        if let Some(off) = off {
                            set_u32(&mut m, off, v);
                        }
                    }
                }
                _ => {
                    // a block of the file overwritten with noise or with 0xFF
                    let start = rng.usize_below(m.len());
                    let len = rng.usize_below(700).min(m.len() - start);
                    let ff = rng.chance(1, 2);
                    for x in &mut m[start..start + len] {
                        *x = if ff { 0xFF } else { rng.next_u64() as u8 };
                    }
                }
            }
            let t0 = std::time::Instant::now();
            let p = check(&m);
            let dt = t0.elapsed();
            if dt > slowest {
                slowest = dt;
            }
            // the result is self-consistent
            assert!(p.dump.is_some() || p.fatal.is_some());
            let mut seen = HashSet::new();
            for v in &p.violations {
                assert!(v.rule.starts_with('R'));
                assert!(seen.insert((v.rule, v.msg.clone())), "duplicate {} {}", v.rule, v.msg);
            }
            if let Some(d) = &p.dump {
                let total: usize = {
                    fn sum(n: &Node) -> usize {
                        n.data.len() + n.children.iter().map(sum).sum::<usize>()
                    }
                    sum(&d.root)
                };
                assert!(total <= m.len());
            }
            // locators never panic either
            let l = &p.layout;
            for s in [0u32, 1, l.num_sectors, u32::MAX] {
                let _ = fat_cell_offset(l, s);
                let _ = minifat_cell_offset(l, s);
                let _ = sector_offset(l, s);
                let _ = difat_slot_offset(l, s as usize);
            }
            n += 1;
        }
        assert_eq!(n, 4000);
        assert!(slowest < Duration::from_secs(1), "slowest check took {:?}", slowest);
        assert!(started.elapsed() < Duration::from_secs(60), "took {:?}", started.elapsed());
    }

    #[test]
    fn adversarial_shapes_terminate() {
        // a directory that is one long left spine of storages nested in each other,
        // and a sibling list as long as the directory: neither recursion nor
        // quadratic work.
        let n_slots: u32 = 40_000;
        let dir_secs = n_slots / 4;
        let total_secs = dir_secs + 400;
        let fat_secs = 400u32;
        let mut img = vec![0u8; 512 * (1 + total_secs as usize)];
        img[..8].copy_from_slice(&SIGNATURE);
        img[24] = 0x3E;
        img[26] = 3;
        img[28] = 0xFE;
        img[29] = 0xFF;
        img[30] = 9;
        img[32] = 6;
        set_u32(&mut img, 44, fat_secs.min(109));
        set_u32(&mut img, 48, fat_secs);
        set_u32(&mut img, 56, 4096);
        set_u32(&mut img, 60, ENDOFCHAIN);
        set_u32(&mut img, 68, ENDOFCHAIN);
        for i in 0..109u32 {
            set_u32(&mut img, 76 + 4 * i as usize, if i < fat_secs { i } else { FREESECT });
        }
        // FAT: sectors 0..fat_secs are FAT (only 109 listed), then the directory chain
        for s in 0..total_secs {
            let v = if s < fat_secs {
                FATSECT
            } else if s + 1 < total_secs {
                s + 1
            } else {
                ENDOFCHAIN
            };
            if s / 128 < 109 {
                set_u32(&mut img, 512 * (1 + (s / 128) as usize) + 4 * (s % 128) as usize, v);
            }
        }
        for mode in 0..2 {
            let mut m = img.clone();
            for slot in 0..n_slots {
                let off = 512 * (1 + fat_secs as usize) + 128 * slot as usize;
                let name: Vec<u16> = if slot == 0 { "Root Entry".encode_utf16().collect() } else { format!("n{:07}", slot).encode_utf16().collect() };
                for (i, u) in name.iter().enumerate() {
                    m[off + 2 * i..off + 2 * i + 2].copy_from_slice(&u.to_le_bytes());
                }
                m[off + 64] = ((name.len() + 1) * 2) as u8;
                m[off + 66] = if slot == 0 { 5 } else { 1 };
                m[off + 67] = 1;
                set_u32(&mut m, off + 68, NOSTREAM);
                set_u32(&mut m, off + 72, NOSTREAM);
                set_u32(&mut m, off + 76, NOSTREAM);
                let next = if slot + 1 < n_slots { slot + 1 } else { NOSTREAM };
                if slot == 0 || mode == 0 {
                    set_u32(&mut m, off + 76, next); // nesting
                } else {
                    set_u32(&mut m, off + 72, next); // right spine
                }
                if slot == 0 {
                    set_u32(&mut m, off + 116, ENDOFCHAIN);
                }
            }
            let t0 = std::time::Instant::now();
            let p = check(&m);
            assert!(t0.elapsed() < Duration::from_secs(5), "{:?}", t0.elapsed());
            assert_eq!(p.layout.entries.len() as u32, n_slots);
            assert_eq!(p.layout.orphan_entries, 0);
            if mode == 0 {
                assert!(p.dump.is_none() && p.fatal.is_some());
            } else {
                let d = p.dump.unwrap();
                assert_eq!(d.root.children.len() as u32, n_slots - 1);
                assert_eq!(p.layout.max_tree_depth as u32, n_slots - 1);
                assert!(!p.violations.iter().any(|v| v.rule.starts_with("R6")), "{:?}", p.violations.iter().map(|v| v.rule).collect::<HashSet<_>>());
            }
        }
    }
}
