//! `SimDisk`: the only disk the library sees.  A byte image behind
//! `Read + Write + Seek`, an event counter `k` incremented on every seam call,
//! a fault plan keyed by `k`, per-kind counters of faults that actually fired,
//! and a running hash of the complete seam event log.

use crate::prng::{Fnv, Rng};
use std::cell::RefCell;
use std::collections::BTreeMap;
use std::io::{self, Read, Seek, SeekFrom, Write};
use std::rc::Rc;

#[derive(Clone, Copy, Debug, PartialEq, Eq)]
pub enum Seam {
    Read,
    Write,
    Seek,
    Flush,
}

impl Seam {
    pub fn name(self) -> &'static str {
        match self {
            Seam::Read => "read",
            Seam::Write => "write",
            Seam::Seek => "seek",
            Seam::Flush => "flush",
        }
    }
}

/// Explicit faults, scheduled against the seam event counter.
#[derive(Clone, Debug, PartialEq, Eq)]
pub enum FaultKind {
    /// Whatever seam call happens at `k` fails with `ErrorKind::Other` and has
    /// no effect (F-RE / F-SE / F-WE / F-FE depending on the call).
    Fail,
    /// As `Fail`, but with another error kind (library code that matches on kinds must not
    /// turn a failure into data): 1 UnexpectedEof, 2 InvalidData, 3 InvalidInput, 4 NotFound,
    /// 5 WouldBlock, 6 TimedOut, 7 PermissionDenied, 8 WriteZero, and 9 = "premature end":
    /// a read or write that returns Ok(0) although bytes were requested (seek / flush:
    /// UnexpectedEof).
    FailAs { flavour: u8 },
    /// A write at `k` stores only the first `keep` bytes (clamped to < len), then
    /// fails (F-WT).  On a non-write call behaves like `Fail`.
    Torn { keep: usize },
    /// From `k` on, writes that would extend the image fail with StorageFull
    /// until seam call `heal` (0 = never) (F-DF).
    DiskFull { heal: u64 },
    /// Like `DiskFull`, but the device signals "no room" the other legal way: a write that
    /// would extend the image returns Ok(0) (what `Cursor<&mut [u8]>` does when it is full).
    DiskFullZero { heal: u64 },
    /// A read/write at `k` transfers at most `n` (>= 1) bytes (F-SR / F-SW).
    Short { n: usize },
    /// A read/write at `k` fails with `Interrupted`, nothing transferred (F-EI).
    Eintr,
    /// From `k` on every seam call fails: the device is gone (F-CR).
    Crash,
}

#[derive(Clone, Debug, PartialEq, Eq)]
pub struct Fault {
    pub k: u64,
    pub kind: FaultKind,
}

/// Rate-based benign chunking faults (per mille), drawn from their own stream.
#[derive(Clone, Debug)]
pub struct Rates {
    pub short_read: u32,
    pub short_write: u32,
    pub eintr: u32,
    pub rng: Rng,
}

#[derive(Clone, Debug)]
pub struct Event {
    pub k: u64,
    pub seam: Seam,
    pub offset: u64,
    pub requested: u64,
    pub transferred: u64,
    pub ok: bool,
    pub call: u32,
}

/// Alternative real backends behind the same seam (C18): the library still
/// sees a `SimDisk`, which passes every call straight through to std's own
/// `Cursor<Vec<u8>>` or `std::fs::File` implementation.
pub enum Alt {
    Cursor(std::io::Cursor<Vec<u8>>),
    File(std::fs::File),
}

pub struct DiskState {
    /// write-back-cache model: `Some(image as of the last successful flush())`.  Reads and
    /// writes act on `data` (the cache); only flush() makes them durable.  None = write-through.
    pub durable: Option<Vec<u8>>,
    pub alt: Option<Alt>,
    pub data: Vec<u8>,
    pub pos: u64,
    pub k: u64,
    pub seam_counts: [u64; 4],
    pub bytes_written: u64,
    pub plan: Vec<Fault>,
    pub rates: Option<Rates>,
    pub disk_full_until: Option<u64>, // Some(heal) while active; heal 0 = forever
    /// while the disk is full, refused writes return Ok(0) instead of StorageFull
    pub disk_full_zero: bool,
    pub crashed: bool,
    pub fired: BTreeMap<&'static str, u64>,
    /// faults fired during the current API call: (k, name)
    pub fired_in_call: Vec<(u64, &'static str)>,
    /// how often each error flavour of `FailAs` fired (index = flavour)
    pub flavour_counts: [u64; 16],
    pub call: u32,
    pub writes_in_call: u64,
    pub hash: Fnv,
    pub log: Option<Vec<Event>>,
    /// remaining seam calls allowed for the current API call (hang oracle)
    pub budget: u64,
    pub budget_exceeded: bool,
    /// (call name, seam, fault) triples seen, for coverage
    pub max_len: usize,
}

/// Panic payload used when an API call exceeds its seam-step budget.
pub struct StepBudgetExceeded;

#[derive(Clone)]
pub struct SimDisk(pub Rc<RefCell<DiskState>>);

impl SimDisk {
    pub fn new(data: Vec<u8>) -> SimDisk {
        SimDisk(Rc::new(RefCell::new(DiskState {
            durable: None,
            alt: None,
            data,
            pos: 0,
            k: 0,
            seam_counts: [0; 4],
            bytes_written: 0,
            plan: Vec::new(),
            rates: None,
            disk_full_until: None,
            disk_full_zero: false,
            crashed: false,
            fired: BTreeMap::new(),
            fired_in_call: Vec::new(),
            flavour_counts: [0; 16],
            call: 0,
            writes_in_call: 0,
            hash: Fnv::new(),
            log: None,
            budget: u64::MAX,
            budget_exceeded: false,
            max_len: 0,
        })))
    }
    pub fn with_plan(data: Vec<u8>, plan: Vec<Fault>) -> SimDisk {
        let d = SimDisk::new(data);
        d.0.borrow_mut().plan = plan;
        d
    }
    pub fn with_cursor() -> SimDisk {
        let d = SimDisk::new(Vec::new());
        d.0.borrow_mut().alt = Some(Alt::Cursor(std::io::Cursor::new(Vec::new())));
        d
    }
    pub fn with_file(f: std::fs::File) -> SimDisk {
        let d = SimDisk::new(Vec::new());
        d.0.borrow_mut().alt = Some(Alt::File(f));
        d
    }
    pub fn snapshot(&self) -> Vec<u8> {
        let mut s = self.0.borrow_mut();
        match s.alt.as_mut() {
            None => s.data.clone(),
            Some(Alt::Cursor(c)) => c.get_ref().clone(),
            Some(Alt::File(f)) => {
                use std::io::{Read, Seek, SeekFrom};
                let pos = f.stream_position().unwrap_or(0);
                let mut v = Vec::new();
                let _ = f.seek(SeekFrom::Start(0));
                let _ = f.read_to_end(&mut v);
                let _ = f.seek(SeekFrom::Start(pos));
                v
            }
        }
    }
    pub fn len(&self) -> usize {
        let s = self.0.borrow();
        match s.alt.as_ref() {
            None => s.data.len(),
            Some(Alt::Cursor(c)) => c.get_ref().len(),
            Some(Alt::File(f)) => f.metadata().map(|m| m.len() as usize).unwrap_or(0),
        }
    }
    pub fn k(&self) -> u64 {
        self.0.borrow().k
    }
    pub fn image_hash(&self) -> u64 {
        if self.0.borrow().alt.is_some() {
            return crate::prng::fnv(&self.snapshot());
        }
        crate::prng::fnv(&self.0.borrow().data)
    }
    pub fn trace_hash(&self) -> u64 {
        self.0.borrow().hash.finish()
    }
    /// Mark the beginning of an API call (driver).
    pub fn begin_call(&self, call: u32, budget: u64) {
        let mut s = self.0.borrow_mut();
        s.call = call;
        s.writes_in_call = 0;
        s.fired_in_call.clear();
        s.budget = budget;
    }
    pub fn writes_in_call(&self) -> u64 {
        self.0.borrow().writes_in_call
    }
    pub fn fired_in_call(&self) -> Vec<(u64, &'static str)> {
        self.0.borrow().fired_in_call.clone()
    }
    pub fn enable_log(&self) {
        self.0.borrow_mut().log = Some(Vec::new());
    }
    /// Independent handle on a *copy* of the current image (fork).
    pub fn fork(&self) -> SimDisk {
        SimDisk::new(self.snapshot())
    }
}

impl DiskState {
    fn fire(&mut self, name: &'static str) {
        *self.fired.entry(name).or_insert(0) += 1;
        let k = self.k;
        self.fired_in_call.push((k, name));
    }

    fn fire_flavour(&mut self, flavour: u8) {
        self.flavour_counts[(flavour as usize).min(15)] += 1;
    }

    fn record(&mut self, seam: Seam, offset: u64, requested: u64, transferred: u64, ok: bool) {
        self.hash.write_u64(self.k);
        self.hash.write(&[seam as u8, ok as u8]);
        self.hash.write_u64(offset);
        self.hash.write_u64(requested);
        self.hash.write_u64(transferred);
        if let Some(log) = self.log.as_mut() {
            if log.len() < 200_000 {
                log.push(Event { k: self.k, seam, offset, requested, transferred, ok, call: self.call });
            }
        }
    }

    /// Common prologue: advance k, budget, crash, explicit plan lookup.
    fn enter(&mut self, seam: Seam) -> Option<FaultKind> {
        self.k += 1;
        self.seam_counts[seam as usize] += 1;
        if self.budget == 0 {
            self.budget_exceeded = true;
            // unwinds through the library into the driver's catch_unwind
            std::panic::panic_any(StepBudgetExceeded);
        }
        self.budget -= 1;
        if let Some(h) = self.disk_full_until {
            if h != 0 && self.k >= h {
                self.disk_full_until = None;
            }
        }
        if self.crashed {
            return Some(FaultKind::Crash);
        }
        let k = self.k;
        let mut found = None;
        for f in self.plan.iter() {
            if f.k == k {
                found = Some(f.kind.clone());
                break;
            }
        }
        match &found {
            Some(FaultKind::Crash) => {
                self.crashed = true;
                self.fire("F-CR");
            }
            Some(FaultKind::DiskFull { heal }) => {
                self.disk_full_until = Some(*heal);
                self.disk_full_zero = false;
                // activation itself is not an error; the failing writes count
                found = None;
            }
            Some(FaultKind::DiskFullZero { heal }) => {
                self.disk_full_until = Some(*heal);
                self.disk_full_zero = true;
                found = None;
            }
            _ => {}
        }
        found
    }

    fn fail_name(seam: Seam) -> &'static str {
        match seam {
            Seam::Read => "F-RE",
            Seam::Write => "F-WE",
            Seam::Seek => "F-SE",
            Seam::Flush => "F-FE",
        }
    }
}

fn other(msg: &str) -> io::Error {
    io::Error::new(io::ErrorKind::Other, msg.to_string())
}

pub const FLAVOURS: u8 = 9;

pub fn flavour_name(flavour: u8) -> &'static str {
    match flavour {
        1 => "UnexpectedEof",
        2 => "InvalidData",
        3 => "InvalidInput",
        4 => "NotFound",
        5 => "WouldBlock",
        6 => "TimedOut",
        7 => "PermissionDenied",
        8 => "WriteZero",
        9 => "Ok(0)",
        _ => "Other",
    }
}

fn flavoured(flavour: u8, msg: &str) -> io::Error {
    let k = match flavour {
        1 | 9 => io::ErrorKind::UnexpectedEof,
        2 => io::ErrorKind::InvalidData,
        3 => io::ErrorKind::InvalidInput,
        4 => io::ErrorKind::NotFound,
        5 => io::ErrorKind::WouldBlock,
        6 => io::ErrorKind::TimedOut,
        7 => io::ErrorKind::PermissionDenied,
        8 => io::ErrorKind::WriteZero,
        _ => io::ErrorKind::Other,
    };
    io::Error::new(k, msg.to_string())
}

impl Read for SimDisk {
    fn read(&mut self, buf: &mut [u8]) -> io::Result<usize> {
        let mut s = self.0.borrow_mut();
        if s.alt.is_some() {
            s.k += 1;
            s.seam_counts[Seam::Read as usize] += 1;
            let r = match s.alt.as_mut().unwrap() {
                Alt::Cursor(c) => c.read(buf),
                Alt::File(f) => f.read(buf),
            };
            let n = *r.as_ref().unwrap_or(&0) as u64;
            s.record(Seam::Read, 0, buf.len() as u64, n, r.is_ok());
            return r;
        }
        let fault = s.enter(Seam::Read);
        let pos = s.pos;
        let req = buf.len() as u64;
        let mut limit = buf.len();
        match fault {
            Some(FaultKind::Crash) => {
                s.record(Seam::Read, pos, req, 0, false);
                return Err(other("simulated crash: device gone"));
            }
            Some(FaultKind::Fail) | Some(FaultKind::Torn { .. }) => {
                s.fire("F-RE");
                s.record(Seam::Read, pos, req, 0, false);
                return Err(other("injected read error"));
            }
            Some(FaultKind::FailAs { flavour }) => {
                s.fire("F-RE");
                s.fire_flavour(flavour);
                s.record(Seam::Read, pos, req, 0, flavour == 9);
                if flavour == 9 {
                    return Ok(0);
                }
                return Err(flavoured(flavour, "injected read error"));
            }
            Some(FaultKind::Eintr) => {
                s.fire("F-EI");
                s.record(Seam::Read, pos, req, 0, false);
                return Err(io::Error::new(io::ErrorKind::Interrupted, "injected EINTR"));
            }
            Some(FaultKind::Short { n }) => {
                if limit > 1 {
                    limit = n.max(1).min(limit - 1);
                    s.fire("F-SR");
                }
            }
            Some(FaultKind::DiskFull { .. }) | Some(FaultKind::DiskFullZero { .. }) | None => {}
        }
        if fault.is_none() {
            if let Some(r) = s.rates.as_mut() {
                let roll = r.rng.below(1000) as u32;
                if roll < r.eintr {
                    s.fire("F-EI");
                    s.record(Seam::Read, pos, req, 0, false);
                    return Err(io::Error::new(io::ErrorKind::Interrupted, "injected EINTR"));
                } else if roll < r.eintr + r.short_read && limit > 1 {
                    let n = 1 + r.rng.usize_below(limit - 1);
                    limit = n;
                    s.fire("F-SR");
                }
            }
        }
        let len = s.data.len() as u64;
        let n = if pos >= len { 0 } else { limit.min((len - pos) as usize) };
        if n > 0 {
            let p = pos as usize;
            buf[..n].copy_from_slice(&s.data[p..p + n]);
        }
        s.pos += n as u64;
        s.record(Seam::Read, pos, req, n as u64, true);
        Ok(n)
    }
}

impl Write for SimDisk {
    fn write(&mut self, buf: &[u8]) -> io::Result<usize> {
        let mut s = self.0.borrow_mut();
        if s.alt.is_some() {
            s.k += 1;
            s.seam_counts[Seam::Write as usize] += 1;
            s.writes_in_call += 1;
            let r = match s.alt.as_mut().unwrap() {
                Alt::Cursor(c) => c.write(buf),
                Alt::File(f) => f.write(buf),
            };
            let n = *r.as_ref().unwrap_or(&0) as u64;
            s.record(Seam::Write, 0, buf.len() as u64, n, r.is_ok());
            return r;
        }
        let fault = s.enter(Seam::Write);
        s.writes_in_call += 1;
        let pos = s.pos;
        let req = buf.len() as u64;
        let mut limit = buf.len();
        let mut torn: Option<usize> = None;
        match fault {
            Some(FaultKind::Crash) => {
                s.record(Seam::Write, pos, req, 0, false);
                return Err(other("simulated crash: device gone"));
            }
            Some(FaultKind::Fail) => {
                s.fire("F-WE");
                if std::env::var("VERIF_DEBUG").is_ok() { eprintln!("FAILW k={} pos={} len={} buf={:?}", s.k, pos, buf.len(), &buf[..buf.len().min(8)]); }
                s.record(Seam::Write, pos, req, 0, false);
                return Err(other("injected write error"));
            }
            Some(FaultKind::FailAs { flavour }) => {
                s.fire("F-WE");
                s.fire_flavour(flavour);
                s.record(Seam::Write, pos, req, 0, flavour == 9);
                if flavour == 9 {
                    return Ok(0);
                }
                return Err(flavoured(flavour, "injected write error"));
            }
            Some(FaultKind::Torn { keep }) => {
                torn = Some(if buf.is_empty() { 0 } else { keep.min(buf.len() - 1) });
            }
            Some(FaultKind::Eintr) => {
                s.fire("F-EI");
                s.record(Seam::Write, pos, req, 0, false);
                return Err(io::Error::new(io::ErrorKind::Interrupted, "injected EINTR"));
            }
            Some(FaultKind::Short { n }) => {
                if limit > 1 {
                    limit = n.max(1).min(limit - 1);
                    s.fire("F-SW");
                }
            }
            Some(FaultKind::DiskFull { .. }) | Some(FaultKind::DiskFullZero { .. }) | None => {}
        }
        if fault.is_none() {
            if let Some(r) = s.rates.as_mut() {
                let roll = r.rng.below(1000) as u32;
                if roll < r.eintr {
                    s.fire("F-EI");
                    s.record(Seam::Write, pos, req, 0, false);
                    return Err(io::Error::new(io::ErrorKind::Interrupted, "injected EINTR"));
                } else if roll < r.eintr + r.short_write && limit > 1 {
                    let n = 1 + r.rng.usize_below(limit - 1);
                    limit = n;
                    s.fire("F-SW");
                }
            }
        }
        let n = torn.unwrap_or(limit);
        let end = pos as usize + n;
        if s.disk_full_until.is_some() && end > s.data.len() {
            s.fire("F-DF");
            let zero = s.disk_full_zero;
            s.record(Seam::Write, pos, req, 0, zero);
            if zero {
                return Ok(0);
            }
            return Err(io::Error::new(io::ErrorKind::StorageFull, "injected disk full"));
        }
        if end > s.data.len() {
            s.data.resize(end, 0);
        }
        let p = pos as usize;
        s.data[p..end].copy_from_slice(&buf[..n]);
        s.bytes_written += n as u64;
        if s.data.len() > s.max_len {
            s.max_len = s.data.len();
        }
        if torn.is_some() {
            s.fire("F-WT");
            // position after a failed write is unspecified; leave it after the stored prefix
            s.pos += n as u64;
            s.record(Seam::Write, pos, req, n as u64, false);
            return Err(other("injected torn write"));
        }
        s.pos += n as u64;
        s.record(Seam::Write, pos, req, n as u64, true);
        Ok(n)
    }

    fn flush(&mut self) -> io::Result<()> {
        let mut s = self.0.borrow_mut();
        if s.alt.is_some() {
            s.k += 1;
            s.seam_counts[Seam::Flush as usize] += 1;
            let r = match s.alt.as_mut().unwrap() {
                Alt::Cursor(c) => c.flush(),
                Alt::File(f) => f.flush(),
            };
            s.record(Seam::Flush, 0, 0, 0, r.is_ok());
            return r;
        }
        let fault = s.enter(Seam::Flush);
        let pos = s.pos;
        match fault {
            Some(FaultKind::Crash) => {
                s.record(Seam::Flush, pos, 0, 0, false);
                Err(other("simulated crash: device gone"))
            }
            Some(FaultKind::Fail) | Some(FaultKind::Torn { .. }) => {
                s.fire("F-FE");
                s.record(Seam::Flush, pos, 0, 0, false);
                Err(other("injected flush error"))
            }
            Some(FaultKind::FailAs { flavour }) => {
                s.fire("F-FE");
                s.fire_flavour(flavour);
                s.record(Seam::Flush, pos, 0, 0, false);
                Err(flavoured(flavour, "injected flush error"))
            }
            _ => {
                if s.durable.is_some() {
                    let snap = s.data.clone();
                    s.durable = Some(snap);
                }
                s.record(Seam::Flush, pos, 0, 0, true);
                Ok(())
            }
        }
    }
}

impl Seek for SimDisk {
    fn seek(&mut self, from: SeekFrom) -> io::Result<u64> {
        let mut s = self.0.borrow_mut();
        if s.alt.is_some() {
            s.k += 1;
            s.seam_counts[Seam::Seek as usize] += 1;
            let r = match s.alt.as_mut().unwrap() {
                Alt::Cursor(c) => c.seek(from),
                Alt::File(f) => f.seek(from),
            };
            let n = *r.as_ref().unwrap_or(&0);
            s.record(Seam::Seek, 0, n, 0, r.is_ok());
            return r;
        }
        let fault = s.enter(Seam::Seek);
        let pos = s.pos;
        match fault {
            Some(FaultKind::Crash) => {
                s.record(Seam::Seek, pos, 0, 0, false);
                return Err(other("simulated crash: device gone"));
            }
            Some(FaultKind::Fail) | Some(FaultKind::Torn { .. }) => {
                s.fire(DiskState::fail_name(Seam::Seek));
                if std::env::var("VERIF_DEBUG").is_ok() { eprintln!("FAILS k={} from={:?} curpos={}", s.k, from, pos); }
                s.record(Seam::Seek, pos, 0, 0, false);
                return Err(other("injected seek error"));
            }
            Some(FaultKind::FailAs { flavour }) => {
                s.fire("F-SE");
                s.fire_flavour(flavour);
                s.record(Seam::Seek, pos, 0, 0, false);
                return Err(flavoured(flavour, "injected seek error"));
            }
            _ => {}
        }
        let target: i128 = match from {
            SeekFrom::Start(n) => n as i128,
            SeekFrom::End(d) => s.data.len() as i128 + d as i128,
            SeekFrom::Current(d) => pos as i128 + d as i128,
        };
        if target < 0 || target > u64::MAX as i128 {
            s.record(Seam::Seek, pos, 0, 0, false);
            return Err(io::Error::new(io::ErrorKind::InvalidInput, "seek to a negative or overflowing position"));
        }
        s.pos = target as u64;
        let np = s.pos;
        s.record(Seam::Seek, pos, np, 0, true);
        Ok(np)
    }
}
