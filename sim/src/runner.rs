//! The generic history runner: executes a case's operations on the library
//! and on the model, compares after every step, and evaluates the boundary
//! invariants a check enables.

use crate::case::{Case, Init, Outcome, Stats, Violation};
use crate::disk::SimDisk;
use crate::driver::{normalise_site, Lib};
use crate::dump;
use crate::imgck;
use crate::model::Model;
use crate::ops::{Op, Res};
use std::collections::BTreeSet;

#[derive(Clone, Debug, Default)]
pub struct Flags {
    pub property: &'static str,
    /// independent checker R1-R10 after every successful mutating op
    pub imgck_each: bool,
    /// ... and its logical dump must equal the model
    pub imgck_dump: bool,
    /// C02: at every boundary reopen a snapshot (both modes) and compare dumps
    pub reopen_each: bool,
    /// C10: a refused call performs zero seam writes and leaves the image unchanged
    pub no_effect: bool,
    /// full API dump vs model after every step
    pub dump_each: bool,
    /// at the end: drop handles, API dump vs model, reopen both modes and compare
    pub final_check: bool,
    /// per-API-call seam-step budget base (0 = unlimited)
    pub budget_base: u64,
    /// C15: record the image length after each op (params tell where cycles end)
    pub track_len: bool,
    /// model comparison is disabled (safety-only runs)
    pub safety_only: bool,
    /// names with disputed case mapping: sibling ORDER is not judged against
    /// the model (only against the independent parser's in-order traversal)
    pub relaxed_order: bool,
    /// record a hash of every observable result (cross-configuration equality)
    pub record_results: bool,
    /// rule prefixes that belong to this check's property; a divergence with
    /// another rule is some other property's business: it ends the case
    /// (counted as out_of_scope) without raising this property's alarm.
    /// Empty = everything is in scope.
    pub scope: &'static [&'static str],
    /// compare the independent parser's dump with the LIVE API dump instead of the model
    pub imgck_vs_live: bool,
    /// C02: compare the reopened snapshot with the LIVE API dump instead of the model
    pub reopen_vs_live: bool,
}

pub struct World {
    pub lib: Lib,
    pub model: Model,
}

pub struct Ctx<'a> {
    pub flags: &'a Flags,
    pub known: &'a BTreeSet<String>,
    pub out: Outcome,
    pub lens: Vec<usize>,
    pub stop: bool,
    pub last_imgck_hash: u64,
    pub last_reopen_hash: u64,
    pub res_hashes: Vec<u64>,
    pub full_hashes: Vec<u64>,
}

impl<'a> Ctx<'a> {
    pub fn new(flags: &'a Flags, known: &'a BTreeSet<String>) -> Ctx<'a> {
        Ctx { flags, known, out: Outcome::default(), lens: vec![], stop: false, last_imgck_hash: 0, last_reopen_hash: 0, res_hashes: vec![], full_hashes: vec![] }
    }

    /// Report a violation.  Returns true if it is a *known finding*.
    /// `stateful`: a divergence after which the run cannot meaningfully go on.
    pub fn report(&mut self, rule: &str, site: &str, msg: String, step: usize, stateful: bool) -> bool {
        let v = Violation {
            property: self.flags.property.to_string(),
            rule: rule.to_string(),
            site: site.to_string(),
            msg,
            step,
        };
        let sig = v.sig();
        if !self.flags.scope.is_empty() && !self.flags.scope.iter().any(|p| rule.starts_with(p)) {
            *self.out.stats.probes.entry(format!("out_of_scope:{}", rule)).or_insert(0) += 1;
            if stateful {
                self.stop = true;
            }
            return true;
        }
        if self.known.contains(&sig) {
            *self.out.stats.known_hits.entry(sig).or_insert(0) += 1;
            if stateful {
                self.stop = true;
            }
            true
        } else {
            self.out.violations.push(v);
            self.stop = true;
            false
        }
    }
}

/// Build the initial world for a case.
pub fn setup(case: &Case, flags: &Flags) -> Result<World, String> {
    let mut w = setup_inner(case, flags)?;
    w.model.relaxed_order = flags.relaxed_order;
    Ok(w)
}

/// Like `setup` for `Init::Empty`, but on a disk prepared by the caller.
pub fn setup_on(case: &Case, flags: &Flags, disk: SimDisk) -> Result<World, String> {
    crate::driver::set_clock(crate::ops::T { secs: 1_600_000_000, nanos: 0 });
    let mut lib = Lib::create_cfg(disk, case.version, case.bufsize).map_err(|r| format!("create failed: {}", r.brief()))?;
    lib.budget_base = flags.budget_base;
    let mut w = World { lib, model: Model::new(case.version) };
    w.model.relaxed_order = flags.relaxed_order;
    Ok(w)
}

fn setup_inner(case: &Case, flags: &Flags) -> Result<World, String> {
    crate::driver::set_clock(crate::ops::T { secs: 1_600_000_000, nanos: 0 });
    match &case.init {
        Init::Empty => {
            let disk = SimDisk::new(Vec::new());
            if case.param("chunk_seed", 0) != 0 {
                // benign chunking faults (short reads / short writes / EINTR): legal for any
                // Read/Write implementation, so every property must hold under them too
                disk.0.borrow_mut().rates = Some(crate::disk::Rates { short_read: 250, short_write: 250, eintr: 150, rng: crate::prng::Rng::new(case.param("chunk_seed", 0) as u64) });
            }
            let mut lib = Lib::create_cfg(disk, case.version, case.bufsize).map_err(|r| format!("create failed: {}", r.brief()))?;
            lib.budget_base = flags.budget_base;
            Ok(World { lib, model: Model::new(case.version) })
        }
        Init::Image(bytes) => {
            let disk = SimDisk::new(bytes.clone());
            let mut lib = Lib::open(disk, false, case.bufsize).map_err(|r| format!("open failed: {}", r.brief()))?;
            lib.budget_base = flags.budget_base;
            let p = imgck::check(bytes);
            let d = p.dump.ok_or("image has no parseable content")?;
            Ok(World { lib, model: Model::from_dump(&d, case.version) })
        }
        Init::Foreign { content_seed, max_entries, max_stream, plan } => {
            let mut rng = crate::prng::Rng::new(*content_seed);
            let mut content = crate::imgwr::gen_content(&mut rng, *max_entries, *max_stream);
            // MS-CFB: the root's creation time must be zero
            content.root.meta.created = 0;
            let bytes = crate::imgwr::write_image(&content, plan)?;
            let disk = SimDisk::new(bytes);
            let mut lib = Lib::open(disk, false, case.bufsize).map_err(|r| format!("FOREIGN-OPEN {}", r.brief()))?;
            lib.budget_base = flags.budget_base;
            Ok(World { lib, model: Model::from_dump(&content, plan.version) })
        }
    }
}

fn res_class(r: &Res) -> &'static str {
    match r {
        Res::Err(k, _) => match k {
            crate::ops::ErrKind::NotFound => "NotFound",
            crate::ops::ErrKind::AlreadyExists => "AlreadyExists",
            crate::ops::ErrKind::InvalidInput => "InvalidInput",
            crate::ops::ErrKind::InvalidData => "InvalidData",
            crate::ops::ErrKind::Other => "OtherErr",
        },
        Res::Panic(_) => "panic",
        Res::Hang => "hang",
        Res::Skipped => "skipped",
        _ => "ok",
    }
}

fn model_shape_hash(m: &Model) -> u64 {
    fn class(len: usize) -> u8 {
        match len {
            0 => 0,
            1..=63 => 1,
            64 => 2,
            65..=4095 => 3,
            4096 => 4,
            4097..=65535 => 5,
            _ => 6,
        }
    }
    fn go(n: &crate::model::MNode, h: &mut crate::prng::Fnv) {
        h.write(&[n.is_stream as u8, class(n.data.len()), n.children.len() as u8, n.dirty as u8]);
        for c in &n.children {
            go(c, h);
        }
    }
    let mut h = crate::prng::Fnv::new();
    go(&m.root, &mut h);
    for hd in &m.handles {
        h.write(&[hd.is_some() as u8]);
    }
    h.finish()
}

pub fn layout_probes(l: &imgck::Layout, stats: &mut Stats) {
    if l.fat_sectors.len() >= 2 {
        stats.probe("fat_sectors>=2");
    }
    if !l.difat_sectors.is_empty() {
        stats.probe("difat_sector");
    }
    if l.difat_sectors.len() >= 2 {
        stats.probe("difat_sectors>=2");
    }
    if l.difat_sectors.len() >= 3 {
        stats.probe("difat_sectors>=3");
    }
    if l.dir_sectors.len() >= 2 {
        stats.probe("dir_sectors>=2");
    }
    if l.minifat_sectors.len() >= 2 {
        stats.probe("minifat_sectors>=2");
    }
    if l.ministream_sectors.len() >= 2 {
        stats.probe("ministream_sectors>=2");
    }
    if l.free_sectors > 0 {
        stats.probe("free_sectors_present");
    }
    if l.free_mini_sectors > 0 {
        stats.probe("free_mini_sectors_present");
    }
    if l.unallocated_entries > 0 {
        stats.probe("unallocated_entries_present");
    }
    if l.nodes_with_two_siblings > 0 {
        stats.probe("node_with_two_siblings");
    }
    if l.red_nodes > 0 {
        stats.probe("red_nodes");
    }
    if l.orphan_entries > 0 {
        stats.probe("orphan_entries(advisory)");
    }
}

/// Independent check of the current image.  Returns false if the run must stop.
pub fn check_image(w: &mut World, ctx: &mut Ctx, step: usize, opkind: &str) {
    let img = w.lib.disk.snapshot();
    let h = crate::prng::fnv(&img);
    if h == ctx.last_imgck_hash {
        return;
    }
    ctx.last_imgck_hash = h;
    ctx.out.stats.boundary_checks += 1;
    let p = imgck::check(&img);
    layout_probes(&p.layout, &mut ctx.out.stats);
    if let Some(f) = &p.fatal {
        ctx.report("imgck.fatal", "image", format!("after {}: independent parser cannot read the image: {}", opkind, f), step, true);
        return;
    }
    for v in &p.violations {
        // advisory only: MS-CFB does not require the MiniFAT to have a cell for every mini
        // sector of the container (the library over-counts the root length on files whose
        // mini stream ends in free mini sectors; wasteful, not invalid)
        if v.rule == "R5.minifat-short" {
            ctx.out.stats.probe("advisory:R5.minifat-short");
            continue;
        }
        let rule = format!("imgck.{}", v.rule);
        ctx.report(&rule, "image", format!("after {}: {}", opkind, v.msg), step, false);
    }
    if ctx.flags.imgck_dump {
        if let Some(d) = &p.dump {
            let skip = w.model.dirty_paths();
            let mut md = if ctx.flags.imgck_vs_live {
                match w.lib.dump(&skip) {
                    Ok(mut live) => {
                        // skipped (dirty) streams: neither side's content is judged
                        blank(&mut live, &skip);
                        live
                    }
                    Err(r) => {
                        ctx.report("dump.fails", "dump", format!("after {}: dumping the live file failed: {}", opkind, r.brief()), step, true);
                        return;
                    }
                }
            } else {
                w.model.dump()
            };
            let mut d = d.clone();
            if ctx.flags.relaxed_order {
                sort_dump(&mut md);
                sort_dump(&mut d);
            }
            let d = &d;
            if let Some(diff) = dump::diff_except(d, &md, &skip) {
                ctx.report("imgck.dump", "image", format!("after {}: image content (independent parser) vs model: {}", opkind, diff), step, true);
            }
        }
    }
}

/// C02 boundary oracle: the bytes alone reopen (both modes) to the model state.
pub fn check_reopen(w: &mut World, ctx: &mut Ctx, step: usize, opkind: &str) {
    let img = w.lib.disk.snapshot();
    let h = crate::prng::fnv(&img);
    if h == ctx.last_reopen_hash {
        return;
    }
    ctx.last_reopen_hash = h;
    let skip = w.model.dirty_paths();
    let md = if ctx.flags.reopen_vs_live {
        match w.lib.dump(&skip) {
            Ok(d) => d,
            Err(r) => {
                let (rule, site) = match &r {
                    Res::Panic(p) => ("dump.panic".to_string(), normalise_site(p)),
                    _ => ("dump.fails".to_string(), "dump".to_string()),
                };
                ctx.report(&rule, &site, format!("after {}: dumping the live file failed: {}", opkind, r.brief()), step, true);
                return;
            }
        }
    } else {
        w.model.dump()
    };
    for strict in [false, true] {
        ctx.out.stats.boundary_checks += 1;
        let disk = SimDisk::new(img.clone());
        let mode = if strict { "strict" } else { "permissive" };
        match Lib::open(disk, strict, w.lib.bufsize) {
            Err(r) => {
                let (rule, site) = match &r {
                    Res::Panic(p) => ("reopen.panic".to_string(), normalise_site(p)),
                    _ => (format!("reopen.{}-fails", mode), opkind_class(&r)),
                };
                ctx.report(&rule, &site, format!("after {}: snapshot taken without flush does not reopen ({}): {}", opkind, mode, r.brief()), step, true);
                return;
            }
            Ok(mut l2) => {
                l2.budget_base = ctx.flags.budget_base;
                match l2.dump(&skip) {
                    Err(r) => {
                        ctx.report(&format!("reopen.{}-dump-fails", mode), "dump", format!("after {}: reopened snapshot cannot be dumped: {}", opkind, r.brief()), step, true);
                        return;
                    }
                    Ok(mut d) => {
                        // skipped streams have empty data in d; blank them in the model dump too
                        let mut md2 = md.clone();
                        blank(&mut md2, &skip);
                        if ctx.flags.relaxed_order {
                            sort_dump(&mut md2);
                            sort_dump(&mut d);
                        }
                        if let Some(diff) = dump::diff_except(&d, &md2, &skip) {
                            ctx.report(&format!("reopen.{}-differs", mode), "dump", format!("after {}: reopened snapshot (left) vs {} (right): {}", opkind, if ctx.flags.reopen_vs_live { "live object" } else { "model" }, diff), step, true);
                            return;
                        }
                    }
                }
            }
        }
    }
}

fn opkind_class(r: &Res) -> String {
    match r {
        Res::Err(_, m) => {
            // first words of the message, digits stripped
            let mut s = String::new();
            let mut last = false;
            for c in m.chars().take(48) {
                if c.is_ascii_digit() {
                    if !last {
                        s.push('#');
                    }
                    last = true;
                } else {
                    s.push(if c.is_whitespace() { '_' } else { c });
                    last = false;
                }
            }
            s
        }
        _ => "open".into(),
    }
}

pub fn sort_dump(d: &mut dump::Dump) {
    fn go(n: &mut dump::Node) {
        n.children.sort_by(|a, b| a.name.cmp(&b.name));
        for c in n.children.iter_mut() {
            go(c);
        }
    }
    go(&mut d.root);
}

fn blank(d: &mut dump::Dump, skip: &[String]) {
    fn go(n: &mut dump::Node, path: &str, skip: &[String], is_root: bool) {
        let here = if is_root { "/".to_string() } else { format!("{}/{}", path, n.name) };
        if skip.iter().any(|s| s == &here) {
            n.data.clear();
        }
        let sub = if is_root { String::new() } else { here };
        for c in n.children.iter_mut() {
            go(c, &sub, skip, false);
        }
    }
    go(&mut d.root, "", skip, true);
}

pub fn check_api_dump(w: &mut World, ctx: &mut Ctx, step: usize, opkind: &str) {
    let skip = w.model.dirty_paths();
    // streams with an open handle are not opened a second time
    ctx.out.stats.boundary_checks += 1;
    match w.lib.dump(&skip) {
        Err(r) => {
            let (rule, site) = match &r {
                Res::Panic(p) => ("dump.panic".to_string(), normalise_site(p)),
                _ => ("dump.fails".to_string(), "dump".to_string()),
            };
            ctx.report(&rule, &site, format!("after {}: dumping the live file failed: {}", opkind, r.brief()), step, true);
        }
        Ok(mut d) => {
            let mut md = w.model.dump();
            blank(&mut md, &skip);
            if ctx.flags.relaxed_order {
                // listing order must at least agree with the independent parser
                let p = imgck::check(&w.lib.disk.snapshot());
                if let Some(pd) = &p.dump {
                    fn names(n: &dump::Node, out: &mut Vec<String>) {
                        for c in &n.children {
                            out.push(c.name.clone());
                            names(c, out);
                        }
                    }
                    let (mut a, mut b) = (vec![], vec![]);
                    names(&d.root, &mut a);
                    names(&pd.root, &mut b);
                    if a != b {
                        ctx.report("order.api-vs-image", "dump", format!("after {}: walk order {:?} differs from the in-order traversal of the stored trees {:?}", opkind, a, b), step, true);
                        return;
                    }
                }
                sort_dump(&mut md);
                sort_dump(&mut d);
            }
            if let Some(diff) = dump::diff_except(&d, &md, &skip) {
                ctx.report("dump.differs", "dump", format!("after {}: live file vs model: {}", opkind, diff), step, true);
            }
        }
    }
}

/// Execute ops[start..] on the world.  Returns the index after the last op run.
pub fn run_ops(w: &mut World, ops: &[Op], start: usize, ctx: &mut Ctx) {
    for (i, op) in ops.iter().enumerate().skip(start) {
        if ctx.stop {
            break;
        }
        let pre_hash = if ctx.flags.no_effect { w.lib.disk.image_hash() } else { 0 };
        crate::driver::set_clock(w.model.clock);
        let got = w.lib.exec(op);
        ctx.out.stats.api_calls += 1;
        ctx.out.stats.outcome(op.kind(), res_class(&got));
        if ctx.flags.record_results {
            let mut h = crate::prng::Fnv::new();
            match (&got, op) {
                // counts of plain read/write/fill_buf are a relation: record only what must be equal
                (Res::Bytes(_), Op::HRead { .. }) | (Res::Bytes(_), Op::HFillBuf { .. }) | (Res::Num(_), Op::HWrite { .. }) => h.write(b"rel"),
                (Res::Err(k, _), _) => h.write(format!("{:?}", k).as_bytes()),
                (Res::Listing(_), _) | (Res::Entry(_), _) => {
                    // the committed length of a stream with unflushed handle data is
                    // legitimately configuration dependent: mask it
                    let dirty = w.model.dirty_paths();
                    let mask = |e: &crate::ops::EntryInfo| {
                        let mut e = e.clone();
                        // (the root's len is the mini-stream container size: never judged)
                        if e.is_root || dirty.iter().any(|d| crate::model::same_path_ci(d, &e.path)) {
                            e.len = 0;
                        }
                        e
                    };
                    let masked = match &got {
                        Res::Listing(l) => Res::Listing(l.iter().map(mask).collect()),
                        Res::Entry(e) => Res::Entry(mask(e)),
                        _ => unreachable!(),
                    };
                    masked.hash_into(&mut h)
                }
                _ => got.hash_into(&mut h),
            }
            ctx.res_hashes.push(h.finish());
            let mut f = crate::prng::Fnv::new();
            got.hash_into(&mut f);
            ctx.full_hashes.push(f.finish());
        }
        if let Res::Panic(p) = &got {
            ctx.report("panic", &normalise_site(p), format!("step {} {}: {}", i, op.to_json(), p), i, true);
            break;
        }
        if let Res::Hang = &got {
            ctx.report("hang", op.kind(), format!("step {} {}: seam-step budget exceeded", i, op.to_json()), i, true);
            break;
        }
        if !ctx.flags.safety_only {
            if let Err(m) = w.model.step(op, &got) {
                ctx.report(&m.rule, op.kind(), format!("step {}: {}", i, m.msg), i, true);
                break;
            }
        }
        // handles whose stream is gone in the model are dropped in the library too
        for h in 0..w.lib.handles.len() {
            if w.lib.handles[h].is_some() && w.model.handles[h].is_none() {
                w.lib.drop_handle(h);
            }
        }
        if let Res::Err(k, _) = &got {
            if k.is_refusal() {
                ctx.out.refused_ops.push(i);
            }
        }
        let ok = !matches!(got, Res::Err(..) | Res::Skipped);
        if ok && op.is_mutator() {
            ctx.out.stats.ok_mutations += 1;
        }
        ctx.out.stats.state_hashes.push(model_shape_hash(&w.model));
        if ctx.flags.no_effect {
            if let Res::Err(k, _) = &got {
                if k.is_refusal() {
                    ctx.out.stats.boundary_checks += 1;
                    let writes = w.lib.disk.writes_in_call();
                    if writes != 0 {
                        // the property speaks of the BYTES: write calls that leave every byte as
                        // it was are measured, not judged
                        ctx.out.stats.probe("refused_call_made_write_calls");
                    }
                    if w.lib.disk.image_hash() != pre_hash {
                        ctx.report("no-effect.image-changed", op.kind(), format!("step {} {}: refused with {:?} but the byte image changed", i, op.to_json(), k), i, false);
                    }
                }
            }
        }
        if ctx.stop {
            break;
        }
        if ctx.flags.track_len {
            ctx.lens.push(w.lib.disk.len());
        }
        if ctx.flags.imgck_each && (ok && (op.is_mutator() || matches!(op, Op::HFlush { .. } | Op::HDrop { .. } | Op::FlushFile))) {
            check_image(w, ctx, i, op.kind());
        }
        if ctx.stop {
            break;
        }
        if ctx.flags.reopen_each {
            check_reopen(w, ctx, i, op.kind());
        }
        if ctx.stop {
            break;
        }
        if ctx.flags.dump_each {
            check_api_dump(w, ctx, i, op.kind());
        }
    }
}

/// End-of-run checks: flush handles through the model's eyes, dump, reopen.
pub fn final_checks(w: &mut World, ctx: &mut Ctx, nops: usize) {
    if ctx.stop || !ctx.flags.final_check {
        return;
    }
    // close handles explicitly (flush then drop) so nothing is dirty
    for h in 0..w.lib.handles.len() {
        if w.lib.handles[h].is_some() {
            let op = Op::HFlush { h };
            let got = w.lib.exec(&op);
            if let Err(m) = w.model.step(&op, &got) {
                ctx.report(&m.rule, "h_flush", format!("final flush: {}", m.msg), nops, true);
                return;
            }
            let op = Op::HDrop { h };
            let got = w.lib.exec(&op);
            let _ = w.model.step(&op, &got);
        }
    }
    check_api_dump(w, ctx, nops, "end");
    if ctx.stop {
        return;
    }
    ctx.last_reopen_hash = 0;
    check_reopen(w, ctx, nops, "end");
}

/// Standard run of a case under `flags`.
pub fn run_history(case: &Case, flags: &Flags, known: &BTreeSet<String>) -> Outcome {
    let mut ctx = Ctx::new(flags, known);
    let mut w = match setup(case, flags) {
        Ok(w) => w,
        Err(e) => {
            if let Some(rest) = e.strip_prefix("FOREIGN-OPEN ") {
                ctx.report("foreign.open-fails", "open", format!("spec-valid foreign image rejected by permissive open: {}", rest), 0, true);
                return ctx.out;
            }
            ctx.out.harness_error = Some(e);
            return ctx.out;
        }
    };
    run_ops(&mut w, &case.ops, 0, &mut ctx);
    final_checks(&mut w, &mut ctx, case.ops.len());
    finish(&mut w, &mut ctx);
    ctx.out
}

pub fn finish(w: &mut World, ctx: &mut Ctx) {
    let st = &mut ctx.out.stats;
    {
        let d = w.lib.disk.0.borrow();
        st.seam_events += d.k;
        st.absorb_fired(&d.fired);
        st.trace_hash ^= d.hash.finish();
    }
    st.trace_hash ^= crate::prng::mix(w.lib.disk.image_hash());
    st.nontrivial = st.ok_mutations > 0 && st.boundary_checks > 0;
    w.lib.close();
}
