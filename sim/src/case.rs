//! A *case* is one complete simulated run, fully explicit (it does not depend
//! on the generator), so it can be written to a replay file, minimised and
//! re-executed in a fresh process.

use crate::disk::{Fault, FaultKind};
use crate::ops::Op;
use serde_json::{json, Value};
use std::collections::BTreeMap;

#[derive(Clone, Debug, PartialEq, Eq)]
pub enum Init {
    /// a fresh file created by the library
    Empty,
    /// an explicit byte image
    Image(Vec<u8>),
    /// content drawn from `content_seed` laid out by the independent writer
    Foreign { content_seed: u64, max_entries: usize, max_stream: usize, plan: crate::imgwr::LayoutPlan },
}

#[derive(Clone, Debug, PartialEq, Eq)]
pub struct Case {
    pub check: String,
    pub mode: String,
    pub version: u16,
    pub bufsize: Option<usize>,
    pub init: Init,
    pub ops: Vec<Op>,
    pub faults: Vec<Fault>,
    pub params: BTreeMap<String, i64>,
}

impl Case {
    pub fn new(check: &str, mode: &str, version: u16) -> Case {
        Case {
            check: check.to_string(),
            mode: mode.to_string(),
            version,
            bufsize: None,
            init: Init::Empty,
            ops: vec![],
            faults: vec![],
            params: BTreeMap::new(),
        }
    }
    pub fn param(&self, k: &str, default: i64) -> i64 {
        *self.params.get(k).unwrap_or(&default)
    }

    pub fn to_json(&self) -> Value {
        let init = match &self.init {
            Init::Empty => json!({"kind": "empty"}),
            Init::Image(b) => json!({"kind": "image", "hex": hex(b)}),
            Init::Foreign { content_seed, max_entries, max_stream, plan } => json!({
                "kind": "foreign", "content_seed": content_seed.to_string(), "max_entries": max_entries,
                "max_stream": max_stream, "plan": plan_to_json(plan)}),
        };
        json!({
            "check": self.check, "mode": self.mode, "version": self.version,
            "bufsize": self.bufsize, "init": init,
            "ops": self.ops.iter().map(|o| o.to_json()).collect::<Vec<_>>(),
            "faults": self.faults.iter().map(fault_to_json).collect::<Vec<_>>(),
            "params": self.params,
        })
    }

    pub fn from_json(v: &Value) -> Result<Case, String> {
        let init = match v["init"]["kind"].as_str().unwrap_or("empty") {
            "image" => Init::Image(unhex(v["init"]["hex"].as_str().ok_or("hex")?)?),
            "foreign" => Init::Foreign {
                content_seed: v["init"]["content_seed"].as_str().ok_or("content_seed")?.parse().map_err(|_| "content_seed")?,
                max_entries: v["init"]["max_entries"].as_u64().ok_or("max_entries")? as usize,
                max_stream: v["init"]["max_stream"].as_u64().ok_or("max_stream")? as usize,
                plan: plan_from_json(&v["init"]["plan"])?,
            },
            _ => Init::Empty,
        };
        let mut ops = vec![];
        for o in v["ops"].as_array().ok_or("ops")? {
            ops.push(Op::from_json(o)?);
        }
        let mut faults = vec![];
        if let Some(a) = v["faults"].as_array() {
            for f in a {
                faults.push(fault_from_json(f)?);
            }
        }
        let mut params = BTreeMap::new();
        if let Some(o) = v["params"].as_object() {
            for (k, x) in o {
                params.insert(k.clone(), x.as_i64().ok_or("param")?);
            }
        }
        Ok(Case {
            check: v["check"].as_str().ok_or("check")?.to_string(),
            mode: v["mode"].as_str().unwrap_or("").to_string(),
            version: v["version"].as_u64().ok_or("version")? as u16,
            bufsize: v["bufsize"].as_u64().map(|b| b as usize),
            init,
            ops,
            faults,
            params,
        })
    }
}

pub fn plan_to_json(p: &crate::imgwr::LayoutPlan) -> Value {
    json!({"seed": p.seed.to_string(), "version": p.version, "shuffle_sectors": p.shuffle_sectors,
        "free_sectors": p.free_sectors, "slot_gaps": p.slot_gaps, "fragment_mini": p.fragment_mini,
        "v3_size_high_garbage": p.v3_size_high_garbage, "min_fat_sectors": p.min_fat_sectors,
        "library_like_trees": p.library_like_trees, "extra_fat_sectors": p.extra_fat_sectors, "total_fat_sectors": p.total_fat_sectors, "spare_difat_sectors": p.spare_difat_sectors, "name_slack_garbage": p.name_slack_garbage})
}

pub fn plan_from_json(v: &Value) -> Result<crate::imgwr::LayoutPlan, String> {
    Ok(crate::imgwr::LayoutPlan {
        seed: v["seed"].as_str().ok_or("plan.seed")?.parse().map_err(|_| "plan.seed")?,
        version: v["version"].as_u64().ok_or("plan.version")? as u16,
        shuffle_sectors: v["shuffle_sectors"].as_u64().unwrap_or(0) as u8,
        free_sectors: v["free_sectors"].as_u64().unwrap_or(0) as u8,
        slot_gaps: v["slot_gaps"].as_u64().unwrap_or(0) as u8,
        fragment_mini: v["fragment_mini"].as_u64().unwrap_or(0) as u8,
        v3_size_high_garbage: v["v3_size_high_garbage"].as_bool().unwrap_or(false),
        min_fat_sectors: v["min_fat_sectors"].as_u64().unwrap_or(0) as u32,
        library_like_trees: v["library_like_trees"].as_bool().unwrap_or(false),
        extra_fat_sectors: v["extra_fat_sectors"].as_u64().unwrap_or(0) as u32,
        total_fat_sectors: v["total_fat_sectors"].as_u64().unwrap_or(0) as u32,
        spare_difat_sectors: v["spare_difat_sectors"].as_u64().unwrap_or(0) as u32,
        name_slack_garbage: v["name_slack_garbage"].as_bool().unwrap_or(false),
    })
}

pub fn fault_to_json(f: &Fault) -> Value {
    match &f.kind {
        FaultKind::Fail => json!({"k": f.k, "kind": "fail"}),
        FaultKind::FailAs { flavour } => json!({"k": f.k, "kind": "fail_as", "flavour": flavour, "error": crate::disk::flavour_name(*flavour)}),
        FaultKind::Torn { keep } => json!({"k": f.k, "kind": "torn", "keep": keep}),
        FaultKind::DiskFull { heal } => json!({"k": f.k, "kind": "disk_full", "heal": heal}),
        FaultKind::DiskFullZero { heal } => json!({"k": f.k, "kind": "disk_full_zero", "heal": heal}),
        FaultKind::Short { n } => json!({"k": f.k, "kind": "short", "n": n}),
        FaultKind::Eintr => json!({"k": f.k, "kind": "eintr"}),
        FaultKind::Crash => json!({"k": f.k, "kind": "crash"}),
    }
}

pub fn fault_from_json(v: &Value) -> Result<Fault, String> {
    let k = v["k"].as_u64().ok_or("fault.k")?;
    let kind = match v["kind"].as_str().ok_or("fault.kind")? {
        "fail" => FaultKind::Fail,
        "fail_as" => FaultKind::FailAs { flavour: v["flavour"].as_u64().unwrap_or(0) as u8 },
        "torn" => FaultKind::Torn { keep: v["keep"].as_u64().unwrap_or(0) as usize },
        "disk_full" => FaultKind::DiskFull { heal: v["heal"].as_u64().unwrap_or(0) },
        "disk_full_zero" => FaultKind::DiskFullZero { heal: v["heal"].as_u64().unwrap_or(0) },
        "short" => FaultKind::Short { n: v["n"].as_u64().unwrap_or(1) as usize },
        "eintr" => FaultKind::Eintr,
        "crash" => FaultKind::Crash,
        o => return Err(format!("unknown fault kind {}", o)),
    };
    Ok(Fault { k, kind })
}

pub fn hex(b: &[u8]) -> String {
    // run-length friendly: plain hex, images are small
    let mut s = String::with_capacity(b.len() * 2);
    for x in b {
        s.push_str(&format!("{:02x}", x));
    }
    s
}

pub fn unhex(s: &str) -> Result<Vec<u8>, String> {
    if s.len() % 2 != 0 {
        return Err("odd hex".into());
    }
    (0..s.len() / 2).map(|i| u8::from_str_radix(&s[2 * i..2 * i + 2], 16).map_err(|e| e.to_string())).collect()
}

#[derive(Clone, Debug)]
pub struct Violation {
    pub property: String,
    pub rule: String,
    pub site: String,
    pub msg: String,
    pub step: usize,
}

impl Violation {
    pub fn sig(&self) -> String {
        format!("{}@{}", self.rule, self.site)
    }
    pub fn to_json(&self) -> Value {
        json!({"property": self.property, "rule": self.rule, "site": self.site, "msg": self.msg, "step": self.step, "sig": self.sig()})
    }
}

/// Per-case measurements, merged by the supervisor.
#[derive(Clone, Debug, Default)]
pub struct Stats {
    pub seam_events: u64,
    pub api_calls: u64,
    pub ok_mutations: u64,
    pub boundary_checks: u64,
    pub faults_fired: BTreeMap<String, u64>,
    pub probes: BTreeMap<String, u64>,
    pub state_hashes: Vec<u64>,
    pub op_outcomes: BTreeMap<String, u64>,
    pub known_hits: BTreeMap<String, u64>,
    pub inconclusive: u64,
    pub sub_runs: u64,
    pub clock_span_ticks: u64,
    pub trace_hash: u64,
    pub nontrivial: bool,
}

impl Stats {
    pub fn probe(&mut self, name: &str) {
        *self.probes.entry(name.to_string()).or_insert(0) += 1;
    }
    pub fn probe_n(&mut self, name: &str, n: u64) {
        if n > 0 {
            *self.probes.entry(name.to_string()).or_insert(0) += n;
        }
    }
    pub fn outcome(&mut self, op: &str, res: &str) {
        *self.op_outcomes.entry(format!("{}:{}", op, res)).or_insert(0) += 1;
    }
    pub fn absorb_fired(&mut self, fired: &BTreeMap<&'static str, u64>) {
        for (k, v) in fired {
            *self.faults_fired.entry(k.to_string()).or_insert(0) += v;
        }
    }
    pub fn to_json(&self) -> Value {
        json!({
            "seam_events": self.seam_events, "api_calls": self.api_calls, "ok_mutations": self.ok_mutations,
            "boundary_checks": self.boundary_checks, "faults_fired": self.faults_fired, "probes": self.probes,
            "state_hashes": self.state_hashes.iter().map(|h| format!("{:x}", h)).collect::<Vec<_>>(),
            "op_outcomes": self.op_outcomes, "known_hits": self.known_hits, "inconclusive": self.inconclusive,
            "sub_runs": self.sub_runs, "clock_span_ticks": self.clock_span_ticks.to_string(),
            "trace_hash": format!("{:016x}", self.trace_hash), "nontrivial": self.nontrivial,
        })
    }
}

#[derive(Clone, Debug, Default)]
pub struct Outcome {
    pub violations: Vec<Violation>,
    pub stats: Stats,
    /// Some(reason): the harness itself is inconsistent (exit 2)
    pub harness_error: Option<String>,
    /// for enumerating checks: the explicit single run that failed
    pub replay_case: Option<Case>,
    /// indices of ops the library refused (NotFound / AlreadyExists / InvalidInput)
    pub refused_ops: Vec<usize>,
}
