//! "What am I executing right now": a memory-mapped scratch file into which an
//! enumerating check copies the explicit single run (case JSON + image bytes)
//! before it starts it.  If the process is then killed by the watchdog or dies
//! (abort, stack overflow, memory limit), the supervisor reads the file and
//! reports exactly that run instead of the whole enumeration.

use crate::case::{Case, Init};
use std::sync::atomic::{AtomicPtr, AtomicUsize, Ordering};

const SIZE: usize = 48 << 20;
const MAGIC: u32 = 0x5ca5_e001;
static PTR: AtomicPtr<u8> = AtomicPtr::new(std::ptr::null_mut());
static LEN: AtomicUsize = AtomicUsize::new(0);

/// Map (creating it) the scratch file.  Returns false if that is not possible.
pub fn init(path: &str) -> bool {
    use std::os::unix::io::AsRawFd;
    let f = match std::fs::OpenOptions::new().read(true).write(true).create(true).truncate(true).open(path) {
        Ok(f) => f,
        Err(_) => return false,
    };
    if f.set_len(SIZE as u64).is_err() {
        return false;
    }
    let p = unsafe { libc::mmap(std::ptr::null_mut(), SIZE, libc::PROT_READ | libc::PROT_WRITE, libc::MAP_SHARED, f.as_raw_fd(), 0) };
    if p == libc::MAP_FAILED {
        return false;
    }
    PTR.store(p as *mut u8, Ordering::SeqCst);
    LEN.store(SIZE, Ordering::SeqCst);
    true
}

/// Record the run about to start: `case` without its image, plus the image.
pub fn set(case: &Case, image: &[u8]) {
    let p = PTR.load(Ordering::Relaxed);
    if p.is_null() {
        return;
    }
    let json = case.to_json().to_string();
    let jb = json.as_bytes();
    let need = 4 + 4 + jb.len() + 8 + image.len();
    if need > LEN.load(Ordering::Relaxed) {
        unsafe { std::ptr::write_bytes(p, 0, 4) };
        return;
    }
    unsafe {
        // invalidate, write payload, then validate
        std::ptr::write_bytes(p, 0, 4);
        let mut o = 4usize;
        std::ptr::copy_nonoverlapping((jb.len() as u32).to_le_bytes().as_ptr(), p.add(o), 4);
        o += 4;
        std::ptr::copy_nonoverlapping(jb.as_ptr(), p.add(o), jb.len());
        o += jb.len();
        std::ptr::copy_nonoverlapping((image.len() as u64).to_le_bytes().as_ptr(), p.add(o), 8);
        o += 8;
        std::ptr::copy_nonoverlapping(image.as_ptr(), p.add(o), image.len());
        std::ptr::copy_nonoverlapping(MAGIC.to_le_bytes().as_ptr(), p, 4);
    }
}

pub fn clear() {
    let p = PTR.load(Ordering::Relaxed);
    if !p.is_null() {
        unsafe { std::ptr::write_bytes(p, 0, 4) };
    }
}

/// Supervisor side: decode the scratch file of a dead worker.
pub fn read(path: &str) -> Option<Case> {
    use std::io::Read;
    let mut f = std::fs::File::open(path).ok()?;
    let mut head = [0u8; 8];
    f.read_exact(&mut head).ok()?;
    if u32::from_le_bytes([head[0], head[1], head[2], head[3]]) != MAGIC {
        return None;
    }
    let jl = u32::from_le_bytes([head[4], head[5], head[6], head[7]]) as usize;
    if jl > SIZE {
        return None;
    }
    let mut jb = vec![0u8; jl];
    f.read_exact(&mut jb).ok()?;
    let mut lb = [0u8; 8];
    f.read_exact(&mut lb).ok()?;
    let il = u64::from_le_bytes(lb) as usize;
    if il > SIZE {
        return None;
    }
    let mut img = vec![0u8; il];
    f.read_exact(&mut img).ok()?;
    let v: serde_json::Value = serde_json::from_slice(&jb).ok()?;
    let mut c = Case::from_json(&v).ok()?;
    if !img.is_empty() {
        c.init = Init::Image(img);
    }
    Some(c)
}
