//! Executes operations on the real library (on a `SimDisk`) and turns what a
//! caller can observe into `Res` values.  Every call runs under
//! `catch_unwind`; panics are reported with a normalised location.

use crate::disk::{SimDisk, StepBudgetExceeded};
use crate::dump::{Dump, Meta, Node};
use crate::ops::{system_time_to_ticks, EntryInfo, ErrKind, Op, Res, Whence, T};
use cfb::{CompoundFile, Stream, Version};
use std::cell::RefCell;
use std::io::{BufRead, Read, Seek, SeekFrom, Write};
use std::panic::{catch_unwind, AssertUnwindSafe};


/// CPU watchdog for ONE library call.  The supervisor's per-case CPU limit has to leave room
/// for whole enumerations (tens of CPU-seconds per case); a single API call on the images
/// used here needs well under a second, so a limit per call separates "slow machine" from
/// "loops forever" by a much wider margin and reports a CPU-only loop sooner.  A thread in
/// the worker compares the main thread's CPU clock with its value at the start of the call
/// in flight and ends the process with exit code `HANG_EXIT` when the call has used more than
/// the limit; the supervisor turns that exit code into `hang@process` (the failing single
/// run is recovered from the worker's scratch file as for an abort).
pub mod callwatch {
    use std::sync::atomic::{AtomicU64, Ordering};
    pub const HANG_EXIT: i32 = 86;
    /// 0 = no call in flight, otherwise main-thread CPU nanoseconds at the start of the call + 1
    static SINCE: AtomicU64 = AtomicU64::new(0);
    static STARTED: AtomicU64 = AtomicU64::new(0);
    static CLOCK: AtomicU64 = AtomicU64::new(u64::MAX);
    static MAX_CALL_NS: AtomicU64 = AtomicU64::new(0);

    /// largest CPU time a single (completed) library call has needed in this process
    pub fn max_call_seconds() -> f64 {
        MAX_CALL_NS.load(Ordering::Relaxed) as f64 * 1e-9
    }

    static LIMIT_S: AtomicU64 = AtomicU64::new(90);

    /// CPU-seconds one library call may use: 30 in the quick tier (the largest call there needs
    /// about 0.4 s), 90 in the thorough tier and in replays (a 457 MB version-4 file is grown
    /// there); VERIF_CALL_CPU_LIMIT overrides.
    pub fn limit_s() -> u64 {
        LIMIT_S.load(Ordering::Relaxed)
    }

    fn read(clock: libc::clockid_t) -> u64 {
        let mut ts = libc::timespec { tv_sec: 0, tv_nsec: 0 };
        unsafe {
            libc::clock_gettime(clock, &mut ts);
        }
        ts.tv_sec as u64 * 1_000_000_000 + ts.tv_nsec as u64
    }

    /// Call once on the thread that executes the cases.
    /// Sets the limit without starting the watchdog (the supervisor only reports it).
    pub fn configure(default_limit_s: u64) {
        LIMIT_S.store(std::env::var("VERIF_CALL_CPU_LIMIT").ok().and_then(|s| s.parse::<u64>().ok()).unwrap_or(default_limit_s), Ordering::SeqCst);
    }

    pub fn start(default_limit_s: u64) {
        if STARTED.swap(1, Ordering::SeqCst) != 0 {
            return;
        }
        configure(default_limit_s);
        let mut cid: libc::clockid_t = 0;
        let rc = unsafe { libc::pthread_getcpuclockid(libc::pthread_self(), &mut cid) };
        if rc != 0 {
            return;
        }
        CLOCK.store(cid as i64 as u64, Ordering::SeqCst);
        let limit = limit_s() * 1_000_000_000;
        std::thread::spawn(move || loop {
            std::thread::sleep(std::time::Duration::from_millis(250));
            let since = SINCE.load(Ordering::SeqCst);
            if since == 0 {
                continue;
            }
            let now = read(cid);
            if now > since - 1 && now - (since - 1) > limit && SINCE.load(Ordering::SeqCst) == since {
                eprintln!("callwatch: one library call used more than {} CPU-seconds", limit / 1_000_000_000);
                unsafe { libc::_exit(HANG_EXIT) };
            }
        });
    }

    pub struct InCall(bool);

    /// Marks a library call as in flight until the guard is dropped (nested guards are no-ops).
    pub fn enter() -> InCall {
        let c = CLOCK.load(Ordering::Relaxed);
        if c == u64::MAX || SINCE.load(Ordering::Relaxed) != 0 {
            return InCall(false);
        }
        SINCE.store(read(c as i64 as libc::clockid_t) + 1, Ordering::SeqCst);
        InCall(true)
    }

    impl Drop for InCall {
        fn drop(&mut self) {
            if self.0 {
                let since = SINCE.load(Ordering::Relaxed);
                let c = CLOCK.load(Ordering::Relaxed);
                let now = read(c as i64 as libc::clockid_t);
                if since != 0 && now >= since - 1 {
                    MAX_CALL_NS.fetch_max(now - (since - 1), Ordering::Relaxed);
                }
                SINCE.store(0, Ordering::SeqCst);
            }
        }
    }
}

thread_local! {
    static LAST_PANIC: RefCell<Option<String>> = const { RefCell::new(None) };
}

/// Install a quiet panic hook that records "file:line: message".
pub fn install_panic_hook() {
    std::panic::set_hook(Box::new(|info| {
        let loc = info.location().map(|l| format!("{}:{}", l.file(), l.line())).unwrap_or_else(|| "?".into());
        let msg = if let Some(s) = info.payload().downcast_ref::<&str>() {
            s.to_string()
        } else if let Some(s) = info.payload().downcast_ref::<String>() {
            s.clone()
        } else if info.payload().downcast_ref::<StepBudgetExceeded>().is_some() {
            "<step budget exceeded>".to_string()
        } else {
            "<non-string panic>".to_string()
        };
        LAST_PANIC.with(|p| {
            let mut p = p.borrow_mut();
            // keep the FIRST panic of a call (a second one is usually a poisoned lock)
            if p.is_none() {
                *p = Some(format!("{}: {}", loc, msg));
            }
        });
    }));
}

pub fn clear_panic() {
    LAST_PANIC.with(|p| *p.borrow_mut() = None);
}

pub fn take_panic() -> String {
    LAST_PANIC.with(|p| p.borrow_mut().take()).unwrap_or_else(|| "?: <unknown panic>".into())
}

/// Strip digits from a panic message so the site is stable across inputs.
pub fn normalise_site(s: &str) -> String {
    // keep "file:line" as is, strip digits from the message part
    let (loc, msg) = match s.find(": ") {
        Some(i) => (&s[..i], &s[i + 2..]),
        None => (s, ""),
    };
    // the crate's sources may live in a snapshot of /repo (background runs): keep "src/..."
    let loc = match loc.find("/src/internal/").or_else(|| loc.find("/src/lib.rs")) {
        Some(i) if loc.starts_with('/') => &loc[i + 1..],
        _ => loc.trim_start_matches("/repo/"),
    };
    let mut m = String::new();
    let mut last_hash = false;
    for c in msg.chars().take(80) {
        if c.is_ascii_digit() {
            if !last_hash {
                m.push('#');
            }
            last_hash = true;
        } else {
            m.push(if c.is_whitespace() { '_' } else { c });
            last_hash = false;
        }
    }
    format!("{}:{}", loc, m)
}

pub fn version_of(v: u16) -> Version {
    if v == 3 {
        Version::V3
    } else {
        Version::V4
    }
}

pub struct Lib {
    pub disk: SimDisk,
    pub cf: Option<CompoundFile<SimDisk>>,
    pub handles: Vec<Option<Stream<SimDisk>>>,
    pub last_fill: Vec<usize>,
    pub bufsize: Option<usize>,
    pub call_no: u32,
    /// seam-step budget per API call: base + per_byte * image_len / 64
    pub budget_base: u64,
}

fn entry_info(e: &cfb::Entry) -> EntryInfo {
    EntryInfo {
        name: e.name().to_string(),
        path: e.path().to_string_lossy().into_owned(),
        is_stream: e.is_stream(),
        is_storage: e.is_storage(),
        is_root: e.is_root(),
        len: e.len(),
        meta: Meta {
            clsid: *e.clsid().as_bytes(),
            state_bits: e.state_bits(),
            created: system_time_to_ticks(e.created()),
            modified: system_time_to_ticks(e.modified()),
        },
    }
}

pub fn io_err(e: std::io::Error) -> Res {
    Res::Err(ErrKind::of(&e), e.to_string())
}

pub fn set_clock(t: T) {
    cfb::verif_hooks::set_clock(t.to_system_time());
}

impl Lib {
    /// Create a fresh compound file on `disk`.  Returns the library's error as Err.
    pub fn create(disk: SimDisk, version: u16, bufsize: Option<usize>) -> Result<Lib, Res> {
        let d2 = disk.clone();
        clear_panic();
        let _w = callwatch::enter();
        let r = catch_unwind(AssertUnwindSafe(|| match (version, bufsize) {
            (4, Some(b)) => cfb::OpenOptions::new().max_buffer_size(b).create_with(d2),
            // the plain constructors are public API too (version 4 is what `create` makes;
            // `create_with_version(V4)` is used by pathapi::create_bytes)
            (4, None) => CompoundFile::create(d2),
            (v, _) => CompoundFile::create_with_version(version_of(v), d2),
        }));
        match r {
            Ok(Ok(cf)) => Ok(Lib::wrap(disk, cf, bufsize)),
            Ok(Err(e)) => Err(io_err(e)),
            Err(_) => Err(Res::Panic(take_panic())),
        }
    }

    /// Open the bytes on `disk`.
    pub fn open(disk: SimDisk, strict: bool, bufsize: Option<usize>) -> Result<Lib, Res> {
        let d2 = disk.clone();
        clear_panic();
        let _w = callwatch::enter();
        let r = catch_unwind(AssertUnwindSafe(|| {
            // without options: the plain constructors `CompoundFile::open` / `open_strict`
            // (for about half of the images, chosen by the image's length so that a replay
            // takes the same route; the others go through OpenOptions without a buffer size)
            let plain = bufsize.is_none() && (d2.len() / 512) % 2 == 1;
            if plain {
                return if strict { CompoundFile::open_strict(d2) } else { CompoundFile::open(d2) };
            }
            let mut o = cfb::OpenOptions::new();
            if let Some(b) = bufsize {
                o = o.max_buffer_size(b);
            }
            if strict {
                o = o.strict();
            }
            o.open_with(d2)
        }));
        match r {
            Ok(Ok(cf)) => Ok(Lib::wrap(disk, cf, bufsize)),
            Ok(Err(e)) => Err(io_err(e)),
            Err(p) => {
                if p.downcast_ref::<StepBudgetExceeded>().is_some() {
                    let _ = take_panic();
                    Err(Res::Hang)
                } else {
                    Err(Res::Panic(take_panic()))
                }
            }
        }
    }

    fn wrap(disk: SimDisk, cf: CompoundFile<SimDisk>, bufsize: Option<usize>) -> Lib {
        Lib {
            disk,
            cf: Some(cf),
            handles: vec![None, None, None, None],
            last_fill: vec![0; 4],
            bufsize,
            call_no: 0,
            budget_base: 0,
        }
    }

    /// V3 files created with a buffer size: `create_with` only makes V4, so for
    /// V3 + custom buffer we create (default buffer) and reopen with options.
    pub fn create_cfg(disk: SimDisk, version: u16, bufsize: Option<usize>) -> Result<Lib, Res> {
        if version == 3 && bufsize.is_some() {
            let l = Lib::create(disk.clone(), 3, None)?;
            drop(l);
            Lib::open(disk, false, bufsize)
        } else {
            Lib::create(disk, version, bufsize)
        }
    }

    fn budget(&self) -> u64 {
        if self.budget_base == 0 {
            u64::MAX
        } else {
            self.budget_base + 40 * (self.disk.len() as u64 / 64)
        }
    }

    /// Drop all handles and the CompoundFile without calling flush on the file.
    pub fn close(&mut self) {
        let _w = callwatch::enter();
        let _ = catch_unwind(AssertUnwindSafe(|| {
            for h in self.handles.iter_mut() {
                *h = None;
            }
            self.cf = None;
        }));
    }

    /// Forget handles WITHOUT running their destructors' write-back (crash).
    pub fn crash(&mut self) {
        for h in self.handles.iter_mut() {
            if let Some(s) = h.take() {
                std::mem::forget(s);
            }
        }
        if let Some(cf) = self.cf.take() {
            std::mem::forget(cf);
        }
    }

    pub fn drop_handle(&mut self, h: usize) {
        let _w = callwatch::enter();
        let _ = catch_unwind(AssertUnwindSafe(|| {
            self.handles[h] = None;
        }));
    }

    /// Execute one op.  `Reopen` is handled here too.
    pub fn exec(&mut self, op: &Op) -> Res {
        self.call_no += 1;
        self.disk.begin_call(self.call_no, self.budget());
        clear_panic();
        let _w = callwatch::enter();
        let r = catch_unwind(AssertUnwindSafe(|| self.exec_inner(op)));
        match r {
            Ok(res) => res,
            Err(p) => {
                if p.downcast_ref::<StepBudgetExceeded>().is_some() {
                    let _ = take_panic();
                    Res::Hang
                } else {
                    Res::Panic(take_panic())
                }
            }
        }
    }

    fn exec_inner(&mut self, op: &Op) -> Res {
        if let Op::Reopen { strict } = op {
            self.close();
            return match Lib::open(self.disk.clone(), *strict, self.bufsize) {
                Ok(l) => {
                    let call_no = self.call_no;
                    let base = self.budget_base;
                    *self = l;
                    self.call_no = call_no;
                    self.budget_base = base;
                    Res::Unit
                }
                Err(r) => r,
            };
        }
        if let Op::SetClock(t) = op {
            set_clock(*t);
            return Res::Unit;
        }
        let cf = match self.cf.as_mut() {
            Some(c) => c,
            None => return Res::Skipped,
        };
        let unit = |r: std::io::Result<()>| match r {
            Ok(()) => Res::Unit,
            Err(e) => io_err(e),
        };
        match op {
            Op::Reopen { .. } | Op::SetClock(_) => unreachable!(),
            Op::CreateStorage(p) => unit(cf.create_storage(p)),
            Op::CreateStorageAll(p) => unit(cf.create_storage_all(p)),
            Op::RemoveStorage(p) => unit(cf.remove_storage(p)),
            Op::RemoveStorageAll(p) => unit(cf.remove_storage_all(p)),
            Op::CreateStream(p) => unit(cf.create_stream(p).map(|s| drop(s))),
            Op::CreateNewStream(p) => unit(cf.create_new_stream(p).map(|s| drop(s))),
            Op::RemoveStream(p) => unit(cf.remove_stream(p)),
            Op::WriteWhole { path, len, nonce } => {
                let mut s = match cf.create_stream(path) {
                    Ok(s) => s,
                    Err(e) => return io_err(e),
                };
                let data = crate::prng::pattern(*nonce, 0, *len as usize);
                if let Err(e) = s.write_all(&data) {
                    return io_err(e);
                }
                if let Err(e) = s.flush() {
                    return io_err(e);
                }
                Res::Unit
            }
            Op::ReadWhole(p) => {
                let mut s = match cf.open_stream(p) {
                    Ok(s) => s,
                    Err(e) => return io_err(e),
                };
                let mut v = Vec::new();
                match s.read_to_end(&mut v) {
                    Ok(_) => Res::Bytes(v),
                    Err(e) => io_err(e),
                }
            }
            Op::Entry(p) => match cf.entry(p) {
                Ok(e) => Res::Entry(entry_info(&e)),
                Err(e) => io_err(e),
            },
            Op::RootEntry => Res::Entry(entry_info(&cf.root_entry())),
            Op::Exists(p) => Res::Bool(cf.exists(p)),
            Op::IsStream(p) => Res::Bool(cf.is_stream(p)),
            Op::IsStorage(p) => Res::Bool(cf.is_storage(p)),
            Op::ReadStorage(p) => match cf.read_storage(p) {
                Ok(it) => Res::Listing(it.map(|e| entry_info(&e)).collect()),
                Err(e) => io_err(e),
            },
            Op::ReadRoot => Res::Listing(cf.read_root_storage().map(|e| entry_info(&e)).collect()),
            Op::Walk => Res::Listing(cf.walk().map(|e| entry_info(&e)).collect()),
            Op::WalkStorage(p) => match cf.walk_storage(p) {
                Ok(it) => Res::Listing(it.map(|e| entry_info(&e)).collect()),
                Err(e) => io_err(e),
            },
            Op::SetStateBits(p, b) => unit(cf.set_state_bits(p, *b)),
            Op::SetClsid(p, c) => unit(cf.set_storage_clsid(p, uuid::Uuid::from_bytes(*c))),
            Op::SetCreated(p, t) => match t.to_system_time() {
                Some(st) => unit(cf.set_created_time(p, st)),
                None => Res::Skipped,
            },
            Op::SetModified(p, t) => match t.to_system_time() {
                Some(st) => unit(cf.set_modified_time(p, st)),
                None => Res::Skipped,
            },
            Op::Touch(p) => unit(cf.touch(p)),
            Op::FlushFile => unit(cf.flush()),
            Op::Version => Res::Num(match cf.version() {
                Version::V3 => 3,
                Version::V4 => 4,
            }),
            Op::HOpen { h, path } => match cf.open_stream(path) {
                Ok(s) => {
                    self.handles[*h] = Some(s);
                    self.last_fill[*h] = 0;
                    Res::Unit
                }
                Err(e) => io_err(e),
            },
            Op::HCreate { h, path } | Op::HCreateNew { h, path } => {
                let r = if matches!(op, Op::HCreate { .. }) { cf.create_stream(path) } else { cf.create_new_stream(path) };
                match r {
                    Ok(s) => {
                        self.handles[*h] = Some(s);
                        self.last_fill[*h] = 0;
                        Res::Unit
                    }
                    Err(e) => io_err(e),
                }
            }
            Op::HDrop { h } => {
                self.handles[*h] = None;
                Res::Unit
            }
            _ => {
                let h = op.handle().unwrap();
                let s = match self.handles[h].as_mut() {
                    Some(s) => s,
                    None => return Res::Skipped,
                };
                match op {
                    Op::HRead { n, .. } => {
                        let mut buf = vec![0u8; *n];
                        match s.read(&mut buf) {
                            Ok(m) => {
                                if m > *n {
                                    return Res::Panic(format!("harness: read returned {} > buffer {}", m, n));
                                }
                                buf.truncate(m);
                                self.last_fill[h] = 0;
                                Res::Bytes(buf)
                            }
                            Err(e) => {
                                self.last_fill[h] = 0;
                                io_err(e)
                            }
                        }
                    }
                    Op::HReadFull { n, .. } => {
                        self.last_fill[h] = 0;
                        let mut buf = vec![0u8; *n];
                        let mut got = 0usize;
                        while got < *n {
                            match s.read(&mut buf[got..]) {
                                Ok(0) => break,
                                Ok(m) => got += m,
                                Err(e) if e.kind() == std::io::ErrorKind::Interrupted => continue,
                                Err(e) => return io_err(e),
                            }
                        }
                        buf.truncate(got);
                        self.last_fill[h] = 0;
                        Res::Bytes(buf)
                    }
                    Op::HFillBuf { .. } => {
                        // a failed fill_buf hands out nothing that could be consumed
                        self.last_fill[h] = 0;
                        match s.fill_buf() {
                            Ok(b) => {
                                let v = b.to_vec();
                                self.last_fill[h] = v.len();
                                Res::Bytes(v)
                            }
                            Err(e) => io_err(e),
                        }
                    }
                    Op::HConsume { n, .. } => {
                        let c = (*n).min(self.last_fill[h]);
                        s.consume(c);
                        self.last_fill[h] -= c;
                        Res::Unit
                    }
                    Op::HWrite { len, nonce, .. } => {
                        let data = crate::prng::pattern(*nonce, 0, *len);
                        self.last_fill[h] = 0;
                        match s.write(&data) {
                            Ok(m) => Res::Num(m as u64),
                            Err(e) => io_err(e),
                        }
                    }
                    Op::HWriteAll { len, nonce, .. } => {
                        let data = crate::prng::pattern(*nonce, 0, *len);
                        self.last_fill[h] = 0;
                        match s.write_all(&data) {
                            Ok(()) => Res::Unit,
                            Err(e) => io_err(e),
                        }
                    }
                    Op::HSeek { whence, off, uoff, .. } => {
                        let sf = match whence {
                            Whence::Start => SeekFrom::Start(*uoff),
                            Whence::End => SeekFrom::End(*off),
                            Whence::Current => SeekFrom::Current(*off),
                        };
                        match s.seek(sf) {
                            Ok(p) => {
                                self.last_fill[h] = 0;
                                Res::Num(p)
                            }
                            Err(e) => io_err(e),
                        }
                    }
                    Op::HSetLen { n, .. } => {
                        self.last_fill[h] = 0;
                        unit(s.set_len(*n))
                    }
                    Op::HFlush { .. } => unit(s.flush()),
                    Op::HLen { .. } => Res::Num(s.len()),
                    Op::HPos { .. } => match s.stream_position() {
                        Ok(p) => Res::Num(p),
                        Err(e) => io_err(e),
                    },
                    _ => unreachable!(),
                }
            }
        }
    }

    /// Full logical dump through the public API (walk + read every stream).
    /// Streams listed in `skip` are not opened (their data is left empty).
    pub fn dump(&mut self, skip: &[String]) -> Result<Dump, Res> {
        self.call_no += 1;
        self.disk.begin_call(self.call_no, if self.budget_base == 0 { u64::MAX } else { self.budget().saturating_mul(8) });
        clear_panic();
        let _w = callwatch::enter();
        let r = catch_unwind(AssertUnwindSafe(|| dump_api(self.cf.as_mut().unwrap(), skip)));
        match r {
            Ok(Ok(d)) => Ok(d),
            Ok(Err(e)) => Err(e),
            Err(p) => {
                if p.downcast_ref::<StepBudgetExceeded>().is_some() {
                    let _ = take_panic();
                    Err(Res::Hang)
                } else {
                    Err(Res::Panic(take_panic()))
                }
            }
        }
    }
}

pub fn dump_api<F: std::io::Read + std::io::Seek>(cf: &mut CompoundFile<F>, skip: &[String]) -> Result<Dump, Res> {
    let entries: Vec<cfb::Entry> = cf.walk().collect();
    if entries.is_empty() || !entries[0].is_root() {
        return Err(Res::Err(ErrKind::Other, "walk() did not start with the root".into()));
    }
    // Build the tree from pre-order paths.
    let mut stack: Vec<(String, Node)> = Vec::new(); // (path, node)
    let mut root: Option<Node> = None;
    fn fold(stack: &mut Vec<(String, Node)>, root: &mut Option<Node>) {
        let (_, n) = stack.pop().unwrap();
        if let Some((_, p)) = stack.last_mut() {
            p.children.push(n);
        } else {
            *root = Some(n);
        }
    }
    for e in entries.iter() {
        let info = entry_info(e);
        let mut node = Node {
            name: info.name.clone(),
            is_stream: info.is_stream,
            meta: info.meta.clone(),
            data: Vec::new(),
            children: Vec::new(),
        };
        if info.is_stream && !skip.iter().any(|s| s == &info.path) {
            let mut s = cf.open_stream(e.path()).map_err(io_err)?;
            let mut v = Vec::new();
            s.read_to_end(&mut v).map_err(io_err)?;
            if v.len() as u64 != info.len {
                return Err(Res::Err(
                    ErrKind::Other,
                    format!("stream {:?}: entry len {} but read_to_end gave {}", info.path, info.len, v.len()),
                ));
            }
            node.data = v;
        }
        // parent path of this entry
        let parent = match info.path.rfind('/') {
            Some(0) | None => "/".to_string(),
            Some(i) => info.path[..i].to_string(),
        };
        if info.is_root {
            stack.push(("/".to_string(), node));
            continue;
        }
        while stack.len() > 1 && stack.last().unwrap().0 != parent {
            fold(&mut stack, &mut root);
        }
        if stack.last().map(|s| s.0.as_str()) != Some(parent.as_str()) {
            return Err(Res::Err(ErrKind::Other, format!("walk() order is not a pre-order: {:?} has no open parent", info.path)));
        }
        stack.push((info.path.clone(), node));
    }
    while !stack.is_empty() {
        fold(&mut stack, &mut root);
    }
    Ok(Dump { root: root.unwrap() })
}
