pub mod dump;
pub mod names;
pub mod prng;
