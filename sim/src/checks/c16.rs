//! C16 — strict acceptance implies permissive acceptance with the same meaning;
//! documented deviations are tolerated by permissive open and rejected by strict.

use super::c05;
use super::images;
use super::{CheckDef, Tier};
use crate::case::{Case, Init, Outcome, Violation};
use crate::corrupt::{self, Deviation};
use crate::disk::SimDisk;
use crate::driver::{normalise_site, Lib};
use crate::dump::{self, Dump};
use crate::imgck;
use crate::ops::{Op, Res, Whence};
use crate::prng::Rng;
use std::collections::BTreeSet;

pub fn def() -> CheckDef {
    CheckDef {
        id: "C16",
        level: "fault_enumeration",
        cases: |t| match t {
            Tier::Quick => 40 + CORPUS_QUICK,
            Tier::Thorough => 2_000 + CORPUS_THOROUGH,
        },
        gen,
        run,
        rule: "one case = one valid base image (drawn history through the library, or a drawn layout by the independent writer; the first case of a run is a V3 file with > 109 FAT sectors so that DIFAT-sector deviations apply) and (b) the ENUMERATION of every documented tolerated deviation at every applicable place (zero-padded FAT tail; zero-padded DIFAT tail; each FAT / DIFAT sector not marked; DIFAT chain ended by FREESECT; every parent/child pair red-red; every name unterminated; wrong root name; CLSID / creation / modification time on every stream; start sector / size on every storage; FAT / DIFAT / MiniFAT sector counts off by one; non-zero directory-sector count in V3; MiniFAT longer than the mini stream), singly and in drawn combinations of 2-3: permissive open must accept with the SAME logical dump as the undamaged base and strict open must reject - through open_with on the simulated disk for every image, and through the path-based constructors OpenOptions::[strict().]open(path) / open_rw(path) on a real scratch file for the first image of every recipe and every 8th combination; (a) for the whole corpus - base, deviated images, a sample of C05's damaged images, and (cases 1..300 in quick) 40 small foreign layouts each from the independent writer - whenever open_strict accepts, open accepts too and both dumps are identical. sub_runs = images judged. Non-trivial: >= 1 deviation applied; distinct = distinct image hashes. About half of the small bases get a spare, empty DIFAT sector appended first (legal spare capacity as another writer might reserve it; the zero-padded-DIFAT deviation then applies to a file with fewer than 109 FAT sectors). Every pair of recipes (one representative place per recipe and variant) is judged too; near-miss root names (other letter case, one unit short or long) and header counts that are too small or zero are among the variants.",
        assumptions: &["the base image must itself pass open_strict; otherwise the case is skipped and counted (that is C02/C03/C04's subject)"],
        cpu_limit_s: 1200,
        fault_kinds: "F-FC deviation recipes (enumerated at every place, and combined), plus a sample of C05 damage for clause (a)",
        count_subruns: true,
        expect_probes: &["deviations_applicable"],
    }
}

const CORPUS_QUICK: u64 = 300;
const CORPUS_THOROUGH: u64 = 20_000;
const CORPUS_IMAGES: u64 = 40;

pub fn gen(seed: u64, idx: u64, tier: Tier) -> Case {
    let mut rng = Rng::for_case(seed, "C16", idx);
    let ncorpus = if tier == Tier::Quick { CORPUS_QUICK } else { CORPUS_THOROUGH };
    if idx >= 1 && idx <= ncorpus {
        // clause (a) over many small foreign layouts: strict acceptance => permissive acceptance, same meaning
        let mut c = Case::new("C16", "foreign-corpus", 3);
        c.params.insert("seed".into(), (rng.next_u64() >> 2) as i64);
        c.params.insert("images".into(), CORPUS_IMAGES as i64);
        return c;
    }
    let idx = if idx > ncorpus { idx - ncorpus } else { idx };
    let version = if idx == 0 { 3 } else if rng.chance(1, 2) { 3 } else { 4 };
    let mut c = Case::new("C16", "enumerate", version);
    c.params.insert("seed".into(), (rng.next_u64() >> 2) as i64);
    if idx == 0 {
        c.mode = "difat-base".into();
        c.ops = vec![
            Op::CreateStorage("/d".into()),
            Op::WriteWhole { path: "/d/small".into(), len: 100, nonce: 1 },
            Op::HCreate { h: 0, path: "/big".into() },
            Op::HSetLen { h: 0, n: 7_250_000 },
            Op::HSeek { h: 0, whence: Whence::Start, off: 0, uoff: 7_000_000 },
            Op::HWriteAll { h: 0, len: 3000, nonce: 2 },
            Op::HDrop { h: 0 },
            Op::WriteWhole { path: "/mid".into(), len: 5000, nonce: 3 },
        ];
    } else if idx % 3 == 2 {
        if idx % 2 == 0 {
            c.params.insert("spare_difat".into(), 1);
        }
        c.mode = "foreign-base".into();
        let mut plan = crate::imgwr::plan_from_seed(rng.next_u64(), version);
        plan.v3_size_high_garbage = false;
        plan.library_like_trees = rng.chance(1, 2);
        if rng.chance(1, 2) {
            // DIFAT sectors in a small file (both versions): the DIFAT-sector deviations apply
            plan.extra_fat_sectors = 108 + rng.range(1, 8) as u32;
            if version == 3 && rng.chance(1, 3) {
                // two DIFAT sectors
                plan.extra_fat_sectors = 0;
                plan.total_fat_sectors = 237 + rng.below(100) as u32;
            }
        }
        c.init = Init::Foreign { content_seed: rng.next_u64(), max_entries: 14, max_stream: 9000, plan };
    } else {
        if idx % 2 == 1 {
            c.params.insert("spare_difat".into(), 1);
        }
        c.ops = images::gen_build_ops(&mut rng, version);
    }
    c
}

enum Opened {
    Ok(Dump),
    Rejected(String),
    Bad(String, String, String),
}

static SEAM: std::sync::atomic::AtomicU64 = std::sync::atomic::AtomicU64::new(0);

fn open_and_dump(img: &[u8], strict: bool) -> Opened {
    let disk = SimDisk::new(img.to_vec());
    let r = open_and_dump_on(disk.clone(), img.len(), strict);
    SEAM.fetch_add(disk.k(), std::sync::atomic::Ordering::Relaxed);
    r
}

fn open_and_dump_on(disk: SimDisk, len: usize, strict: bool) -> Opened {
    let img_len = len;
    disk.0.borrow_mut().budget = 2_000_000 + 400 * (img_len as u64 / 64);
    match Lib::open(disk, strict, None) {
        Ok(mut lib) => {
            lib.budget_base = 2_000_000;
            let r = lib.dump(&[]);
            lib.close();
            match r {
                Ok(d) => Opened::Ok(d),
                Err(Res::Panic(p)) => Opened::Bad("panic".into(), normalise_site(&p), format!("dump panicked: {}", p)),
                Err(Res::Hang) => Opened::Bad("hang".into(), "dump".into(), "dump exceeded its budget".into()),
                Err(r) => Opened::Rejected(format!("accepted by open but the dump failed: {}", r.brief())),
            }
        }
        Err(Res::Panic(p)) => Opened::Bad("panic".into(), normalise_site(&p), format!("open panicked: {}", p)),
        Err(Res::Hang) => Opened::Bad("hang".into(), "open".into(), "open exceeded its budget".into()),
        Err(r) => Opened::Rejected(r.brief()),
    }
}

/// Clause (a) on one image.  None = holds.
fn strict_implies_permissive(img: &[u8]) -> Option<(String, String, String)> {
    match open_and_dump(img, true) {
        Opened::Ok(ds) => match open_and_dump(img, false) {
            Opened::Ok(dp) => dump::diff(&ds, &dp).map(|d| ("strict-vs-permissive.dumps-differ".to_string(), "dump".to_string(), format!("strict and permissive open both accept but expose different content: {}", d))),
            Opened::Rejected(e) => Some(("strict-accepts-permissive-rejects".into(), "open".into(), format!("open_strict accepts but open rejects: {}", e))),
            Opened::Bad(..) => None, // panics/hangs are C05's business
        },
        _ => None,
    }
}

fn overlap(a: &Deviation, b: &Deviation) -> bool {
    // Two deviations that no reader can tell apart from damage are not "a combination of
    // tolerated deviations": a DIFAT tail padded with zeros is recognised by counting against
    // the header's FAT-sector count (src/lib.rs: "In case num_fat_sectors is not reliable, only
    // remove zeroes" down to that count); if that count also overstates, the first padding zero
    // IS a legal DIFAT entry (sector 0), and nothing in the file says otherwise.
    let interferes = |x: &Deviation, y: &Deviation| x.recipe == "zero-padded-difat" && y.recipe == "wrong-num-fat-sectors" && y.place == "+1";
    if interferes(a, b) || interferes(b, a) {
        return true;
    }
    a.edits.iter().any(|(o1, b1)| b.edits.iter().any(|(o2, b2)| *o1 < *o2 + b2.len() && *o2 < *o1 + b1.len()))
}

pub fn run(case: &Case, known: &BTreeSet<String>) -> Outcome {
    SEAM.store(0, std::sync::atomic::Ordering::Relaxed);
    let mut o = run_inner(case, known);
    o.stats.seam_events += SEAM.load(std::sync::atomic::Ordering::Relaxed);
    o
}

fn run_inner(case: &Case, _known: &BTreeSet<String>) -> Outcome {
    let mut o = Outcome::default();
    let report = |o: &mut Outcome, v: (String, String, String), desc: &str, img: &[u8], base: Option<&[u8]>| {
        let mut rc = Case::new("C16", "single-image", case.version);
        rc.init = Init::Image(img.to_vec());
        rc.params.insert("seed".into(), case.param("seed", 1));
        if base.is_some() {
            rc.params.insert("has_base".into(), 1);
        }
        o.replay_case = Some(rc);
        o.violations.push(Violation { property: "C16".into(), rule: v.0, site: v.1, msg: format!("[{}] {}", desc, v.2), step: 0 });
    };
    if case.mode == "single-image" {
        // replay of clause (a) on an explicit image
        if let Init::Image(b) = &case.init {
            o.stats.sub_runs += 1;
            if let Some(v) = strict_implies_permissive(b) {
                report(&mut o, v, "explicit image", b, None);
            }
        }
        return o;
    }
    if case.mode == "foreign-corpus" {
        let mut rng = Rng::new(case.param("seed", 1) as u64);
        let mut hashes: BTreeSet<u64> = BTreeSet::new();
        for _ in 0..case.param("images", 40) {
            let version = if rng.chance(1, 2) { 3 } else { 4 };
            let mut plan = crate::imgwr::plan_from_seed(rng.next_u64(), version);
            plan.v3_size_high_garbage = false;
            plan.library_like_trees = rng.chance(1, 2);
            let mut crng = Rng::new(rng.next_u64());
            let mut content = crate::imgwr::gen_content(&mut crng, 8, 6000);
            content.root.meta.created = 0;
            let img = match crate::imgwr::write_image(&content, &plan) {
                Ok(i) => i,
                Err(_) => continue,
            };
            o.stats.sub_runs += 1;
            o.stats.boundary_checks += 1;
            hashes.insert(crate::prng::fnv(&img));
            if let Some(v) = strict_implies_permissive(&img) {
                report(&mut o, v, "foreign layout (independent writer)", &img, None);
                break;
            }
        }
        o.stats.state_hashes = hashes.iter().copied().collect();
        o.stats.trace_hash = hashes.iter().fold(7, |a, b| a ^ crate::prng::mix(*b));
        o.stats.ok_mutations = hashes.len() as u64;
        o.stats.nontrivial = !hashes.is_empty();
        return o;
    }
    let base = match c05::base_of(case) {
        Ok(mut b) => {
            if case.param("spare_difat", 0) == 1 {
                // spare capacity as another writer might reserve it: an empty DIFAT sector
                if let Some(img) = crate::corrupt::add_spare_difat_sector(&b.image) {
                    b.image = img;
                    o.stats.probe("base_with_spare_difat_sector");
                }
            }
            b
        }
        Err(e) => {
            if e.starts_with("BUILD-PANIC") {
                o.stats.probe("base_unusable(other property)");
            } else {
                o.harness_error = Some(e);
            }
            return o;
        }
    };
    let base_dump = match (open_and_dump(&base.image, true), open_and_dump(&base.image, false)) {
        (Opened::Ok(s), Opened::Ok(p)) => {
            if let Some(d) = dump::diff(&s, &p) {
                report(&mut o, ("strict-vs-permissive.dumps-differ".into(), "dump".into(), d), "undamaged base", &base.image, None);
                return o;
            }
            p
        }
        (_, _) => {
            o.stats.probe("base_not_strictly_valid(other property)");
            return o;
        }
    };
    o.stats.sub_runs += 2;
    let parsed = imgck::check(&base.image);
    let l = &parsed.layout;
    let devs = corrupt::deviations(&base.image, l);
    let mut rng = Rng::new(case.param("seed", 1) as u64 ^ 0x1616);
    let only = case.param("only_deviation", -1);
    let mut hashes: BTreeSet<u64> = BTreeSet::new();
    let mut judged = 0u64;
    let mut path_done: BTreeSet<&'static str> = BTreeSet::new();
    // the path-based constructors on a real file holding the same bytes must give the same
    // verdicts (first image of every recipe, every 8th combination; small images only)
    let scratch = match crate::pathapi::Scratch::new("c16") {
        Ok(s) => s,
        Err(e) => {
            o.harness_error = Some(e);
            return o;
        }
    };
    let path_parity = |o: &mut Outcome, img: &[u8], desc: &str, site: &str, strict_rejects: bool| -> bool {
        let path = match scratch.put("f.cfb", img) {
            Ok(p) => p,
            Err(e) => {
                o.harness_error = Some(e);
                return false;
            }
        };
        o.stats.probe("path_api_images");
        for rw in [false, true] {
            let api = if rw { "open_rw(path)" } else { "open(path)" };
            match crate::pathapi::open_path(&path, false, rw, None) {
                Ok(seen) => {
                    if let Some(diff) = dump::diff(&seen.dump, &base_dump) {
                        o.violations.push(Violation { property: "C16".into(), rule: "deviation.path-content-differs".into(), site: site.into(), msg: format!("[{}] OpenOptions::new().{} on a real file accepts but exposes different content than the undamaged file: {}", desc, api, diff), step: 0 });
                        return false;
                    }
                }
                Err(r) => {
                    o.violations.push(Violation { property: "C16".into(), rule: "deviation.path-permissive-rejects".into(), site: site.into(), msg: format!("[{}] OpenOptions::new().{} on a real file rejects a documented tolerated deviation that open_with accepts: {}", desc, api, r.brief()), step: 0 });
                    return false;
                }
            }
            if strict_rejects {
                if crate::pathapi::open_path(&path, true, rw, None).is_ok() {
                    o.violations.push(Violation { property: "C16".into(), rule: "deviation.path-strict-accepts".into(), site: site.into(), msg: format!("[{}] OpenOptions::new().strict().{} on a real file accepts a file that strict open_with rejects", desc, api), step: 0 });
                    return false;
                }
            }
        }
        true
    };
    let judge = |o: &mut Outcome, img: &[u8], desc: &str, site: &str, strict_rejects: bool| -> bool {
        // permissive: accept, same content
        match open_and_dump(img, false) {
            Opened::Ok(d) => {
                if let Some(diff) = dump::diff(&d, &base_dump) {
                    o.violations.push(Violation { property: "C16".into(), rule: "deviation.content-differs".into(), site: site.into(), msg: format!("[{}] permissive open accepts but exposes different content than the undamaged file: {}", desc, diff), step: 0 });
                    return false;
                }
            }
            Opened::Rejected(e) => {
                o.violations.push(Violation { property: "C16".into(), rule: "deviation.permissive-rejects".into(), site: site.into(), msg: format!("[{}] permissive open rejects a documented tolerated deviation: {}", desc, e), step: 0 });
                return false;
            }
            Opened::Bad(r, s, m) => {
                o.violations.push(Violation { property: "C16".into(), rule: r, site: s, msg: format!("[{}] {}", desc, m), step: 0 });
                return false;
            }
        }
        if strict_rejects {
            if let Opened::Ok(_) = open_and_dump(img, true) {
                o.violations.push(Violation { property: "C16".into(), rule: "deviation.strict-accepts".into(), site: site.into(), msg: format!("[{}] strict open accepts a file that deviates from the specification", desc), step: 0 });
                return false;
            }
        }
        true
    };
    'all: {
        for (i, d) in devs.iter().enumerate() {
            if only >= 0 && only != i as i64 {
                continue;
            }
            let img = d.apply(&base.image);
            hashes.insert(crate::prng::fnv(&img));
            judged += 1;
            o.stats.sub_runs += 2;
            o.stats.boundary_checks += 1;
            *o.stats.faults_fired.entry(format!("F-FC:{}", d.recipe)).or_insert(0) += 1;
            let with_path = img.len() <= (1 << 20) && path_done.insert(d.recipe);
            if !judge(&mut o, &img, &format!("{} @ {}", d.recipe, d.place), d.recipe, d.strict_rejects)
                || (with_path && !path_parity(&mut o, &img, &format!("{} @ {}", d.recipe, d.place), d.recipe, d.strict_rejects))
            {
                let mut rc = case.clone();
                rc.params.insert("only_deviation".into(), i as i64);
                o.replay_case = Some(rc);
                break 'all;
            }
        }
        if only >= 0 || case.param("combo", -1) >= 0 && false {
            break 'all;
        }
        // every PAIR of recipes (one representative place per recipe and variant): a repair
        // of one deviation may lean on a field another deviation damaged
        if only < 0 && case.param("only_combo", -1) < 0 {
            let mut reps: Vec<usize> = vec![];
            let mut seen: BTreeSet<(&str, String)> = BTreeSet::new();
            for (i, d) in devs.iter().enumerate() {
                let variant = if d.recipe.starts_with("wrong-num-") || d.recipe == "v3-num-dir-sectors" { d.place.clone() } else { String::new() };
                if seen.insert((d.recipe, variant)) {
                    reps.push(i);
                }
            }
            let only_pair = case.param("only_pair", -1);
            let mut pi = -1i64;
            for a in 0..reps.len() {
                for b in a + 1..reps.len() {
                    let (da, db) = (&devs[reps[a]], &devs[reps[b]]);
                    if da.recipe == db.recipe || overlap(da, db) {
                        continue;
                    }
                    pi += 1;
                    if only_pair >= 0 && only_pair != pi {
                        continue;
                    }
                    let img = db.apply(&da.apply(&base.image));
                    let desc = format!("{} @ {} + {} @ {}", da.recipe, da.place, db.recipe, db.place);
                    hashes.insert(crate::prng::fnv(&img));
                    judged += 1;
                    o.stats.sub_runs += 2;
                    o.stats.boundary_checks += 1;
                    *o.stats.faults_fired.entry("F-FC:recipe-pair".into()).or_insert(0) += 1;
                    let mut recipes = [da.recipe, db.recipe];
                    recipes.sort();
                    if !judge(&mut o, &img, &desc, &recipes.join("+"), true) {
                        let mut rc = case.clone();
                        rc.params.insert("only_pair".into(), pi);
                        rc.params.insert("only_deviation".into(), -2);
                        rc.params.insert("only_combo".into(), -2);
                        o.replay_case = Some(rc);
                        break 'all;
                    }
                }
            }
            if only_pair >= 0 {
                break 'all;
            }
        }
        // combinations
        let ncombo = if devs.len() >= 2 { (devs.len() * 2).min(120) } else { 0 };
        let only_combo = case.param("only_combo", -1);
        for ci in 0..ncombo {
            let k = rng.range(2, 3) as usize;
            let mut pick: Vec<usize> = vec![];
            let mut guard = 0;
            while pick.len() < k && guard < 50 {
                guard += 1;
                let c = rng.usize_below(devs.len());
                if pick.iter().any(|p| *p == c || overlap(&devs[*p], &devs[c])) {
                    continue;
                }
                pick.push(c);
            }
            if pick.len() < 2 {
                continue;
            }
            if only_combo >= 0 && only_combo != ci as i64 {
                continue;
            }
            let mut img = base.image.clone();
            let mut desc = String::new();
            for p in &pick {
                img = devs[*p].apply(&img);
                desc.push_str(&format!("{} @ {} + ", devs[*p].recipe, devs[*p].place));
            }
            hashes.insert(crate::prng::fnv(&img));
            judged += 1;
            o.stats.sub_runs += 2;
            o.stats.boundary_checks += 1;
            *o.stats.faults_fired.entry("F-FC:combination".into()).or_insert(0) += 1;
            let mut recipes: Vec<&str> = pick.iter().map(|p| devs[*p].recipe).collect();
            recipes.sort();
            let with_path = img.len() <= (1 << 20) && ci % 8 == 0;
            if !judge(&mut o, &img, desc.trim_end_matches(" + "), &recipes.join("+"), true)
                || (with_path && !path_parity(&mut o, &img, desc.trim_end_matches(" + "), &recipes.join("+"), true))
            {
                let mut rc = case.clone();
                rc.params.insert("only_combo".into(), ci as i64);
                rc.params.insert("only_deviation".into(), -2);
                o.replay_case = Some(rc);
                break 'all;
            }
        }
        if only_combo >= 0 {
            break 'all;
        }
        // clause (a) on a sample of damaged images (small bases only: every
        // damaged image is a full copy)
        if base.image.len() > (1 << 20) {
            break 'all;
        }
        let mut muts = c05::all_mutations(&base, case, &mut rng, false);
        let total = muts.len();
        let want = 400.min(total);
        for _ in 0..want {
            let i = rng.usize_below(muts.len());
            let dmg = muts.swap_remove(i);
            let (desc, kind, img) = (dmg.desc(), dmg.kind(), dmg.image(&base.image));
            o.stats.sub_runs += 1;
            *o.stats.faults_fired.entry(kind.to_string()).or_insert(0) += 1;
            if let Some(v) = strict_implies_permissive(&img) {
                report(&mut o, v, &desc, &img, None);
                break 'all;
            }
        }
    }
    o.stats.probe_n("deviations_applicable", devs.len() as u64);
    o.stats.state_hashes = hashes.iter().copied().collect();
    o.stats.trace_hash = hashes.iter().fold(crate::prng::fnv(&base.image), |a, b| a ^ crate::prng::mix(*b));
    o.stats.ok_mutations = judged;
    o.stats.nontrivial = judged > 0;
    o
}
