//! C06 — a stream handle behaves as a seekable byte array for every buffer size.

use super::{CheckDef, Tier};
use crate::case::{Case, Outcome};
use crate::gen::{self, Gen, GenCfg};
use crate::model::Model;
use crate::ops::Op;
use crate::prng::Rng;
use crate::runner::{self, Ctx, Flags};
use std::collections::BTreeSet;

pub fn def() -> CheckDef {
    CheckDef {
        id: "C06",
        level: "exploration",
        cases: |t| match t {
            Tier::Quick => 2_500,
            Tier::Thorough => 80_000,
        },
        gen,
        run,
        rule: "one drawn handle script (<= 80 calls of read, read-loop, fill_buf/consume, write, write_all, seek incl. i64/u64 extremes, set_len, flush, len, position, drop+open) on one stream next to a bystander stream; sizes and offsets straddle the buffer capacity (1024*4^k and the configured maximum), 64, 4096 and sector boundaries. The SAME script is executed under every max_buffer_size in {default 1 MiB, 0, 1, 1023, 1024, 1025, 1500, 4096, 5000, 65536} x {V3, V4} = 20 simulated runs per case, each checked call by call against a Vec<u8>+cursor model; for the half of the cases whose script avoids single read()/write()/consume() calls (their counts are a relation) the sequence of all observable results must be identical across the 20 configurations; content is re-read through a fresh handle and after reopen at the end. Non-trivial: >= 1 successful write or set_len; distinct = distinct (seam log, final image) hash of the combined runs.",
        assumptions: &["counts returned by single read()/write()/fill_buf() calls are a relation (1..=min(requested, available)); only their bytes are compared"],
        cpu_limit_s: 300,
        fault_kinds: "none (configuration knob max_buffer_size swept so the buffer-miss paths run)",
        count_subruns: false,
        expect_probes: &[],
    }
}

pub fn flags() -> Flags {
    Flags { property: "C06", final_check: true, record_results: true, ..Default::default() }
}

pub fn gen(seed: u64, idx: u64, tier: Tier) -> Case {
    let mut rng = Rng::for_case(seed, "C06", idx);
    if idx == 0 || (tier == Tier::Thorough && idx % 4000 == 1) {
        // one handle writing, re-reading and patching a stream that outgrows the 109 header
        // DIFAT slots in V3 (> 7.1 MB); run under a few configurations only
        let mut c = Case::new("C06", "huge", 3);
        c.params.insert("exact".into(), 1);
        let len = 7_300_000 + rng.below(400_000) as usize;
        c.ops.push(Op::WriteWhole { path: "/bystander".into(), len: 3000, nonce: 11 });
        c.ops.push(Op::HCreate { h: 0, path: "/s".into() });
        c.ops.push(Op::HWriteAll { h: 0, len, nonce: 21 });
        c.ops.push(Op::HLen { h: 0 });
        c.ops.push(Op::HSeek { h: 0, whence: crate::ops::Whence::Start, off: 0, uoff: 0 });
        c.ops.push(Op::HReadFull { h: 0, n: len + 10 });
        c.ops.push(Op::HSeek { h: 0, whence: crate::ops::Whence::Start, off: 0, uoff: 7_000_000 + rng.below(100_000) });
        c.ops.push(Op::HWriteAll { h: 0, len: 70_000, nonce: 22 });
        c.ops.push(Op::HSeek { h: 0, whence: crate::ops::Whence::Current, off: -100_000, uoff: 0 });
        c.ops.push(Op::HReadFull { h: 0, n: 200_000 });
        c.ops.push(Op::HSetLen { h: 0, n: 7_150_000 });
        c.ops.push(Op::HPos { h: 0 });
        c.ops.push(Op::HFlush { h: 0 });
        c.ops.push(Op::HDrop { h: 0 });
        c.ops.push(Op::ReadWhole("/s".into()));
        c.ops.push(Op::ReadWhole("/bystander".into()));
        return c;
    }
    let mut c = Case::new("C06", "matrix", 3);
    let exact = rng.chance(1, 2);
    c.params.insert("exact".into(), exact as i64);
    let huge = tier == Tier::Thorough && rng.chance(1, 40);
    let max_stream: u64 = if huge { 5_000_000 } else if rng.chance(1, 3) { 300_000 } else { 12_000 };
    let cfg = GenCfg {
        max_ops: 80,
        names: vec!["s".into(), "bystander".into()],
        sizes: gen::draw_sizes(&mut rng, max_stream, 512),
        near_miss: 0,
        spellings: 0,
        case_variants: 0,
        weights: {
            let mut w = gen::swarm(&mut rng, gen::handle_weights());
            if exact {
                // calls whose transfer COUNT is a relation make later results
                // legitimately configuration dependent: leave them out
                for e in w.iter_mut() {
                    if matches!(e.0, "h_read" | "h_write" | "h_consume") {
                        e.1 = 0;
                    }
                }
            }
            w
        },
        max_objects: 4,
        max_depth: 1,
        invalid_names: false,
        protect_handles: true,
        max_stream,
        no_remove_with_open_handles: false,
        set_len_shrink_only: false,
    };
    // fixed preamble: bystander + the stream with some content, handle 0 open on it
    let pre_len = *rng.pick(&[0u64, 100, 1024, 1500, 4096, 5000, 70_000]);
    c.ops.push(Op::WriteWhole { path: "/bystander".into(), len: 3000, nonce: 11 });
    c.ops.push(Op::WriteWhole { path: "/s".into(), len: pre_len.min(max_stream), nonce: 12 });
    c.ops.push(Op::HOpen { h: 0, path: "/s".into() });
    let mut model = Model::new(3);
    for op in &c.ops {
        model.predict(op);
    }
    let n = gen::draw_len(&mut rng, 80).max(4);
    let mut g = Gen::new(&mut rng, &cfg, model);
    // only handle ops on h0 (the generator may open more handles on the bystander)
    let script = g.history(n);
    c.ops.extend(script);
    // close everything (flush + drop) before reading through fresh handles
    for h in 0..4 {
        c.ops.push(Op::HFlush { h });
        c.ops.push(Op::HDrop { h });
    }
    c.ops.push(Op::ReadWhole("/s".into()));
    c.ops.push(Op::ReadWhole("/bystander".into()));
    c
}

pub fn run(case: &Case, known: &BTreeSet<String>) -> Outcome {
    let flags = flags();
    let mut total = Outcome::default();
    let mut reference: Option<(Vec<u64>, String)> = None;
    let single = case.param("single_config", 0) == 1;
    let configs: Vec<(u16, Option<usize>)> = if single {
        vec![(case.version, case.bufsize)]
    } else if case.mode == "huge" {
        vec![(3, None), (3, Some(65536)), (3, Some(5000)), (4, None)]
    } else {
        let mut v = vec![];
        for ver in [3u16, 4] {
            for b in gen::BUFSIZES {
                v.push((ver, *b));
            }
        }
        v
    };
    for (ver, buf) in configs {
        let mut c = case.clone();
        c.version = ver;
        c.bufsize = buf;
        let mut ctx = Ctx::new(&flags, known);
        let mut w = match runner::setup(&c, &flags) {
            Ok(w) => w,
            Err(e) => {
                total.harness_error = Some(e);
                return total;
            }
        };
        runner::run_ops(&mut w, &c.ops, 0, &mut ctx);
        runner::final_checks(&mut w, &mut ctx, c.ops.len());
        runner::finish(&mut w, &mut ctx);
        let label = format!("V{} max_buffer_size={:?}", ver, buf);
        total.stats.sub_runs += 1;
        total.stats.seam_events += ctx.out.stats.seam_events;
        total.stats.api_calls += ctx.out.stats.api_calls;
        total.stats.ok_mutations += ctx.out.stats.ok_mutations;
        total.stats.boundary_checks += ctx.out.stats.boundary_checks;
        total.stats.trace_hash ^= crate::prng::mix(ctx.out.stats.trace_hash ^ (ver as u64) << 32 ^ buf.unwrap_or(77) as u64);
        for (k, v) in &ctx.out.stats.op_outcomes {
            *total.stats.op_outcomes.entry(k.clone()).or_insert(0) += v;
        }
        for (k, v) in &ctx.out.stats.known_hits {
            *total.stats.known_hits.entry(k.clone()).or_insert(0) += v;
        }
        if total.stats.state_hashes.is_empty() {
            total.stats.state_hashes = ctx.out.stats.state_hashes.clone();
        }
        total.stats.probe(&format!("config:{}", label));
        if !ctx.out.violations.is_empty() {
            for mut v in ctx.out.violations {
                v.msg = format!("[{}] {}", label, v.msg);
                total.violations.push(v);
            }
            // explicit single-config replay information
            break;
        }
        if ctx.stop {
            // masked by a known finding: cross-config comparison impossible
            continue;
        }
        if case.param("exact", 0) != 1 {
            continue;
        }
        match &reference {
            None => reference = Some((ctx.res_hashes.clone(), label)),
            Some((r, rl)) => {
                if *r != ctx.res_hashes {
                    let pos = r.iter().zip(ctx.res_hashes.iter()).position(|(a, b)| a != b);
                    let opk = pos.and_then(|p| c.ops.get(p)).map(|o| o.to_json().to_string()).unwrap_or_default();
                    total.violations.push(crate::case::Violation {
                        property: "C06".into(),
                        rule: "config.results-differ".into(),
                        site: "matrix".into(),
                        msg: format!("observable results differ between [{}] and [{}] at call {:?} {}", rl, label, pos, opk),
                        step: pos.unwrap_or(0),
                    });
                    break;
                }
            }
        }
    }
    total.stats.nontrivial = total.stats.ok_mutations > 0 && total.stats.sub_runs > 0;
    total
}
