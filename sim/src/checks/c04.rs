//! C04 — any valid layout written by another implementation is read correctly,
//! and mutating such a file keeps C01-C03.

use super::{CheckDef, Tier};
use crate::ops::Op;
use crate::case::{Case, Init, Outcome};
use crate::disk::SimDisk;
use crate::driver::{normalise_site, Lib};
use crate::dump;
use crate::gen::{self, Gen, GenCfg};
use crate::imgck;
use crate::imgwr;
use crate::model::Model;
use crate::names::{self, NameClass};
use crate::ops::Res;
use crate::prng::Rng;
use crate::runner::{self, Ctx, Flags};
use std::collections::BTreeSet;

const DIFAT_QUICK: u64 = 1;
const DIFAT_THOROUGH: u64 = 60;

pub fn def() -> CheckDef {
    CheckDef {
        id: "C04",
        level: "exploration",
        cases: |t| match t {
            Tier::Quick => 10_000 + DIFAT_QUICK,
            Tier::Thorough => 150_000 + DIFAT_THOROUGH,
        },
        gen,
        run,
        rule: "the 'foreign writer' actor: drawn logical content (<= 300 entries, sibling sets up to 200 names incl. non-ASCII and supplementary-plane names, stream sizes around 64/4096/sector boundaries) laid out by the independent writer imgwr under a drawn layout plan - sector permutation 0-100 %, free sectors interleaved, fragmented and back-to-front chains, FAT/MiniFAT/directory sectors anywhere, directory slots permuted with unallocated gaps, balanced or insertion-built valid red-black sibling trees, fragmented mini stream, V3 or V4; the first case(s) of a run force > 109 FAT sectors (DIFAT sectors). Harness self-check first: imgck must find the image clean and read back the same content (else exit 2). Oracle: open and open_strict succeed; the API dump equals the content given to the writer in both modes; drawn partial reads agree; then a drawn mutation history (<= 15 ops) runs with C01's model, C02's reopen and C03's image rules after every step. Non-trivial: the image was opened and >= 1 mutation succeeded; distinct = distinct (seam log, final image) hash. One case in 16 is a DIFAT-boundary layout: a small file whose DIFAT is exactly full (109 + 127k FAT sectors, k = 1..3; version 4: 109 + 1023) followed by a write that grows the file across the next FAT-sector boundary, so that the library has to start the next DIFAT sector and link it to the end of the chain; every second one of these (one case in 32) also has one or two spare, empty DIFAT sectors already chained in behind the full part (k = 0..3), so that the new entry belongs in the first slot of an EXISTING sector.",
        assumptions: &["imgwr emits strictly spec-valid files (checked by imgck on every case); root creation time 0 and V3 size high bits 0 as the specification demands"],
        cpu_limit_s: 600,
        fault_kinds: "initial disk image written by a foreign implementation (layout plan drawn per case)",
        count_subruns: false,
        expect_probes: &["difat_sector", "fat_sectors>=2", "red_nodes", "free_sectors_present", "unallocated_entries_present", "node_with_two_siblings"],
    }
}

pub fn flags() -> Flags {
    Flags { property: "C04", imgck_each: true, imgck_dump: true, final_check: true, ..Default::default() }
}

pub fn gen(seed: u64, idx: u64, tier: Tier) -> Case {
    let mut rng = Rng::for_case(seed, "C04", idx);
    let ndifat = if tier == Tier::Quick { DIFAT_QUICK } else { DIFAT_THOROUGH };
    let version = if idx < ndifat { 3 } else if rng.chance(1, 2) { 3 } else { 4 };
    let mut c = Case::new("C04", "foreign", version);
    c.bufsize = *rng.pick(gen::BUFSIZES);
    let mut plan = imgwr::plan_from_seed(rng.next_u64(), version);
    plan.v3_size_high_garbage = false;
    plan.library_like_trees = rng.chance(1, 2);
    if idx >= ndifat && idx % 12 == 5 {
        // excess FAT sectors: the DIFAT spills into DIFAT sectors although the file is small
        let hi = if rng.chance(1, 4) { 140 } else { 12 };
        plan.extra_fat_sectors = 108 + rng.range(1, hi) as u32;
    }
    // the DIFAT exactly full (header slots + k whole DIFAT sectors, k = 1..3) in a SMALL file: the
    // next FAT sector the library appends has to start DIFAT sector k + 1 and link it to the
    // END of the chain
    let difat_boundary = idx >= ndifat && idx % 16 == 9;
    // (version 4 needs a 4.6 MB file and a 4 MB write for this: one boundary case in 16)
    let version = if difat_boundary && idx % 256 != 9 { 3 } else { version };
    if difat_boundary {
        c.version = version;
        plan = imgwr::plan_from_seed(rng.next_u64(), version);
        plan.v3_size_high_garbage = false;
        plan.library_like_trees = rng.chance(1, 2);
        let per = if version == 3 { 127 } else { 1023 };
        plan.extra_fat_sectors = 0;
        // k = 0: the header's 109 slots exactly full (only together with a spare DIFAT sector,
        // otherwise it is the ordinary "first DIFAT sector" growth that C02/C03 do)
        let spare = idx % 32 == 25;
        plan.total_fat_sectors = 109 + per * rng.range(if spare { 0 } else { 1 }, if version == 3 { 3 } else { 1 }) as u32;
        if spare {
            // ... and one or two empty DIFAT sectors already chained in behind the full ones:
            // the next FAT sector belongs in the FIRST slot of the first spare sector
            plan.spare_difat_sectors = rng.range(1, 2) as u32;
        }
    }
    let (max_entries, max_stream) = if difat_boundary {
        (6, 3000)
    } else if idx < ndifat {
        plan.min_fat_sectors = 110 + rng.below(3) as u32;
        (10, 20_000)
    } else if rng.chance(1, 8) {
        (300, 9000)
    } else {
        (rng.range(1, 40) as usize, *rng.pick(&[5000usize, 20_000, 70_000]))
    };
    let content_seed = rng.next_u64();
    c.init = Init::Foreign { content_seed, max_entries, max_stream, plan };
    // mutation history on top of the foreign content
    let mut crng = Rng::new(content_seed);
    let mut content = imgwr::gen_content(&mut crng, max_entries, max_stream);
    content.root.meta.created = 0;
    let model = Model::from_dump(&content, version);
    let mut pool: Vec<String> = model.all_paths().into_iter().filter_map(|(p, _)| p.last().cloned()).take(6).collect();
    pool.extend(names::gen_pool(&mut rng, NameClass::Agreed, 5));
    let cfg = GenCfg {
        max_ops: 15,
        names: pool,
        sizes: gen::draw_sizes(&mut rng, 20_000, if version == 3 { 512 } else { 4096 }),
        near_miss: *rng.pick(&[0u32, 10]),
        spellings: 0,
        case_variants: *rng.pick(&[0u32, 30]),
        weights: gen::swarm(&mut rng, {
            let mut w = gen::c01_weights();
            w.extend(vec![("open_stream", 4), ("h_seek", 6), ("h_read_full", 6), ("h_write_all", 3), ("h_set_len", 2), ("h_drop", 2), ("set_state_bits", 2)]);
            for e in w.iter_mut() {
                if e.0.starts_with("remove") {
                    e.1 *= 3;
                }
            }
            w
        }),
        max_objects: 320,
        max_depth: 6,
        invalid_names: false,
        protect_handles: true,
        max_stream: 20_000,
        no_remove_with_open_handles: true,
        set_len_shrink_only: false,
    };
    let n = rng.range(0, 15) as usize;
    let mut g = Gen::new(&mut rng, &cfg, model);
    if difat_boundary {
        // grow past the next multiple of the FAT sector's capacity (128 / 1024 sectors): the free
        // sectors of the layout are used up first, then the file is extended
        let per = if version == 3 { 128u64 * 512 } else { 1024u64 * 4096 };
        let op = Op::WriteWhole { path: "/grow-past-fat-boundary".into(), len: per + per / 4 + g.rng.below(per / 2), nonce: 9090 };
        g.model.predict(&op);
        c.ops.push(op);
        let more = g.history(n.min(4));
        c.ops.extend(more);
    } else {
        c.ops = g.history(n);
    }
    c
}

pub fn run(case: &Case, known: &BTreeSet<String>) -> Outcome {
    let flags = flags();
    let mut ctx = Ctx::new(&flags, known);
    let (content_seed, max_entries, max_stream, plan) = match &case.init {
        Init::Foreign { content_seed, max_entries, max_stream, plan } => (*content_seed, *max_entries, *max_stream, plan.clone()),
        _ => {
            ctx.out.harness_error = Some("C04 needs a foreign init".into());
            return ctx.out;
        }
    };
    let mut crng = Rng::new(content_seed);
    let mut content = imgwr::gen_content(&mut crng, max_entries, max_stream);
    content.root.meta.created = 0;
    let image = match imgwr::write_image(&content, &plan) {
        Ok(i) => i,
        Err(e) => {
            ctx.out.harness_error = Some(format!("imgwr refused its own content: {}", e));
            return ctx.out;
        }
    };
    // harness self-check: my two independent artefacts must agree
    let parsed = imgck::check(&image);
    if let Some(f) = &parsed.fatal {
        ctx.out.harness_error = Some(format!("imgck cannot read imgwr's image: {}", f));
        return ctx.out;
    }
    if let Some(v) = parsed.violations.first() {
        ctx.out.harness_error = Some(format!("imgck finds imgwr's image invalid: {} {}", v.rule, v.msg));
        return ctx.out;
    }
    let mut sorted_content = content.clone();
    runner::sort_dump(&mut sorted_content);
    match &parsed.dump {
        Some(d) => {
            // imgck lists children in stored (CFB) order; compare as sets by sorting both sides
            let mut a = d.clone();
            runner::sort_dump(&mut a);
            if let Some(df) = dump::diff(&a, &sorted_content) {
                ctx.out.harness_error = Some(format!("imgck reads back different content than imgwr wrote: {}", df));
                return ctx.out;
            }
        }
        None => {
            ctx.out.harness_error = Some("imgck produced no dump".into());
            return ctx.out;
        }
    }
    runner::layout_probes(&parsed.layout, &mut ctx.out.stats);
    if plan.spare_difat_sectors > 0 {
        ctx.out.stats.probe("spare_empty_difat_sector_behind_a_full_difat");
    }
    // the content in CFB listing order = what the library must expose
    let model0 = Model::from_dump(&content, case.version);
    let want = model0.dump();
    for strict in [true, false] {
        let mode = if strict { "strict" } else { "permissive" };
        let disk = SimDisk::new(image.clone());
        ctx.out.stats.boundary_checks += 1;
        match Lib::open(disk, strict, case.bufsize) {
            Err(Res::Panic(p)) => {
                ctx.report("foreign.open-panics", &normalise_site(&p), format!("{} open of a spec-valid foreign layout panicked: {}", mode, p), 0, true);
                return ctx.out;
            }
            Err(r) => {
                ctx.report(&format!("foreign.{}-open-fails", mode), "open", format!("{} open rejects a spec-valid foreign layout: {}", mode, r.brief()), 0, true);
                return ctx.out;
            }
            Ok(mut lib) => match lib.dump(&[]) {
                Ok(d) => {
                    if let Some(df) = dump::diff(&d, &want) {
                        ctx.report(&format!("foreign.{}-content-differs", mode), "dump", format!("{} open of a spec-valid foreign layout exposes different content: {}", mode, df), 0, true);
                        return ctx.out;
                    }
                    lib.close();
                }
                Err(r) => {
                    let (rule, site) = match &r {
                        Res::Panic(p) => ("foreign.dump-panics".to_string(), normalise_site(p)),
                        _ => (format!("foreign.{}-dump-fails", mode), "dump".to_string()),
                    };
                    ctx.report(&rule, &site, format!("{} open accepted a spec-valid foreign layout but reading it failed: {}", mode, r.brief()), 0, true);
                    return ctx.out;
                }
            },
        }
    }
    // mutation history with C01-C03 oracles
    let mut w = match runner::setup(case, &flags) {
        Ok(w) => w,
        Err(e) => {
            ctx.out.harness_error = Some(e);
            return ctx.out;
        }
    };
    w.model.root.meta.created = 0;
    runner::run_ops(&mut w, &case.ops, 0, &mut ctx);
    runner::final_checks(&mut w, &mut ctx, case.ops.len());
    runner::finish(&mut w, &mut ctx);
    ctx.out.stats.nontrivial = ctx.out.stats.boundary_checks > 0 && (ctx.out.stats.ok_mutations > 0 || case.ops.is_empty());
    ctx.out
}
