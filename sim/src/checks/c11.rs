//! C11 — mutating any file the library agreed to open never panics or hangs.

use super::c05;
use super::images;
use super::{CheckDef, Tier};
use crate::case::{Case, Init, Outcome, Violation};
use crate::disk::SimDisk;
use crate::driver::{normalise_site, Lib};
use crate::ops::{Op, Res, Whence};
use crate::prng::Rng;
use std::collections::BTreeSet;

pub fn def() -> CheckDef {
    CheckDef {
        id: "C11",
        level: "fault_enumeration",
        cases: |t| match t {
            Tier::Quick => 26,
            Tier::Thorough => 610,
        },
        gen,
        run,
        rule: "one case = one base image (drawn history or independent-writer layout) and the corruptions of C05 (field x value enumeration, truncations, flips, lost/misdirected writes, mid-operation crash images), filtered to those that PERMISSIVE OPEN ACCEPTS. On every accepted damaged image every single mutating operation is enumerated against every existing object (create small/large stream and storage in each storage; write-append, overwrite and set_len to 0/1/64/4095/4096/grow on each stream; remove each stream/storage; remove_storage_all on the root; setters; flush; remove one object, then create and look up names in every storage and list it) - each on a fresh copy of the image, followed by flush, walk and reading everything back - plus drawn 2-6 op histories. Oracle: Ok or Err; no panic (index, overflow, assertion); per-call seam-step budget. sub_runs = (damaged image, operation) executions. Non-trivial: at least one accepted damaged image was mutated; distinct = distinct damaged-image hashes. The last two cases (ten in the thorough tier) are batches of 1500 stale-handle scenarios on undamaged files (src/stale.rs): calls through a handle whose stream was removed and whose directory slot was left free / taken by a storage / taken by a shorter or longer stream.",
        assumptions: &["wrong data on a damaged file is not this property's business", "termination judged by a seam-step budget per API call and the supervisor's CPU watchdog"],
        cpu_limit_s: 1200,
        fault_kinds: "as C05 (F-FC enumerated, F-BF, F-TR, F-LW, F-MW, F-CR/F-WT crash images), restricted to images permissive open accepts",
        count_subruns: true,
        expect_probes: &["damaged_images_accepted_by_open"],
    }
}

pub fn gen(seed: u64, idx: u64, tier: Tier) -> Case {
    let mut rng = Rng::for_case(seed, "C11", idx);
    let nstale = if tier == Tier::Quick { 2 } else { 10 };
    let total = if tier == Tier::Quick { 26 } else { 610 };
    if idx >= total - nstale {
        // "every subsequent sequence of API calls" includes calls through a handle whose own
        // stream has been removed and whose directory slot was taken over (src/stale.rs); one
        // case = a batch of such scenarios on undamaged files
        let mut c = Case::new("C11", "stale-batch", if idx % 2 == 0 { 3 } else { 4 });
        c.params.insert("seed".into(), (rng.next_u64() >> 2) as i64);
        c.params.insert("scenarios".into(), 1500);
        return c;
    }
    let version = if rng.chance(1, 2) { 3 } else { 4 };
    let mut c = Case::new("C11", "enumerate", version);
    c.params.insert("seed".into(), (rng.next_u64() >> 2) as i64);
    c.params.insert("full_images".into(), if tier == Tier::Quick { 50 } else { 400 });
    if idx % 4 == 3 {
        c.mode = "foreign-base".into();
        let mut plan = crate::imgwr::plan_from_seed(rng.next_u64(), version);
        plan.v3_size_high_garbage = false;
        c.init = Init::Foreign { content_seed: rng.next_u64(), max_entries: 8, max_stream: 9000, plan };
    } else {
        c.ops = images::gen_build_ops(&mut rng, version);
    }
    c
}

/// Single mutating ops for every object of the (accepted) image.
fn single_ops(lib: &mut Lib) -> Vec<Vec<Op>> {
    let mut out: Vec<Vec<Op>> = vec![];
    let mut storages = vec!["/".to_string()];
    let mut streams: Vec<(String, u64)> = vec![];
    if let Res::Listing(l) = lib.exec(&Op::Walk) {
        for e in l.iter().take(24) {
            if e.is_root {
                continue;
            }
            if e.is_stream {
                streams.push((e.path.clone(), e.len));
            } else {
                storages.push(e.path.clone());
            }
        }
    }
    for s in &storages {
        let base = if s == "/" { String::new() } else { s.clone() };
        out.push(vec![Op::WriteWhole { path: format!("{}/new_small", base), len: 100, nonce: 1 }]);
        out.push(vec![Op::WriteWhole { path: format!("{}/new_large", base), len: 5000, nonce: 2 }]);
        out.push(vec![Op::CreateStorage(format!("{}/new_dir", base))]);
        out.push(vec![Op::SetStateBits(s.clone(), 5), Op::SetClsid(s.clone(), [3; 16]), Op::Touch(s.clone())]);
        if s != "/" {
            out.push(vec![Op::RemoveStorage(s.clone())]);
            out.push(vec![Op::RemoveStorageAll(s.clone())]);
        }
    }
    for (p, len) in &streams {
        out.push(vec![Op::RemoveStream(p.clone())]);
        out.push(vec![Op::WriteWhole { path: p.clone(), len: 10, nonce: 3 }]);
        out.push(vec![Op::WriteWhole { path: p.clone(), len: 5000, nonce: 4 }]);
        out.push(vec![Op::HOpen { h: 0, path: p.clone() }, Op::HSeek { h: 0, whence: Whence::End, off: 0, uoff: 0 }, Op::HWriteAll { h: 0, len: 70, nonce: 5 }, Op::HFlush { h: 0 }]);
        out.push(vec![Op::HOpen { h: 0, path: p.clone() }, Op::HWriteAll { h: 0, len: 4200, nonce: 6 }, Op::HFlush { h: 0 }]);
        // (lengths come from possibly corrupted size fields: keep the op itself small)
        let len = (*len).min(1 << 20);
        for n in [0u64, 1, 64, 4095, 4096, len + 1, len + 5000, len.saturating_sub(1)] {
            out.push(vec![Op::HOpen { h: 0, path: p.clone() }, Op::HSetLen { h: 0, n }, Op::HFlush { h: 0 }]);
        }
        out.push(vec![Op::SetStateBits(p.clone(), 9)]);
    }
    // remove one object, then create in EVERY storage (the freed directory slot is taken again
    // while whatever else pointed at it still does), look names up on both sides of the new
    // entries, list everything
    let victims: Vec<Op> = streams.iter().take(8).map(|(p, _)| Op::RemoveStream(p.clone())).chain(storages.iter().skip(1).take(4).map(|s| Op::RemoveStorageAll(s.clone()))).collect();
    for v in victims {
        let gone = match &v {
            Op::RemoveStream(p) | Op::RemoveStorageAll(p) => p.clone(),
            _ => unreachable!(),
        };
        let mut seq = vec![v];
        for s in storages.iter().take(6) {
            if *s == gone || s.starts_with(&format!("{}/", gone)) {
                continue;
            }
            let base = if s == "/" { String::new() } else { s.clone() };
            seq.push(Op::WriteWhole { path: format!("{}/mq", base), len: 100, nonce: 7 });
            seq.push(Op::Exists(format!("{}/a", base)));
            seq.push(Op::Exists(format!("{}/zzzz", base)));
            seq.push(Op::CreateStorage(format!("{}/zq", base)));
            seq.push(Op::ReadStorage(if s == "/" { "/".into() } else { s.clone() }));
        }
        seq.push(Op::Walk);
        out.push(seq);
    }
    out.push(vec![Op::RemoveStorageAll("/".into())]);
    // enough storages to need a new directory sector
    out.push((0..40).map(|i| Op::CreateStorage(format!("/many{}", i))).collect());
    out.push((0..70).map(|i| Op::WriteWhole { path: format!("/mini{}", i), len: 64, nonce: 100 + i as u32 }).collect());
    out.push(vec![Op::FlushFile]);
    out
}

fn run_ops_on(img: &[u8], ops: &[Op], bufsize: Option<usize>) -> (Option<(String, String, String)>, u64) {
    let disk = SimDisk::new(img.to_vec());
    disk.0.borrow_mut().budget = 1_000_000 + 200 * (img.len() as u64 / 64);
    let mut lib = match Lib::open(disk.clone(), false, bufsize) {
        Ok(l) => l,
        Err(_) => return (None, disk.k()),
    };
    lib.budget_base = 1_000_000;
    let tail = [Op::FlushFile, Op::Walk];
    for op in ops.iter().chain(tail.iter()) {
        match lib.exec(op) {
            Res::Panic(p) => {
                lib.crash();
                return (Some(("panic".into(), normalise_site(&p), format!("{} panicked: {}", op.to_json(), p))), disk.k());
            }
            Res::Hang => {
                lib.crash();
                return (Some(("hang".into(), op.kind().into(), format!("{} exceeded its seam-step budget", op.to_json()))), disk.k());
            }
            _ => {}
        }
    }
    // read everything back
    if let Res::Listing(l) = lib.exec(&Op::Walk) {
        for e in l.iter().take(40) {
            if e.is_stream {
                match lib.exec(&Op::ReadWhole(e.path.clone())) {
                    Res::Panic(p) => {
                        lib.crash();
                        return (Some(("panic".into(), normalise_site(&p), format!("reading {:?} back panicked: {}", e.path, p))), disk.k());
                    }
                    Res::Hang => {
                        lib.crash();
                        return (Some(("hang".into(), "read_whole".into(), format!("reading {:?} back exceeded its budget", e.path))), disk.k());
                    }
                    _ => {}
                }
            }
        }
    }
    for h in 0..4 {
        if let Res::Panic(p) = lib.exec(&Op::HDrop { h }) {
            lib.crash();
            return (Some(("panic".into(), normalise_site(&p), format!("dropping handle {} panicked: {}", h, p))), disk.k());
        }
    }
    let k = disk.k();
    lib.close();
    (None, k)
}

pub fn run(case: &Case, _known: &BTreeSet<String>) -> Outcome {
    let mut o = Outcome::default();
    let bufsize = *Rng::new(case.param("seed", 1) as u64).pick(crate::gen::BUFSIZES);
    let report = |o: &mut Outcome, v: (String, String, String), desc: &str, img: &[u8], ops: &[Op]| {
        let mut rc = Case::new("C11", "single-image", case.version);
        rc.init = Init::Image(img.to_vec());
        rc.ops = ops.to_vec();
        rc.params.insert("seed".into(), case.param("seed", 1));
        o.replay_case = Some(rc);
        o.violations.push(Violation { property: "C11".into(), rule: v.0, site: v.1, msg: format!("[{}] {}", desc, v.2), step: 0 });
    };
    if case.mode == "stale-handle" {
        return crate::stale::run(case, crate::stale::Judge { property: "C11", image: false, bystanders: false, refusals: false });
    }
    if case.mode == "stale-batch" {
        let mut rng = Rng::new(case.param("seed", 1) as u64);
        let mut hashes: BTreeSet<u64> = BTreeSet::new();
        for _ in 0..case.param("scenarios", 100) {
            let mut sc = Case::new("C11", "stale-handle", case.version);
            sc.bufsize = *rng.pick(crate::gen::BUFSIZES);
            sc.ops = crate::stale::gen_ops(&mut rng);
            let r = crate::stale::run(&sc, crate::stale::Judge { property: "C11", image: false, bystanders: false, refusals: false });
            o.stats.sub_runs += 1;
            o.stats.seam_events += r.stats.seam_events;
            o.stats.api_calls += r.stats.api_calls;
            hashes.insert(r.stats.trace_hash);
            for (k, v) in r.stats.probes.iter() {
                *o.stats.probes.entry(k.clone()).or_insert(0) += v;
            }
            if let Some(v) = r.violations.into_iter().next() {
                o.violations.push(v);
                o.replay_case = Some(sc);
                break;
            }
        }
        *o.stats.faults_fired.entry("none".into()).or_insert(0) += 1;
        o.stats.state_hashes = hashes.iter().copied().collect();
        o.stats.trace_hash = hashes.iter().fold(11, |a, b| a ^ crate::prng::mix(*b));
        o.stats.nontrivial = true;
        return o;
    }
    if case.mode == "single-image" {
        if let Init::Image(b) = &case.init {
            let (v, k) = run_ops_on(b, &case.ops, bufsize);
            o.stats.sub_runs += 1;
            o.stats.seam_events += k;
            if let Some(v) = v {
                report(&mut o, v, "explicit image", b, &case.ops);
            }
        }
        return o;
    }
    let base = match c05::base_of(case) {
        Ok(b) => b,
        Err(e) => {
            if e.starts_with("BUILD-PANIC") {
                o.stats.probe("base_unusable(other property)");
            } else {
                o.harness_error = Some(e);
            }
            return o;
        }
    };
    let mut rng = Rng::new(case.param("seed", 1) as u64 ^ 0x1111);
    let mut muts = c05::all_mutations(&base, case, &mut rng, false);
    // bias: keep every corruption of what open does not follow, sample the rest
    let keep = |d: &str| d.contains(".child=") || d.contains(".left=") || d.contains(".right=") || d.contains(".start") || d.contains(".size") || d.starts_with("fat[") || d.starts_with("minifat[") || d.starts_with("crash image") || d.contains("lost write") || d.contains("misdirected");
    let mut sel = vec![];
    for m in muts.drain(..) {
        if keep(&m.desc()) || rng.chance(1, 6) {
            sel.push(m);
        }
    }
    sel.insert(0, c05::Damage::Image("undamaged base".to_string(), base.image.clone()));
    let mut hashes: BTreeSet<u64> = BTreeSet::new();
    let mut accepted = 0u64;
    'outer: for dmg in &sel {
        let img = &dmg.image(&base.image);
        let (desc, kind) = (&dmg.desc(), if dmg.desc() == "undamaged base" { "none" } else { dmg.kind() });
        // accepted by permissive open?
        let mut marker = Case::new("C11", "single-image", case.version);
        marker.params.insert("seed".into(), case.param("seed", 1));
        crate::subcase::set(&marker, img);
        let disk = SimDisk::new(img.clone());
        disk.0.borrow_mut().budget = 1_000_000 + 200 * (img.len() as u64 / 64);
        let mut lib = match Lib::open(disk, false, bufsize) {
            Ok(l) => l,
            Err(_) => continue,
        };
        lib.budget_base = 1_000_000;
        let lists = single_ops(&mut lib);
        lib.close();
        accepted += 1;
        hashes.insert(crate::prng::fnv(img));
        *o.stats.faults_fired.entry(kind.to_string()).or_insert(0) += 1;
        // single ops are enumerated only for a bounded number of images per case; every
        // accepted image gets a drawn subset
        let full = accepted <= case.param("full_images", 50) as u64;
        // an accepted corruption of a tree link: everything is run (few survive open)
        let link = desc.contains(".child=") || desc.contains(".left=") || desc.contains(".right=");
        if link {
            o.stats.probe("accepted_image_with_a_damaged_tree_link");
        }
        for ops in &lists {
            if !full && !link && !rng.chance(1, 12) {
                continue;
            }
            marker.ops = ops.clone();
            crate::subcase::set(&marker, img);
            let (v, k) = run_ops_on(img, ops, bufsize);
            o.stats.sub_runs += 1;
            o.stats.boundary_checks += 1;
            o.stats.seam_events += k;
            if let Some(v) = v {
                report(&mut o, v, desc, img, ops);
                break 'outer;
            }
        }
        // V3: grow a stream past the 109 header DIFAT slots (first DIFAT sector gets created);
        // on the undamaged base and on a few damaged images per case
        if case.version == 3 && img.len() < (1 << 20) && (accepted == 1 || rng.chance(1, 400)) {
            let grow = vec![Op::HCreate { h: 0, path: "/grow109".into() }, Op::HSetLen { h: 0, n: 7_200_000 }, Op::HFlush { h: 0 }, Op::HSetLen { h: 0, n: 100 }, Op::HFlush { h: 0 }];
            marker.ops = grow.clone();
            crate::subcase::set(&marker, img);
            let (v, k) = run_ops_on(img, &grow, bufsize);
            o.stats.sub_runs += 1;
            o.stats.seam_events += k;
            o.stats.probe("grow_past_109_fat_sectors");
            if let Some(v) = v {
                report(&mut o, v, desc, img, &grow);
                break 'outer;
            }
        }
        // a drawn short history combining several of them
        if lists.len() > 3 {
            let mut hist = vec![];
            for _ in 0..rng.range(2, 6) {
                hist.extend(lists[rng.usize_below(lists.len() - 3)].iter().cloned());
            }
            marker.ops = hist.clone();
            crate::subcase::set(&marker, img);
            let (v, k) = run_ops_on(img, &hist, bufsize);
            o.stats.sub_runs += 1;
            o.stats.seam_events += k;
            if let Some(v) = v {
                report(&mut o, v, desc, img, &hist);
                break 'outer;
            }
        }
    }
    o.stats.probe_n("damaged_images_accepted_by_open", accepted);
    o.stats.state_hashes = hashes.iter().copied().collect();
    o.stats.trace_hash = hashes.iter().fold(crate::prng::fnv(&base.image), |a, b| a ^ crate::prng::mix(*b));
    o.stats.ok_mutations = accepted;
    o.stats.nontrivial = accepted > 1;
    o
}
