//! C03 — every produced image is well-formed by the independent checker.

use super::common::{self, Knobs, DEFAULT_KNOBS};
use super::{CheckDef, Tier};
use crate::case::{Case, Outcome};
use crate::gen;
use crate::ops::Op;
use crate::prng::Rng;
use crate::runner::{self, Flags};
use std::collections::BTreeSet;

const LARGE_QUICK: u64 = 9;
const LARGE_THOROUGH: u64 = 200;

pub fn def() -> CheckDef {
    CheckDef {
        id: "C03",
        level: "exploration",
        cases: |t| match t {
            Tier::Quick => 20_000 + LARGE_QUICK,
            Tier::Thorough => 300_000 + LARGE_THOROUGH,
        },
        gen,
        run,
        rule: "every fourth case is a 'sibling churn' (5-9 data-bearing siblings created and removed in drawn orders); the others are seeded histories of mostly successful operations (structure, whole-stream writes, handle writes and set_len, metadata, reopen), <= 40 ops; the first few cases of a run are 'large' histories that force several FAT sectors, one, two and three DIFAT sectors (V3: > 7.2, > 15.5, > 23.8 MB; the last one is cut back and regrown), several directory and MiniFAT sectors. After every successful mutating op the independent checker imgck judges rules R1-R10 on the byte image and its logical dump must equal the model. Non-trivial: >= 1 successful mutation and >= 1 image check; distinct = distinct (seam log, final image) hash. Every tenth case is a stale-handle scenario (src/stale.rs): a handle kept open across the removal of its own stream and the reuse of its directory slot; after every call through it that returns Ok the image must still pass the checker.",
        assumptions: &["imgck (sim/src/imgck.rs) is an independent MS-CFB reader written from the specification; R5 for the root entry demands capacity (chain >= size), not equality", "sibling-order rule judged only for names from agreed case-mapping classes"],
        cpu_limit_s: 600,
        fault_kinds: "none (fault-free disk)",
        count_subruns: false,
        expect_probes: &["fat_sectors>=2", "difat_sector", "difat_sectors>=2", "difat_sectors>=3", "dir_sectors>=2", "minifat_sectors>=2", "ministream_sectors>=2", "free_sectors_present", "free_mini_sectors_present", "unallocated_entries_present", "node_with_two_siblings"],
    }
}

pub fn flags() -> Flags {
    Flags { property: "C03", imgck_each: true, imgck_dump: true, imgck_vs_live: true, scope: &["imgck.", "dump.panic", "dump.fails"], ..Default::default() }
}

fn large_case(rng: &mut Rng, idx: u64) -> Case {
    // idx 0: V3 DIFAT; others: several FAT / dir / MiniFAT sectors
    let version = if idx % 3 == 2 { 4 } else { 3 };
    if idx == 9 {
        // thorough tier only (LARGE_QUICK = 8): a VERSION 4 file past 109 FAT sectors
        // (109 * 1024 sectors * 4096 bytes = 457 MB), i.e. the first DIFAT sector in V4
        let mut c = Case::new("C03", "large-v4-difat", 4);
        c.ops.push(Op::WriteWhole { path: "/a".into(), len: 70, nonce: 1 });
        c.ops.push(Op::HCreate { h: 0, path: "/big".into() });
        c.ops.push(Op::HSetLen { h: 0, n: 457_500_000 + rng.below(2_000_000) });
        c.ops.push(Op::HSeek { h: 0, whence: crate::ops::Whence::End, off: -500, uoff: 0 });
        c.ops.push(Op::HWriteAll { h: 0, len: 500, nonce: 2 });
        c.ops.push(Op::HDrop { h: 0 });
        c.ops.push(Op::WriteWhole { path: "/b".into(), len: 5000, nonce: 3 });
        return c;
    }
    if idx == 8 || (idx > 9 && idx % 32 == 8) {
        // THREE DIFAT sectors in V3: > 109 + 2 * 127 = 363 FAT sectors = > 46464 sectors (~23.8 MB);
        // then cut back below the second DIFAT sector and grown again (the FAT keeps its sectors,
        // the chain is re-threaded through free cells spread over all of them)
        let mut c = Case::new("C03", "large-3-difat", 3);
        let mut nonce = 8100u32;
        c.ops.push(Op::WriteWhole { path: "/a".into(), len: 70, nonce: 1 });
        c.ops.push(Op::HCreate { h: 0, path: "/big".into() });
        for target in [15_500_000u64, 23_400_000, 23_950_000 + rng.below(300_000), 7_100_000, 24_300_000 + rng.below(100_000)] {
            c.ops.push(Op::HSetLen { h: 0, n: target });
            nonce += 1;
            c.ops.push(Op::HSeek { h: 0, whence: crate::ops::Whence::End, off: -500, uoff: 0 });
            c.ops.push(Op::HWriteAll { h: 0, len: 500, nonce });
            c.ops.push(Op::HFlush { h: 0 });
        }
        c.ops.push(Op::HDrop { h: 0 });
        c.ops.push(Op::WriteWhole { path: "/b".into(), len: 4096, nonce: 2 });
        c.ops.push(Op::Reopen { strict: true });
        c.ops.push(Op::WriteWhole { path: "/c".into(), len: 100_000, nonce: 3 });
        return c;
    }
    if idx == 7 || (idx > 9 && idx % 16 == 7) {
        // TWO DIFAT sectors in V3: > 109 + 127 FAT sectors = > 30208 sectors (~15.5 MB)
        let mut c = Case::new("C03", "large-2-difat", 3);
        let mut nonce = 8000u32;
        c.ops.push(Op::WriteWhole { path: "/a".into(), len: 70, nonce: 1 });
        c.ops.push(Op::HCreate { h: 0, path: "/big".into() });
        for target in [7_000_000u64, 7_400_000, 15_300_000, 15_600_000 + rng.below(300_000)] {
            c.ops.push(Op::HSetLen { h: 0, n: target });
            nonce += 1;
            c.ops.push(Op::HSeek { h: 0, whence: crate::ops::Whence::End, off: -500, uoff: 0 });
            c.ops.push(Op::HWriteAll { h: 0, len: 500, nonce });
            c.ops.push(Op::HFlush { h: 0 });
        }
        c.ops.push(Op::HDrop { h: 0 });
        c.ops.push(Op::WriteWhole { path: "/b".into(), len: 4096, nonce: 2 });
        return c;
    }
    let mut c = Case::new("C03", "large", version);
    c.bufsize = *rng.pick(gen::BUFSIZES);
    let mut nonce = 7000u32;
    let mut n = || {
        nonce += 1;
        nonce
    };
    match idx % 3 {
        0 => {
            // > 109 FAT sectors in V3: 109*128 sectors * 512 = 7_143_424 bytes
            c.ops.push(Op::WriteWhole { path: "/a".into(), len: 100, nonce: n() });
            c.ops.push(Op::HCreate { h: 0, path: "/big".into() });
            c.ops.push(Op::HSetLen { h: 0, n: 7_200_000 + rng.below(200_000) });
            c.ops.push(Op::HSeek { h: 0, whence: crate::ops::Whence::End, off: -1000, uoff: 0 });
            c.ops.push(Op::HWriteAll { h: 0, len: 1000, nonce: n() });
            c.ops.push(Op::HDrop { h: 0 });
            c.ops.push(Op::WriteWhole { path: "/b".into(), len: 5000, nonce: n() });
            c.ops.push(Op::RemoveStream("/a".into()));
            c.ops.push(Op::HOpen { h: 0, path: "/big".into() });
            c.ops.push(Op::HSetLen { h: 0, n: 7_500_000 + rng.below(200_000) });
            c.ops.push(Op::HSetLen { h: 0, n: 3_000_000 });
            c.ops.push(Op::HDrop { h: 0 });
            c.ops.push(Op::WriteWhole { path: "/c".into(), len: 70_000, nonce: n() });
            c.ops.push(Op::RemoveStream("/big".into()));
            c.ops.push(Op::WriteWhole { path: "/d".into(), len: 200_000, nonce: n() });
        }
        1 => {
            // many mini streams and many entries: several MiniFAT + directory sectors
            let count = 150 + rng.below(120);
            for i in 0..count {
                let len = *rng.pick(&[1u64, 63, 64, 65, 200, 1000, 4095]);
                c.ops.push(Op::WriteWhole { path: format!("/s{}", i), len, nonce: n() });
            }
            for i in 0..count {
                if rng.chance(1, 3) {
                    c.ops.push(Op::RemoveStream(format!("/s{}", i)));
                }
            }
            for i in 0..40 {
                c.ops.push(Op::WriteWhole { path: format!("/t{}", i), len: rng.below(4000), nonce: n() });
            }
        }
        _ => {
            // V4: > 1024 sectors = second FAT sector; grow/shrink
            c.ops.push(Op::HCreate { h: 0, path: "/big".into() });
            c.ops.push(Op::HSetLen { h: 0, n: 4_300_000 + rng.below(100_000) });
            c.ops.push(Op::HDrop { h: 0 });
            c.ops.push(Op::WriteWhole { path: "/x".into(), len: 10_000, nonce: n() });
            c.ops.push(Op::HOpen { h: 1, path: "/big".into() });
            c.ops.push(Op::HSetLen { h: 1, n: 100 });
            c.ops.push(Op::HDrop { h: 1 });
            c.ops.push(Op::WriteWhole { path: "/y".into(), len: 4_200_000, nonce: n() });
            c.ops.push(Op::RemoveStream("/x".into()));
        }
    }
    c
}

pub fn gen(seed: u64, idx: u64, tier: Tier) -> Case {
    let mut rng = Rng::for_case(seed, "C03", idx);
    let nlarge = if tier == Tier::Quick { LARGE_QUICK } else { LARGE_THOROUGH };
    if idx < nlarge {
        return large_case(&mut rng, idx);
    }
    if idx % 10 == 5 {
        // a handle outliving its stream (src/stale.rs): calls through it that return Ok must
        // still leave a well-formed image
        let version = if rng.chance(1, 2) { 3 } else { 4 };
        let mut c = Case::new("C03", "stale-handle", version);
        c.bufsize = *rng.pick(gen::BUFSIZES);
        c.ops = crate::stale::gen_ops(&mut rng);
        return c;
    }
    if idx % 4 == 0 {
        // sibling churn: 5-9 data-bearing siblings created in a drawn order, then removed in a
        // drawn order (some re-created): exercises every shape of the sibling tree on removal
        let version = if rng.chance(1, 2) { 3 } else { 4 };
        let mut c = Case::new("C03", "sibling-churn", version);
        let n = rng.range(5, 9) as usize;
        let names = crate::names::gen_pool(&mut rng, crate::names::NameClass::Ascii, n);
        let parent = if rng.chance(1, 3) {
            c.ops.push(Op::CreateStorage("/dir".into()));
            "/dir"
        } else {
            ""
        };
        let mut order: Vec<usize> = (0..n).collect();
        rng.shuffle(&mut order);
        let mut nonce = 600u32;
        for &i in &order {
            nonce += 1;
            if rng.chance(1, 5) {
                c.ops.push(Op::CreateStorage(format!("{}/{}", parent, names[i])));
            } else {
                c.ops.push(Op::WriteWhole { path: format!("{}/{}", parent, names[i]), len: *rng.pick(&[1u64, 64, 100, 4095, 4096, 5000]), nonce });
            }
        }
        rng.shuffle(&mut order);
        for (j, &i) in order.iter().enumerate() {
            c.ops.push(Op::RemoveStorageAll(format!("{}/{}", parent, names[i])));
            if j % 3 == 1 {
                nonce += 1;
                c.ops.push(Op::WriteWhole { path: format!("{}/{}", parent, names[order[0]]), len: *rng.pick(&[70u64, 4096]), nonce });
            }
        }
        return c;
    }
    let k = Knobs { max_ops: 40, near_miss: &[0, 0, 5], big_one_in: 5, no_remove_with_open_handles: true, ..DEFAULT_KNOBS };
    let w = match rng.below(3) {
        0 => gen::c01_weights(),
        1 => common::join_weights(gen::c01_weights(), gen::handle_weights()),
        _ => common::join_weights(common::join_weights(gen::c01_weights(), gen::handle_weights()), gen::meta_weights()),
    };
    common::standard_case("C03", "swarm", &mut rng, &k, w)
}

pub fn run(case: &Case, known: &BTreeSet<String>) -> Outcome {
    if case.mode == "stale-handle" {
        return crate::stale::run(case, crate::stale::Judge { property: "C03", image: true, bystanders: false, refusals: false });
    }
    runner::run_history(case, &flags(), known)
}
