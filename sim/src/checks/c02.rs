//! C02 — write-through persistence: at every boundary between API calls the
//! bytes alone (no flush) reopen in both modes to the model state; continuing
//! on the reopened file behaves the same.

use super::common::{self, Knobs, DEFAULT_KNOBS};
use super::{CheckDef, Tier};
use crate::case::{Case, Outcome};
use crate::disk::SimDisk;
use crate::driver::Lib;
use crate::gen;
use crate::prng::Rng;
use crate::runner::{self, Ctx, Flags, World};
use std::collections::BTreeSet;

pub fn def() -> CheckDef {
    CheckDef {
        id: "C02",
        level: "fault_enumeration",
        cases: |t| match t {
            Tier::Quick => 30_000 + LARGE_QUICK,
            Tier::Thorough => 1_000_000 + LARGE_THOROUGH,
        },
        gen,
        run,
        rule: "seeded histories (<= 25 ops: structure, whole-stream writes, handle scripts, metadata; the first cases of a run grow a V3 file past 109 FAT sectors in ~1 MB steps; every eighth history starts from a file laid out by the independent writer; one in 64 builds a directory of 3-4 sectors in V4 / 5-18 in V3 and then removes the entry in the first slot of a later directory sector and creates new objects into the freed slots); a process crash is injected at EVERY boundary between two API calls (snapshot of the image without flush), the snapshot is opened in permissive and strict mode and dumped, and compared with the model (streams with unflushed handle data: everything but their content). At one drawn boundary per history the run forks: the rest of the history is executed on the live object and on the reopened snapshot, both against the model. Non-trivial: >= 1 successful mutation and >= 1 crash-point check; distinct = distinct (seam log, final image) hash.",
        assumptions: &["crash = process crash / into_inner: bytes that reached write() survive (no power-loss model: the property does not state one)", "reference model as in C01"],
        cpu_limit_s: 300,
        fault_kinds: "F-CR at every operation boundary (enumerated per history); fork + continue",
        count_subruns: false,
        expect_probes: &["fork_runs"],
    }
}

const LARGE_QUICK: u64 = 2;
const LARGE_THOROUGH: u64 = 40;

/// Histories that grow the FAT past the 109 header DIFAT slots (V3, > 7.1 MB)
/// in steps, so that crash points fall before, at and after the first DIFAT sector.
fn large_case(rng: &mut Rng, idx: u64) -> Case {
    use crate::ops::{Op, Whence};
    let mut c = Case::new("C02", "large", 3);
    c.bufsize = *rng.pick(gen::BUFSIZES);
    let mut nonce = 9000u32;
    c.ops.push(Op::WriteWhole { path: "/small".into(), len: 100, nonce: 1 });
    c.ops.push(Op::HCreate { h: 0, path: "/big".into() });
    let step = 1_000_000 + rng.below(200_000);
    let target = if idx % 2 == 0 { 7_300_000 } else { 7_120_000 + rng.below(100_000) };
    let mut len = 0u64;
    while len < target {
        len = (len + step).min(target);
        c.ops.push(Op::HSetLen { h: 0, n: len });
        nonce += 1;
        c.ops.push(Op::HSeek { h: 0, whence: Whence::End, off: -100, uoff: 0 });
        c.ops.push(Op::HWriteAll { h: 0, len: 100, nonce });
        c.ops.push(Op::HFlush { h: 0 });
    }
    c.ops.push(Op::HDrop { h: 0 });
    c.ops.push(Op::WriteWhole { path: "/after".into(), len: 5000, nonce: 2 });
    c.ops.push(Op::RemoveStream("/small".into()));
    c
}

/// A directory of several sectors (V4: 66-100 entries = 3-4 sectors; V3: 18-40 sectors) built in
/// a drawn order, then removals - with a preference for the entry sitting in the FIRST slot of a
/// later directory sector, alone, so that it is the lowest free slot - and creations that take
/// the freed slots again: every header / chain field that is rewritten when the directory grows
/// must come out right when a slot is REUSED as well (strict reopen reads them all).
fn big_dir_case(rng: &mut Rng) -> Case {
    use crate::ops::Op;
    let version = if rng.chance(3, 4) { 4 } else { 3 };
    let mut c = Case::new("C02", "big-directory", version);
    c.bufsize = *rng.pick(gen::BUFSIZES);
    let per: u64 = if version == 4 { 32 } else { 4 };
    let n = if version == 4 { rng.range(66, 100) } else { rng.range(18, 70) };
    // names in a drawn insertion order (a sorted order would build a chain; C09 does that)
    let mut order: Vec<u64> = (0..n).collect();
    rng.shuffle(&mut order);
    let name = |k: u64| format!("/e{:03}", k);
    let mut is_stream = vec![false; n as usize];
    let mut nonce = 7000u32;
    for &k in &order {
        if rng.chance(1, 3) {
            nonce += 1;
            is_stream[k as usize] = true;
            c.ops.push(Op::WriteWhole { path: name(k), len: *rng.pick(&[0u64, 10, 70]), nonce });
        } else {
            c.ops.push(Op::CreateStorage(name(k)));
        }
    }
    // slot s (s >= 1) holds the s-th created object = order[s - 1]
    let rounds = rng.range(1, 3);
    let mut alive: Vec<bool> = vec![true; n as usize];
    let mut fresh = 0u32;
    for _ in 0..rounds {
        let mut victims: Vec<u64> = vec![];
        if rng.chance(2, 3) {
            // exactly the first slot of a later (not the last) directory sector
            let sectors = (n + 1) / per;
            if sectors >= 2 {
                let s = per * rng.range(1, sectors - 1);
                victims.push(order[(s - 1) as usize]);
            }
            if rng.chance(1, 3) {
                victims.push(order[rng.below(n) as usize]);
            }
        } else {
            for _ in 0..rng.range(1, 6) {
                victims.push(order[rng.below(n) as usize]);
            }
        }
        let mut removed = 0;
        for v in victims {
            if !alive[v as usize] {
                continue;
            }
            alive[v as usize] = false;
            removed += 1;
            c.ops.push(if is_stream[v as usize] { Op::RemoveStream(name(v)) } else { Op::RemoveStorage(name(v)) });
        }
        for _ in 0..removed + rng.below(3) {
            fresh += 1;
            if rng.chance(1, 2) {
                c.ops.push(Op::CreateStorage(format!("/n{:02}", fresh)));
            } else {
                nonce += 1;
                c.ops.push(Op::WriteWhole { path: format!("/n{:02}", fresh), len: *rng.pick(&[0u64, 30, 5000]), nonce });
            }
        }
    }
    c
}

pub fn flags() -> Flags {
    Flags {
        property: "C02",
        reopen_each: true,
        reopen_vs_live: true,
        record_results: true,
        // what the reopened bytes expose vs what the live object exposes; model
        // divergences of the live object are C01/C06/C07/C08's business
        scope: &["reopen.", "fork.", "dump.panic", "dump.fails"],
        ..Default::default()
    }
}

pub fn gen(seed: u64, idx: u64, tier: Tier) -> Case {
    let mut rng = Rng::for_case(seed, "C02", idx);
    if idx < (if tier == Tier::Quick { LARGE_QUICK } else { LARGE_THOROUGH }) {
        return large_case(&mut rng, idx);
    }
    if idx % 64 == 21 {
        return big_dir_case(&mut rng);
    }
    if idx % 8 == 3 {
        // start from a file laid out by the independent writer (real red-black trees, free
        // sectors, scattered slots) and mutate it: write-through must hold for such files too
        let version = if rng.chance(1, 2) { 3 } else { 4 };
        let mut c = Case::new("C02", "foreign-start", version);
        c.bufsize = *rng.pick(gen::BUFSIZES);
        let mut plan = crate::imgwr::plan_from_seed(rng.next_u64(), version);
        plan.v3_size_high_garbage = false;
        plan.library_like_trees = rng.chance(1, 2);
        let (max_entries, max_stream) = (rng.range(3, 30) as usize, 9000usize);
        let content_seed = rng.next_u64();
        c.init = crate::case::Init::Foreign { content_seed, max_entries, max_stream, plan };
        let mut crng = Rng::new(content_seed);
        let mut content = crate::imgwr::gen_content(&mut crng, max_entries, max_stream);
        content.root.meta.created = 0;
        let model = crate::model::Model::from_dump(&content, version);
        let mut pool: Vec<String> = model.all_paths().into_iter().filter_map(|(p, _)| p.last().cloned()).take(8).collect();
        pool.extend(crate::names::gen_pool(&mut rng, crate::names::NameClass::Ascii, 4));
        let cfg = gen::GenCfg {
            max_ops: 20,
            names: pool,
            sizes: gen::draw_sizes(&mut rng, 9000, if version == 3 { 512 } else { 4096 }),
            near_miss: 0,
            spellings: 0,
            case_variants: 0,
            weights: vec![("remove_stream", 10), ("remove_storage", 5), ("remove_storage_all", 3), ("write_whole", 8), ("create_storage", 4), ("set_state_bits", 2), ("open_stream", 2), ("h_write_all", 2), ("h_set_len", 2), ("h_flush", 2), ("h_drop", 2)],
            max_objects: 60,
            max_depth: 6,
            invalid_names: false,
            protect_handles: true,
            max_stream: 9000,
            no_remove_with_open_handles: true,
            set_len_shrink_only: false,
        };
        let n = rng.range(2, 20) as usize;
        let mut g = gen::Gen::new(&mut rng, &cfg, model);
        c.ops = g.history(n);
        return c;
    }
    let k = Knobs { max_ops: 25, near_miss: &[0, 5], no_remove_with_open_handles: true, ..DEFAULT_KNOBS };
    let w = if rng.chance(1, 2) {
        common::join_weights(gen::c01_weights(), gen::handle_weights())
    } else {
        common::join_weights(common::join_weights(gen::c01_weights(), gen::handle_weights()), gen::meta_weights())
    };
    let mut c = common::standard_case("C02", "crash-every-boundary", &mut rng, &k, w);
    if !c.ops.is_empty() {
        c.params.insert("fork_at".into(), rng.below(c.ops.len() as u64 + 1) as i64);
        c.params.insert("fork_strict".into(), rng.below(2) as i64);
    }
    c
}

fn live_dump(w: &mut World) -> Option<crate::dump::Dump> {
    w.lib.dump(&[]).ok()
}

pub fn run(case: &Case, known: &BTreeSet<String>) -> Outcome {
    let flags = flags();
    let mut ctx = Ctx::new(&flags, known);
    let mut w = match runner::setup(case, &flags) {
        Ok(w) => w,
        Err(e) => {
            ctx.out.harness_error = Some(e);
            return ctx.out;
        }
    };
    // crash point before the first op too
    runner::check_reopen(&mut w, &mut ctx, 0, "create");
    let fork_at = case.param("fork_at", -1);
    let n = case.ops.len();
    if fork_at >= 0 && (fork_at as usize) <= n {
        let f = fork_at as usize;
        runner::run_ops(&mut w, &case.ops[..f], 0, &mut ctx);
        let no_handles = w.model.handles.iter().all(|h| h.is_none());
        if !ctx.stop && no_handles {
            // fork: continue on the reopened snapshot (taken without flush) and on the live object
            let disk2 = SimDisk::new(w.lib.disk.snapshot());
            match Lib::open(disk2, case.param("fork_strict", 0) == 1, case.bufsize) {
                Ok(lib2) => {
                    let mut w2 = World { lib: lib2, model: w.model.clone() };
                    let mut ctx2 = Ctx::new(&flags, known);
                    runner::run_ops(&mut w2, &case.ops, f, &mut ctx2);
                    let mark = ctx.res_hashes.len();
                    runner::run_ops(&mut w, &case.ops, f, &mut ctx);
                    let main_res = &ctx.res_hashes[mark..];
                    let k = main_res.len().min(ctx2.res_hashes.len());
                    ctx.out.stats.sub_runs += 1;
                    ctx.out.stats.probe("fork_runs");
                    let mut bad = None;
                    for i in 0..k {
                        if main_res[i] != ctx2.res_hashes[i] {
                            bad = Some(i);
                            break;
                        }
                    }
                    for v in ctx2.out.violations.drain(..) {
                        // in-scope violations observed on the forked continuation
                        let mut v = v;
                        v.rule = format!("fork.{}", v.rule);
                        ctx.out.violations.push(v);
                        ctx.stop = true;
                    }
                    if let Some(i) = bad {
                        let op = &case.ops[f + i];
                        ctx.report("fork.results-differ", op.kind(), format!("continuing on the reopened snapshot (boundary {}) diverges from continuing on the live object at op {} {}", f, f + i, op.to_json()), f + i, true);
                    } else if !ctx.stop && !ctx2.stop && k == n - f {
                        // both ran to the end: final states must agree
                        for h in 0..4 {
                            let _ = w.lib.exec(&crate::ops::Op::HDrop { h });
                            let _ = w2.lib.exec(&crate::ops::Op::HDrop { h });
                        }
                        if let (Some(a), Some(b)) = (live_dump(&mut w), live_dump(&mut w2)) {
                            ctx.out.stats.boundary_checks += 1;
                            if let Some(d) = crate::dump::diff(&a, &b) {
                                ctx.report("fork.final-differs", "dump", format!("after continuing on the live object vs on the snapshot reopened at boundary {}: {}", f, d), n, true);
                            }
                        }
                    }
                    ctx.out.stats.boundary_checks += ctx2.out.stats.boundary_checks;
                    ctx.out.stats.api_calls += ctx2.out.stats.api_calls;
                    runner::finish(&mut w2, &mut ctx2);
                    ctx.out.stats.seam_events += ctx2.out.stats.seam_events;
                    ctx.out.stats.trace_hash ^= crate::prng::mix(ctx2.out.stats.trace_hash);
                }
                Err(r) => {
                    ctx.report("fork.reopen-fails", "open", format!("fork at boundary {}: {}", f, r.brief()), f, true);
                }
            }
        } else {
            ctx.out.stats.probe("fork_skipped(handles open)");
            runner::run_ops(&mut w, &case.ops, f, &mut ctx);
        }
    } else {
        runner::run_ops(&mut w, &case.ops, 0, &mut ctx);
    }
    // final crash point with every handle closed
    if !ctx.stop {
        for h in 0..4 {
            let op = crate::ops::Op::HDrop { h };
            let got = w.lib.exec(&op);
            let _ = w.model.step(&op, &got);
        }
        ctx.last_reopen_hash = 0;
        runner::check_reopen(&mut w, &mut ctx, n, "end");
    }
    runner::finish(&mut w, &mut ctx);
    *ctx.out.stats.faults_fired.entry("F-CR(boundary)".into()).or_insert(0) += ctx.out.stats.boundary_checks;
    ctx.out
}
