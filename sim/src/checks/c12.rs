//! C12 — read failures of the underlying file never turn into wrong data.
//!
//! One case = one read-only workload on a valid image + the enumeration of a
//! fault at EVERY seam call k of that workload (singly, and in pairs).

use super::{CheckDef, Tier};
use crate::case::{Case, Outcome, Violation};
use crate::disk::{Fault, FaultKind, SimDisk};
use crate::driver::{normalise_site, Lib};
use crate::gen::{self, Gen, GenCfg};
use crate::model::Model;
use crate::names::{self, NameClass};
use crate::ops::{Op, Res, Whence};
use crate::prng::Rng;
use std::collections::BTreeSet;

pub fn def() -> CheckDef {
    CheckDef {
        id: "C12",
        level: "fault_enumeration",
        cases: |t| match t {
            Tier::Quick => 48 * SLICES,
            Tier::Thorough => 1_200 * SLICES,
        },
        gen,
        run,
        rule: "one workload (its fault positions spread over 4 cases, k mod 4) = a drawn valid image (built by a drawn history on a fault-free disk; V3/V4; streams below and above the cutoff) and a drawn read-only workload: open (drawn max_buffer_size, permissive or strict), walk, entry lookups, and per stream a script of read, read-loop, fill_buf/consume and seeks forwards, backwards and across the buffer window. A fault-free reference run counts the N underlying read/seek calls; then the workload is re-run with an injected failure at EVERY position k in 1..N (F-RE or F-SE, whichever call k is), and with pairs (k1,k2): all pairs when N <= 150, else (k,k+1..k+8) plus a seeded sample. Every fault plan is run under two caller policies: after an Err the same call is retried on the same handle (open is always retried, on the same bytes), or the script simply carries on. Every third workload has a V3 image of 70-300 KB (several FAT sectors: one big stream, or 8-12 medium streams all read completely). Oracle: every call returns Err or what the fault-free run returned; every byte a handle returns equals truth[p..p+n] where p is the position the handle itself reported just before the call; nothing panics. sub_runs = number of faulted executions. Non-trivial: a fault fired and at least one stream read completed afterwards; distinct = distinct seam-log hashes. Every position is injected once more with another error kind (UnexpectedEof, InvalidData, InvalidInput, NotFound, WouldBlock, TimedOut, PermissionDenied, WriteZero) or as a premature end of file (read returns 0 bytes). A failed read() / fill_buf() / seek() must leave the position the handle reports unchanged (rule position-moved-by-failed-call). Every fourth workload is tiny, so that all pairs of positions are enumerated. Every position is also injected as a SHORT read at k followed by a failure at k+1 (the call that fetches the rest).",
        assumptions: &["truth = the logical content the image was built with (checked against a fault-free dump first)", "position after a failed call is whatever the handle itself reports (the statement leaves it open)"],
        cpu_limit_s: 600,
        fault_kinds: "F-RE, F-SE at every k (enumerated), pairs",
        count_subruns: true,
        expect_probes: &["pairs_exhaustive_after_open", "pairs_sampled", "workload_seam_calls"],
    }
}

fn workload(rng: &mut Rng, model: &Model, bufsize: Option<usize>) -> Vec<Op> {
    let mut ops = vec![Op::Walk];
    let streams: Vec<(String, usize)> = model.all_paths().into_iter().filter(|(_, s)| *s).map(|(p, _)| (crate::model::join(&p), model.lookup(&p).unwrap().data.len())).collect();
    let cap = bufsize.unwrap_or(1 << 20).max(1024);
    let many = streams.len() > 6;
    for (i, (path, len)) in streams.iter().enumerate() {
        if i >= 4 && !many {
            break;
        }
        let h = i % 4;
        if many {
            // big images: read every stream completely, once
            ops.push(Op::HOpen { h, path: path.clone() });
            ops.push(Op::HReadFull { h, n: *len + 10 });
            continue;
        }
        ops.push(Op::Entry(path.clone()));
        ops.push(Op::HOpen { h, path: path.clone() });
        let steps = rng.range(3, 10);
        for _ in 0..steps {
            let len = *len as u64;
            let op = match rng.below(11) {
                0 => Op::HRead { h, n: *rng.pick(&[1usize, 10, 64, 1000, 1024, 1025, 5000]) },
                // single read() calls at least as large as the handle's buffer (a library may
                // serve those past its buffer)
                8 if cap <= 70_000 => Op::HRead { h, n: *rng.pick(&[cap, cap + 1, 2 * cap, 70_000]) },
                1 | 2 => Op::HReadFull { h, n: *rng.pick(&[1usize, 100, 1024, 1500, 4096, 70_000]) },
                3 => Op::HFillBuf { h },
                4 => Op::HConsume { h, n: rng.range(0, 2000) as usize },
                5 => Op::HSeek { h, whence: Whence::Start, off: 0, uoff: if len == 0 { 0 } else { rng.below(len + 1) } },
                6 => Op::HSeek { h, whence: Whence::Current, off: -(rng.below(cap as u64 + 100) as i64), uoff: 0 },
                7 => Op::HSeek { h, whence: Whence::Start, off: 0, uoff: (*rng.pick(&[0u64, 1023, 1024, 1025, 4096])).min(len) },
                9 | 10 => {
                    // step back into the window just left, then read it again
                    ops.push(Op::HSeek { h, whence: Whence::Current, off: -(rng.range(1, 1024) as i64), uoff: 0 });
                    Op::HReadFull { h, n: *rng.pick(&[16usize, 200, 1024]) }
                }
                _ => Op::HSeek { h, whence: Whence::End, off: -(rng.below(len + 1) as i64), uoff: 0 },
            };
            ops.push(op);
        }
        ops.push(Op::HReadFull { h, n: 3000 });
    }
    ops.push(Op::Walk);
    ops
}

/// The fault positions of one workload are spread over SLICES cases (k mod SLICES).
pub const SLICES: u64 = 4;

pub fn gen(seed: u64, idx: u64, _tier: Tier) -> Case {
    let slice = idx % SLICES;
    let idx = idx / SLICES;
    let mut rng = Rng::for_case(seed, "C12", idx);
    // every third workload: a V3 image with several FAT sectors (V4 would need > 4 MB)
    let bigv3 = idx % 3 == 1;
    let version = if bigv3 || rng.chance(1, 2) { 3 } else { 4 };
    let mut c = Case::new("C12", "enumerate", version);
    c.bufsize = *rng.pick(gen::BUFSIZES);
    let sector = if version == 3 { 512 } else { 4096 };
    let cfg = GenCfg {
        max_ops: 10,
        names: names::gen_pool(&mut rng, NameClass::Ascii, 5),
        sizes: {
            let mut s = vec![0u64, 1, 64, 100, 1500, 4095, 4096, 5000, 9000];
            s.push(rng.below(20_000));
            s
        },
        near_miss: 0,
        spellings: 0,
        case_variants: 0,
        weights: vec![("write_whole", 10), ("create_storage", 3), ("remove_stream", 1)],
        max_objects: 8,
        max_depth: 3,
        invalid_names: false,
        protect_handles: true,
        max_stream: 20_000,
        no_remove_with_open_handles: false,
        set_len_shrink_only: false,
    };
    let _ = sector;
    // every fourth workload is tiny (one or two small streams, a handful of calls), so that
    // its seam-call count stays below 150 and ALL pairs of fault positions are enumerated
    let tiny = !bigv3 && idx % 4 == 2;
    let n = if tiny { 2 } else { rng.range(2, 8) as usize };
    let big = bigv3;
    let (build, model) = {
        let mut g = Gen::new(&mut rng, &cfg, Model::new(version));
        let mut b = g.history(if big { 2 } else { n });
        if big {
            // several FAT sectors (V3: > 64 KB) so that open reads more than one
            if idx % 6 == 1 {
                let op = Op::WriteWhole { path: "/bigstream".into(), len: 70_000 + g.rng.below(90_000), nonce: 4242 };
                g.model.predict(&op);
                b.push(op);
            } else {
                // many medium streams spread over the FAT sectors
                let count = 8 + g.rng.below(5);
                for i in 0..count {
                    let op = Op::WriteWhole { path: format!("/stream{}", i), len: 6_000 + g.rng.below(24_000), nonce: 4300 + i as u32 };
                    g.model.predict(&op);
                    b.push(op);
                }
            }
            let op = Op::WriteWhole { path: "/after".into(), len: 3000, nonce: 4243 };
            g.model.predict(&op);
            b.push(op);
        }
        (b, g.model.clone())
    };
    c.params.insert("build_len".into(), build.len() as i64);
    c.params.insert("strict".into(), if bigv3 { ((idx / 3) % 3 == 2) as i64 } else { rng.below(2) as i64 });
    c.ops = build;
    let mut w = workload(&mut rng, &model, c.bufsize);
    if tiny {
        // walk, one stream: open + at most 5 handle calls + final read
        let cut = w.iter().position(|op| matches!(op, Op::HOpen { .. })).map(|p| (p + 7).min(w.len())).unwrap_or(w.len());
        w.truncate(cut);
    }
    c.ops.extend(w);
    c.params.insert("pair_sample_seed".into(), (rng.next_u64() >> 2) as i64);
    c.params.insert("slice".into(), slice as i64);
    c.params.insert("nslices".into(), SLICES as i64);
    c
}

struct RunOut {
    results: Vec<Res>,
    n_events: u64,
    violation: Option<(String, String, String, usize)>, // rule, site, msg, step
    fired: std::collections::BTreeMap<&'static str, u64>,
    reads_after_fault: bool,
    trace: u64,
    flavours: [u64; 16],
    /// seam calls made by open (the handle calls of the workload come after)
    n_open: u64,
}

/// Execute the read-only workload on `image` with the given fault plan.
fn execute(image: &[u8], truth: &Model, reference: Option<&[Res]>, work: &[Op], strict: bool, bufsize: Option<usize>, plan: &[Fault], retry: bool) -> RunOut {
    let disk = SimDisk::with_plan(image.to_vec(), plan.to_vec());
    let mut out = RunOut { results: vec![], n_events: 0, violation: None, fired: Default::default(), reads_after_fault: false, trace: 0, flavours: [0; 16], n_open: 0 };
    // open with retries
    let mut lib: Option<Lib> = None;
    for attempt in 0..4 {
        match Lib::open(disk.clone(), strict, bufsize) {
            Ok(l) => {
                lib = Some(l);
                break;
            }
            Err(Res::Panic(p)) => {
                out.violation = Some(("panic".into(), normalise_site(&p), format!("open (attempt {}) panicked: {}", attempt + 1, p), 0));
                break;
            }
            Err(Res::Hang) => {
                out.violation = Some(("hang".into(), "open".into(), "open exceeded its step budget".into(), 0));
                break;
            }
            Err(r) => {
                // an error from open is fine if a fault fired; with no fault it is wrong
                if disk.0.borrow().fired.is_empty() {
                    out.violation = Some(("open.err-without-fault".into(), "open".into(), format!("open failed without any injected fault: {}", r.brief()), 0));
                    break;
                }
            }
        }
    }
    let mut lib = match lib {
        Some(l) => l,
        None => {
            if out.violation.is_none() && plan.len() <= 2 {
                out.violation = Some(("open.never-succeeds".into(), "open".into(), format!("open still fails after {} retries with {} one-shot fault(s)", 3, plan.len()), 0));
            }
            let d = disk.0.borrow();
            out.n_events = d.k;
            out.fired = d.fired.clone();
            out.trace = d.hash.finish();
            return out;
        }
    };
    lib.budget_base = 400_000;
    out.n_open = disk.k();
    'ops: for (i, op) in work.iter().enumerate() {
        let mut tries = 0;
        loop {
            tries += 1;
            // position as reported by the handle itself, before the call
            let mut pos_before: Option<u64> = None;
            if let Some(h) = op.handle() {
                if !matches!(op, Op::HOpen { .. }) && lib.handles[h].is_some() {
                    match lib.exec(&Op::HPos { h }) {
                        Res::Num(p) => pos_before = Some(p),
                        Res::Panic(p) => {
                            out.violation = Some(("panic".into(), normalise_site(&p), format!("stream_position before step {} panicked: {}", i, p), i));
                            break 'ops;
                        }
                        _ => {}
                    }
                }
            }
            let fired_before: u64 = disk.0.borrow().fired.values().sum();
            let got = lib.exec(op);
            let fired_now: u64 = disk.0.borrow().fired.values().sum();
            let faulted = fired_now > fired_before;
            match &got {
                Res::Panic(p) => {
                    out.violation = Some(("panic".into(), normalise_site(p), format!("step {} {} panicked: {}", i, op.to_json(), p), i));
                    break 'ops;
                }
                Res::Hang => {
                    out.violation = Some(("hang".into(), op.kind().into(), format!("step {} {} exceeded its step budget", i, op.to_json()), i));
                    break 'ops;
                }
                Res::Err(k, m) => {
                    // refusals the fault-free run also produced are fine
                    let same_as_ref = reference.and_then(|r| r.get(i)).map(|r| r.err_kind() == Some(*k)).unwrap_or(false);
                    if !same_as_ref && !faulted && fired_now == 0 {
                        out.violation = Some(("err-without-fault".into(), op.kind().into(), format!("step {} {}: Err({:?}: {}) although no fault was injected", i, op.to_json(), k, m), i));
                        break 'ops;
                    }
                    // std::io::Read: "If an error is returned then it must be guaranteed that no
                    // bytes were read" - and a caller that retries takes what comes next for the
                    // next bytes.  So a failed read()/fill_buf()/seek() must leave the position
                    // the handle reports where it was.
                    if faulted && matches!(op, Op::HRead { .. } | Op::HFillBuf { .. } | Op::HSeek { .. }) {
                        if let (Some(pb), Res::Num(pa)) = (pos_before, lib.exec(&Op::HPos { h: op.handle().unwrap() })) {
                            if pa != pb {
                                out.violation = Some((
                                    "position-moved-by-failed-call".into(),
                                    op.kind().into(),
                                    format!("step {} {} (attempt {}) failed with {:?} ({}), and the handle's position went from {} to {}: a retry would skip or repeat bytes", i, op.to_json(), tries, k, m, pb, pa),
                                    i,
                                ));
                                break 'ops;
                            }
                        }
                    }
                    if !same_as_ref && tries < 3 && retry {
                        continue; // retry the same call on the same handle
                    }
                    if out.results.len() == i {
                        out.results.push(got.clone());
                    }
                    break;
                }
                _ => {}
            }
            // Ok results: compare with the truth
            let bad: Option<String> = match (op, &got) {
                (Op::HRead { .. }, Res::Bytes(b)) | (Op::HReadFull { .. }, Res::Bytes(b)) | (Op::HFillBuf { .. }, Res::Bytes(b)) => {
                    if !b.is_empty() && fired_now > 0 {
                        out.reads_after_fault = true;
                    }
                    match (pos_before, truth_of_handle(truth, &lib, work, op.handle().unwrap(), i)) {
                        (Some(p), Some(data)) => {
                            let p = p as usize;
                            if p > data.len() || b.len() > data.len() - p {
                                Some(format!("returned {} bytes at reported position {} but the stream has only {} bytes", b.len(), p, data.len()))
                            } else if data[p..p + b.len()] != b[..] {
                                let first = b.iter().zip(data[p..].iter()).position(|(x, y)| x != y);
                                Some(format!("{} bytes returned at reported position {} differ from the stream's true content (first mismatch at +{:?})", b.len(), p, first))
                            } else if let (Op::HReadFull { n, .. }, true) = (op, true) {
                                let want = (*n).min(data.len() - p);
                                if b.len() != want {
                                    Some(format!("read loop returned {} bytes, {} were available (position {}, len {})", b.len(), want, p, data.len()))
                                } else {
                                    None
                                }
                            } else {
                                None
                            }
                        }
                        _ => None,
                    }
                }
                (Op::HSeek { whence, off, uoff, .. }, Res::Num(np)) => {
                    let data_len = truth_of_handle(truth, &lib, work, op.handle().unwrap(), i).map(|d| d.len() as i128);
                    match (pos_before, data_len) {
                        (Some(p), Some(len)) => {
                            let t: i128 = match whence {
                                Whence::Start => *uoff as i128,
                                Whence::End => len + *off as i128,
                                Whence::Current => p as i128 + *off as i128,
                            };
                            if t != *np as i128 {
                                Some(format!("seek returned {} but the target is {} (position before: {})", np, t, p))
                            } else {
                                None
                            }
                        }
                        _ => None,
                    }
                }
                (Op::Walk, _) | (Op::Entry(_), _) | (Op::HOpen { .. }, _) | (Op::HConsume { .. }, _) => match reference.and_then(|r| r.get(i)) {
                    Some(r) if *r != got => Some(format!("returned {} but the fault-free run returned {}", got.brief(), r.brief())),
                    _ => None,
                },
                _ => None,
            };
            if let Some(msg) = bad {
                let rule = match op {
                    Op::HRead { .. } | Op::HReadFull { .. } | Op::HFillBuf { .. } => "wrong-data",
                    Op::HSeek { .. } => "wrong-position",
                    _ => "wrong-result",
                };
                out.violation = Some((rule.into(), op.kind().into(), format!("step {} {} (attempt {}): {}", i, op.to_json(), tries, msg), i));
                break 'ops;
            }
            if out.results.len() == i {
                out.results.push(got);
            }
            break;
        }
        while out.results.len() <= i {
            out.results.push(Res::Skipped);
        }
    }
    lib.close();
    let d = disk.0.borrow();
    out.n_events = d.k;
    out.flavours = d.flavour_counts;
    out.fired = d.fired.clone();
    out.trace = d.hash.finish();
    out
}

/// The true content of the stream handle `h` is (or was last) opened on.
fn truth_of_handle<'a>(truth: &'a Model, _lib: &Lib, work: &[Op], h: usize, upto: usize) -> Option<&'a Vec<u8>> {
    // the most recent open_stream into slot h at or before op index `upto`
    for op in work[..=upto.min(work.len() - 1)].iter().rev() {
        if let Op::HOpen { h: hh, path } = op {
            if *hh == h {
                let names = crate::model::parse_path(path).ok()?;
                return truth.lookup(&names).map(|n| &n.data);
            }
        }
    }
    None
}

pub fn build_image(case: &Case, build_len: usize) -> Result<(Vec<u8>, Model), String> {
    let mut b = Case::new(&case.check, "build", case.version);
    b.ops = case.ops[..build_len].to_vec();
    let flags = crate::runner::Flags { property: "harness", ..Default::default() };
    let known = BTreeSet::new();
    let mut ctx = crate::runner::Ctx::new(&flags, &known);
    let mut w = crate::runner::setup(&b, &flags)?;
    crate::runner::run_ops(&mut w, &b.ops, 0, &mut ctx);
    for h in 0..4 {
        let op = Op::HDrop { h };
        let got = w.lib.exec(&op);
        let _ = w.model.step(&op, &got);
    }
    if let Some(v) = ctx.out.violations.first() {
        // a divergence while building belongs to other properties: the base is unusable
        return Err(format!("BUILD-DIVERGED {}: {}", v.sig(), v.msg));
    }
    let img = w.lib.disk.snapshot();
    w.lib.close();
    Ok((img, w.model))
}

pub fn run(case: &Case, _known: &BTreeSet<String>) -> Outcome {
    let mut o = Outcome::default();
    let build_len = case.param("build_len", 0) as usize;
    let strict = case.param("strict", 0) == 1;
    let (image, truth) = match build_image(case, build_len.min(case.ops.len())) {
        Ok(x) => x,
        Err(e) => {
            if e.starts_with("BUILD-DIVERGED") {
                o.stats.probe("base_unusable(other property)");
            } else {
                o.harness_error = Some(e);
            }
            return o;
        }
    };
    let work = &case.ops[build_len.min(case.ops.len())..];
    let viol = |o: &mut Outcome, v: (String, String, String, usize), plan: &[Fault]| {
        let mut rc = case.clone();
        rc.faults = plan.to_vec();
        o.replay_case = Some(rc);
        o.violations.push(Violation { property: "C12".into(), rule: v.0, site: v.1, msg: format!("faults {:?}: {}", plan.iter().map(|f| f.k).collect::<Vec<_>>(), v.2), step: v.3 });
    };
    // reference
    let r0 = execute(&image, &truth, None, work, strict, case.bufsize, &[], true);
    o.stats.sub_runs += 1;
    o.stats.seam_events += r0.n_events;
    o.stats.api_calls += work.len() as u64;
    if let Some(v) = r0.violation {
        // fault-free trouble is not C12's subject unless it is wrong data
        if v.0 == "wrong-data" || v.0 == "panic" {
            o.stats.probe("fault_free_run_diverged(other property)");
        }
        let _ = v;
        return o;
    }
    let n = r0.n_events;
    let mut traces: BTreeSet<u64> = BTreeSet::new();
    let mut any_read_after = false;
    let mut run_plan_policy = |o: &mut Outcome, plan: Vec<Fault>, retry: bool| -> bool {
        let r = execute(&image, &truth, Some(&r0.results), work, strict, case.bufsize, &plan, retry);
        o.stats.sub_runs += 1;
        o.stats.seam_events += r.n_events;
        o.stats.api_calls += work.len() as u64;
        o.stats.boundary_checks += 1;
        o.stats.absorb_fired(&r.fired);
        for (fl, n) in r.flavours.iter().enumerate() {
            if *n > 0 {
                o.stats.probe_n(&format!("error_kind_fired:{}", crate::disk::flavour_name(fl as u8)), *n);
            }
        }
        traces.insert(r.trace);
        any_read_after |= r.reads_after_fault;
        if let Some(v) = r.violation {
            viol(o, v, &plan);
            if let Some(rc) = o.replay_case.as_mut() {
                rc.params.insert("no_retry".into(), (!retry) as i64);
            }
            return false;
        }
        true
    };
    // both caller policies: retry the failed call, or carry on with the script
    let mut run_plan_mode = |o: &mut Outcome, plan: Vec<Fault>, mode: u8| -> bool {
        match mode {
            1 => run_plan_policy(o, plan, true),
            2 => run_plan_policy(o, plan, false),
            _ => run_plan_policy(o, plan.clone(), true) && run_plan_policy(o, plan, false),
        }
    };
    if !case.faults.is_empty() {
        if case.params.contains_key("no_retry") {
            // explicit replay of one policy
            let retry = case.param("no_retry", 0) == 0;
            let r = execute(&image, &truth, Some(&r0.results), work, strict, case.bufsize, &case.faults, retry);
            o.stats.sub_runs += 1;
            o.stats.absorb_fired(&r.fired);
            if let Some(v) = r.violation {
                viol(&mut o, v, &case.faults);
            }
            return o;
        }
        run_plan_mode(&mut o, case.faults.clone(), 0);
    } else {
        let (slice, nslices) = (case.param("slice", 0) as u64, case.param("nslices", 1).max(1) as u64);
        'enumerate: {
            for k in 1..=n {
                if k % nslices != slice {
                    continue;
                }
                if !run_plan_mode(&mut o, vec![Fault { k, kind: FaultKind::Fail }], 0) {
                    break 'enumerate;
                }
                // the same position once more with another error kind (or a premature
                // "0 bytes"), drawn per position: failures are not all ErrorKind::Other
                let flavour = 1 + ((k + case.param("pair_sample_seed", 0) as u64) % crate::disk::FLAVOURS as u64) as u8;
                if !run_plan_mode(&mut o, vec![Fault { k, kind: FaultKind::FailAs { flavour } }], 1 + (k % 2) as u8) {
                    break 'enumerate;
                }
                // a SHORT read at k (legal for any reader), then the failure at the call that fetches
                // the rest: whatever was assembled from the first part must not survive as data
                let short = 1 + ((k * 37 + case.param("pair_sample_seed", 0) as u64) % 300) as usize;
                if !run_plan_mode(&mut o, vec![Fault { k, kind: FaultKind::Short { n: short } }, Fault { k: k + 1, kind: FaultKind::Fail }], 1 + ((k / nslices) % 2) as u8) {
                    break 'enumerate;
                }
            }
            // pairs: all of them when the whole workload is short; for the tiny workloads (open
            // alone makes well over a hundred calls) all pairs AFTER open, i.e. inside the
            // handle calls
            let n_open = r0.n_open;
            if n > 150 && n > n_open && n - n_open <= 90 {
                for k1 in n_open + 1..=n {
                    if k1 % nslices != slice {
                        continue;
                    }
                    for k2 in k1 + 1..=n + 4 {
                        if !run_plan_mode(&mut o, vec![Fault { k: k1, kind: FaultKind::Fail }, Fault { k: k2, kind: FaultKind::Fail }], 0) {
                            break 'enumerate;
                        }
                    }
                }
                o.stats.probe("pairs_exhaustive_after_open");
            }
            if n <= 150 {
                for k1 in 1..=n {
                    if k1 % nslices != slice {
                        continue;
                    }
                    for k2 in k1 + 1..=n + 4 {
                        if !run_plan_mode(&mut o, vec![Fault { k: k1, kind: FaultKind::Fail }, Fault { k: k2, kind: FaultKind::Fail }], 0) {
                            break 'enumerate;
                        }
                    }
                }
                o.stats.probe("pairs_exhaustive");
            } else {
                for k1 in 1..=n {
                    if k1 % nslices != slice {
                        continue;
                    }
                    for d in [1u64, 2, 3, 8] {
                        if !run_plan_mode(&mut o, vec![Fault { k: k1, kind: FaultKind::Fail }, Fault { k: k1 + d, kind: FaultKind::Fail }], 0) {
                            break 'enumerate;
                        }
                    }
                }
                let mut rng = Rng::new(case.param("pair_sample_seed", 1) as u64 ^ slice);
                for _ in 0..n.min(400) / nslices {
                    let k1 = rng.range(1, n);
                    let k2 = rng.range(k1 + 1, n + 20);
                    if !run_plan_mode(&mut o, vec![Fault { k: k1, kind: FaultKind::Fail }, Fault { k: k2, kind: FaultKind::Fail }], 0) {
                        break 'enumerate;
                    }
                }
                o.stats.probe("pairs_sampled");
            }
        }
    }
    o.stats.state_hashes = traces.iter().copied().collect();
    o.stats.trace_hash = traces.iter().fold(r0.trace, |a, b| a ^ crate::prng::mix(*b));
    o.stats.nontrivial = any_read_after && o.stats.faults_fired.values().sum::<u64>() > 0;
    o.stats.probe_n("workload_seam_calls", n);
    o
}
