//! Shared pieces of the history-based checks.

use crate::case::Case;
use crate::gen::{self, Gen, GenCfg};
use crate::model::Model;
use crate::names::{self, NameClass};
use crate::prng::Rng;

pub struct Knobs {
    pub max_ops: usize,
    pub big_one_in: u64,
    pub big_stream: u64,
    pub small_stream: u64,
    pub pool: (u64, u64),
    pub near_miss: &'static [u32],
    pub spellings: &'static [u32],
    pub case_variants: &'static [u32],
    pub max_objects: usize,
    pub invalid_names: bool,
    pub class_agreed_one_in: u64,
    pub no_remove_with_open_handles: bool,
    pub set_len_shrink_only: bool,
}

pub const DEFAULT_KNOBS: Knobs = Knobs {
    max_ops: 40,
    big_one_in: 6,
    big_stream: 300_000,
    small_stream: 20_000,
    pool: (2, 10),
    near_miss: &[0, 5, 15],
    spellings: &[0, 10],
    case_variants: &[0, 20],
    max_objects: 40,
    invalid_names: false,
    class_agreed_one_in: 3,
    no_remove_with_open_handles: false,
    set_len_shrink_only: false,
};

/// Draw the swarm configuration and the history for a standard check.
pub fn standard_case(check: &str, mode: &str, rng: &mut Rng, k: &Knobs, weights: Vec<(&'static str, u32)>) -> Case {
    let version = if rng.chance(1, 2) { 3 } else { 4 };
    let mut c = Case::new(check, mode, version);
    c.bufsize = *rng.pick(gen::BUFSIZES);
    let sector = if version == 3 { 512 } else { 4096 };
    let big = rng.chance(1, k.big_one_in);
    let max_stream: u64 = if big { k.big_stream } else { k.small_stream };
    let pool_n = rng.range(k.pool.0, k.pool.1) as usize;
    let class = if rng.chance(1, k.class_agreed_one_in) { NameClass::Agreed } else { NameClass::Ascii };
    let cfg = GenCfg {
        max_ops: k.max_ops,
        names: names::gen_pool(rng, class, pool_n),
        sizes: gen::draw_sizes(rng, max_stream, sector),
        near_miss: *rng.pick(k.near_miss),
        spellings: *rng.pick(k.spellings),
        case_variants: *rng.pick(k.case_variants),
        weights: gen::swarm(rng, weights),
        max_objects: k.max_objects,
        max_depth: 5,
        invalid_names: k.invalid_names,
        protect_handles: true,
        max_stream,
        no_remove_with_open_handles: k.no_remove_with_open_handles,
        set_len_shrink_only: k.set_len_shrink_only,
    };
    let n = gen::draw_len(rng, k.max_ops);
    let mut g = Gen::new(rng, &cfg, Model::new(version));
    c.ops = g.history(n);
    c
}

pub fn join_weights(a: Vec<(&'static str, u32)>, b: Vec<(&'static str, u32)>) -> Vec<(&'static str, u32)> {
    let mut v = a;
    v.extend(b);
    v
}
