//! C09 — names are validated, case-insensitive, and paths are normalised consistently.

use super::{CheckDef, Tier};
use crate::case::{Case, Outcome};
use crate::gen::{self, Gen, GenCfg};
use crate::model::Model;
use crate::names::{self, NameClass};
use crate::ops::Op;
use crate::prng::Rng;
use crate::runner::{self, Flags};
use std::collections::BTreeSet;

pub fn def() -> CheckDef {
    CheckDef {
        id: "C09",
        level: "exploration",
        cases: |t| match t {
            Tier::Quick => 30_000,
            Tier::Thorough => 700_000,
        },
        gen,
        run,
        rule: "every 50th case is a DEEP CHAIN: 66-140 siblings of one storage created in ascending, descending or zig-zag order (the sibling tree degenerates into a path), then lookups under exact and upper-case spellings, duplicate refusals, removals and re-creation at the deep end, before and after reopening. four seeded modes ((d) 'supplementary-case': names with cased letters outside the BMP are stored verbatim, found under the other case, and a second sibling equal up to case is refused - equality follows the crate's documented per-character simple upper-casing, order is not judged): (a) 'siblings': pools of 8-60 valid names mixing ASCII, cased and case-less non-ASCII and supplementary-plane characters, inserted and removed in drawn orders with lookups under drawn letter-case variants and alternative path spellings (./, //, trailing /, x/../), listings after each step; (b) 'validation': names of 1-40 UTF-16 units with and without / \\ : ! created through all four create calls, then looked up verbatim and after reopen; (c) 'disputed': names with characters whose case mapping is disputed - only exact-spelling findability, uniqueness, listing-as-set and listing order == in-order traversal of the stored tree are judged. Refused creations must perform zero seam writes. Image rules R6/R9 are checked by imgck after every mutation. Non-trivial: >= 1 successful creation and >= 1 check; distinct = distinct (seam log, final image) hash.",
        assumptions: &["name order/equality model exact only for agreed character classes (names.rs); disputed classes judged as described", "path syntax is Unix (the sandbox OS)"],
        cpu_limit_s: 300,
        fault_kinds: "none (seam-level write counter for refused creations)",
        count_subruns: false,
        expect_probes: &["node_with_two_siblings"],
    }
}

pub fn flags(case: &Case) -> Flags {
    Flags {
        property: "C09",
        no_effect: true,
        imgck_each: true,
        imgck_dump: true,
        final_check: true,
        dump_each: case.mode == "disputed" || case.mode == "supplementary-case",
        relaxed_order: case.mode == "disputed" || case.mode == "supplementary-case",
        ..Default::default()
    }
}

fn sibling_weights() -> Vec<(&'static str, u32)> {
    vec![
        ("create_storage", 12),
        ("create_new_stream", 8),
        ("create_stream", 4),
        ("write_whole", 8),
        ("remove_stream", 8),
        ("remove_storage", 8),
        ("entry", 10),
        ("exists", 6),
        ("is_stream", 2),
        ("is_storage", 2),
        ("read_storage", 6),
        ("read_root_storage", 4),
        ("walk", 3),
        ("walk_storage", 2),
        ("read_whole", 3),
        ("open_stream", 2),
        ("h_drop", 2),
        ("reopen", 2),
    ]
}

pub fn gen(seed: u64, idx: u64, _tier: Tier) -> Case {
    let mut rng = Rng::for_case(seed, "C09", idx);
    let version = if rng.chance(1, 2) { 3 } else { 4 };
    let mode = match idx % 10 {
        0 | 1 | 5 | 6 => "siblings",
        2 | 3 | 7 | 8 => "validation",
        4 => "disputed",
        _ => "supplementary-case",
    };
    let mode = if idx % 50 == 9 { "deep-chain" } else { mode };
    let mut c = Case::new("C09", mode, version);
    if mode == "deep-chain" {
        // 66-140 siblings created in ascending, descending or zig-zag order: the library never
        // rebalances on insertion, so the sibling tree is a path as deep as the storage is wide;
        // every name must still be found (exact spelling and other letter case), refused as a
        // duplicate, removable, and listed once - before and after reopening
        let n = rng.range(66, 140) as usize;
        let parent = if rng.chance(1, 3) {
            c.ops.push(Op::CreateStorage("/deep".into()));
            "/deep"
        } else {
            ""
        };
        let names: Vec<String> = (0..n).map(|i| format!("item{:03}", i)).collect();
        let order: Vec<usize> = match rng.below(3) {
            0 => (0..n).collect(),
            1 => (0..n).rev().collect(),
            _ => (0..n).map(|j| if j % 2 == 0 { j / 2 } else { n - 1 - j / 2 }).collect(),
        };
        for (j, &i) in order.iter().enumerate() {
            let path = format!("{}/{}", parent, names[i]);
            if rng.chance(1, 4) {
                c.ops.push(Op::CreateStorage(path));
            } else {
                c.ops.push(Op::WriteWhole { path, len: *rng.pick(&[0u64, 5, 64, 200]), nonce: 1200 + j as u32 });
            }
        }
        let probe = |c: &mut Case, rng: &mut Rng| {
            // the deepest entries (created last) and a few drawn ones
            let mut which: Vec<usize> = order.iter().rev().take(8).copied().collect();
            for _ in 0..6 {
                which.push(rng.usize_below(n));
            }
            for i in which {
                c.ops.push(Op::Exists(format!("{}/{}", parent, names[i])));
                c.ops.push(Op::Entry(format!("{}/{}", parent, names[i].to_uppercase())));
            }
        };
        probe(&mut c, &mut rng);
        let last = order[n - 1];
        c.ops.push(Op::CreateNewStream(format!("{}/{}", parent, names[last].to_uppercase())));
        c.ops.push(Op::CreateStorage(format!("{}/{}", parent, names[order[n - 2]])));
        c.ops.push(Op::RemoveStorageAll(format!("{}/{}", parent, names[last])));
        c.ops.push(Op::RemoveStorageAll(format!("{}/{}", parent, names[order[n - 3]].to_uppercase())));
        c.ops.push(Op::Exists(format!("{}/{}", parent, names[last])));
        c.ops.push(Op::WriteWhole { path: format!("{}/{}", parent, names[last]), len: 70, nonce: 1199 });
        if parent.is_empty() {
            c.ops.push(Op::ReadRoot);
        } else {
            c.ops.push(Op::ReadStorage(parent.to_string()));
        }
        c.ops.push(Op::Reopen { strict: rng.chance(1, 2) });
        probe(&mut c, &mut rng);
        c.ops.push(Op::Walk);
        return c;
    }
    match mode {
        "siblings" | "disputed" => {
            let hi = if rng.chance(1, 4) { 60 } else { 20 };
            let n = rng.range(8, hi) as usize;
            let mut pool = if mode == "disputed" {
                names::gen_pool(&mut rng, NameClass::Disputed, n)
            } else {
                let n1 = rng.range(1, n as u64 - 1) as usize;
                let mut p = names::gen_pool(&mut rng, NameClass::Ascii, n1);
                for cand in names::gen_pool(&mut rng, NameClass::Agreed, n - n1) {
                    if !p.iter().any(|x| names::cfb_eq(x, &cand)) {
                        p.push(cand);
                    }
                }
                p
            };
            // equal-length clusters so that the per-unit comparison decides
            if rng.chance(1, 2) && mode == "siblings" {
                let len = rng.range(1, 4) as usize;
                for _ in 0..6 {
                    let cand = names::gen_name(&mut rng, NameClass::Agreed, len);
                    if !pool.iter().any(|x| names::cfb_eq(x, &cand)) {
                        pool.push(cand);
                    }
                }
            }
            let cfg = GenCfg {
                max_ops: 70,
                names: pool,
                sizes: vec![0, 1, 64, 100, 4096, 5000],
                near_miss: *rng.pick(&[0u32, 5, 15]),
                spellings: if mode == "disputed" { 0 } else { *rng.pick(&[0u32, 20, 50]) },
                case_variants: if mode == "disputed" { 0 } else { *rng.pick(&[0u32, 30, 70]) },
                weights: gen::swarm(&mut rng, sibling_weights()),
                max_objects: 70,
                max_depth: 3,
                invalid_names: mode != "disputed",
                protect_handles: true,
                max_stream: 6000,
                no_remove_with_open_handles: false,
                set_len_shrink_only: false,
            };
            let nops = rng.range(5, 70) as usize;
            let mut g = Gen::new(&mut rng, &cfg, Model::new(version));
            c.ops = g.history(nops);
        }
        "supplementary-case" => {
            // cased letters outside the BMP: stored verbatim, found under the other case, a
            // second sibling equal up to case refused (order is not judged for these names)
            let count = rng.range(2, 6);
            let mut made: Vec<String> = vec![];
            for i in 0..count {
                let len = rng.range(1, 5) as usize;
                let mut name = String::new();
                for _ in 0..len {
                    if rng.chance(1, 2) {
                        name.push(*rng.pick(names::SUPPLEMENTARY_CASED));
                    } else {
                        name.push(*rng.pick(&['a', 'B', 'é', '7', '_']));
                    }
                }
                if !name.chars().any(|ch| (ch as u32) >= 0x10000) {
                    name.push(*rng.pick(names::SUPPLEMENTARY_CASED));
                }
                if made.iter().any(|m| names::cfb_eq(m, &name)) {
                    continue;
                }
                let path = format!("/{}", name);
                let other = format!("/{}", names::flip_supplementary_case(&name));
                if rng.chance(1, 2) {
                    c.ops.push(Op::CreateStorage(path.clone()));
                    c.ops.push(Op::IsStorage(other.clone()));
                    c.ops.push(Op::CreateStorage(other.clone()));
                } else {
                    c.ops.push(Op::WriteWhole { path: path.clone(), len: *rng.pick(&[0u64, 10, 5000]), nonce: 700 + i as u32 });
                    c.ops.push(Op::IsStream(other.clone()));
                    c.ops.push(Op::CreateNewStream(other.clone()));
                    c.ops.push(Op::ReadWhole(other.clone()));
                }
                c.ops.push(Op::Entry(other.clone()));
                c.ops.push(Op::Exists(path.clone()));
                c.ops.push(Op::ReadRoot);
                made.push(name);
            }
            if rng.chance(1, 2) {
                c.ops.push(Op::Reopen { strict: rng.chance(1, 2) });
            }
            for m in &made {
                c.ops.push(Op::Exists(format!("/{}", names::flip_supplementary_case(m))));
            }
            if let Some(m) = made.first() {
                c.ops.push(Op::RemoveStorageAll(format!("/{}", names::flip_supplementary_case(m))));
                c.ops.push(Op::Exists(format!("/{}", m)));
            }
        }
        _ => {
            // validation: explicit names through every create call
            c.ops.push(Op::CreateStorage("/dir".into()));
            let count = rng.range(2, 10);
            for i in 0..count {
                let len = match rng.below(6) {
                    0 => 31,
                    1 => 32,
                    2 => rng.range(33, 40) as usize,
                    3 => rng.range(28, 31) as usize,
                    _ => rng.range(1, 12) as usize,
                };
                let class = *rng.pick(&[NameClass::Ascii, NameClass::Agreed, NameClass::Agreed]);
                let mut name = names::gen_name(&mut rng, class, len);
                if rng.chance(1, 3) {
                    // inject a forbidden character at a drawn position
                    let bad = *rng.pick(&['\\', ':', '!']);
                    let mut chars: Vec<char> = name.chars().collect();
                    let pos = rng.usize_below(chars.len());
                    chars[pos] = bad;
                    name = chars.into_iter().collect();
                }
                let parent = if rng.chance(1, 2) { "/dir" } else { "" };
                let path = format!("{}/{}", parent, name);
                let op = match rng.below(5) {
                    0 => Op::CreateStorage(path.clone()),
                    1 => Op::CreateStorageAll(path.clone()),
                    2 => Op::CreateStream(path.clone()),
                    3 => Op::CreateNewStream(path.clone()),
                    _ => Op::WriteWhole { path: path.clone(), len: *rng.pick(&[0u64, 10, 5000]), nonce: 900 + i as u32 },
                };
                c.ops.push(op);
                c.ops.push(Op::Entry(path.clone()));
                c.ops.push(Op::Exists(path.clone()));
                if rng.chance(1, 3) {
                    // create_storage_all with a fresh ancestor, then the (possibly invalid) name,
                    // last or in the middle
                    let deep = if rng.chance(1, 2) { format!("{}/ok{}/{}", parent, i, name) } else { format!("{}/ok{}/{}/leaf", parent, i, name) };
                    c.ops.push(Op::CreateStorageAll(deep));
                    c.ops.push(Op::Exists(format!("{}/ok{}", parent, i)));
                }
                if rng.chance(1, 4) {
                    c.ops.push(Op::Reopen { strict: rng.chance(1, 2) });
                    c.ops.push(Op::Entry(path));
                }
            }
            c.ops.push(Op::Walk);
        }
    }
    c
}

pub fn run(case: &Case, known: &BTreeSet<String>) -> Outcome {
    runner::run_history(case, &flags(case), known)
}
