//! C15 — released space is reused: repeating a net-zero cycle does not grow the file.

use super::{CheckDef, Tier};
use crate::case::{Case, Outcome};
use crate::gen::{self, Gen, GenCfg};
use crate::model::Model;
use crate::names::{self, NameClass};
use crate::ops::{Op, Whence};
use crate::prng::Rng;
use crate::runner::{self, Ctx, Flags};
use std::collections::BTreeSet;

pub const REPS: usize = 5;

pub fn def() -> CheckDef {
    CheckDef {
        id: "C15",
        level: "exploration",
        cases: |t| match t {
            Tier::Quick => 15_000,
            Tier::Thorough => 400_000,
        },
        gen,
        run,
        rule: "a drawn prefix history (<= 15 ops, biased to fill the mini stream / MiniFAT to whole-sector multiples: 8k mini sectors in V3, 64k in V4; every fifth case instead writes one large stream that leaves the file 0-47 sectors short of a whole number of FAT sectors' worth of sectors, so that the cycle crosses or ends on the point where the FAT is exactly full) followed by a drawn cycle body that returns the model to the same state - create/write/remove one or several streams below and above 4096 bytes, grow/shrink back, overwrite with equal size, build and remove_storage_all a subtree - repeated 5 times, optionally with a reopen between repetitions. Conservation oracle: the image length after repetitions 1, 2, 3, 4 and 5 is one number (repetition 1 may grow the file over the prefix; every repetition from the second on leaves the size unchanged). The model state hash after every repetition must be the same (net-zero premise; otherwise harness error). Non-trivial: the body contains >= 1 successful mutation; distinct = distinct (seam log, final image) hash.",
        assumptions: &["the check does not demand that the file shrinks, only that no repetition from the second on changes its size"],
        cpu_limit_s: 300,
        fault_kinds: "none (conservation invariant over the recorded history)",
        count_subruns: false,
        expect_probes: &["first_repetition_grew", "repetition_1_ends_on_a_fat_sector_boundary"],
    }
}

pub fn flags() -> Flags {
    Flags { property: "C15", track_len: true, scope: &["conservation."], ..Default::default() }
}

fn body(rng: &mut Rng, model: &Model, version: u16, nonce: &mut u32) -> Vec<Op> {
    let mut n = || {
        *nonce += 1;
        *nonce
    };
    let sector: u64 = if version == 3 { 512 } else { 4096 };
    let sizes: Vec<u64> = vec![1, 63, 64, 65, 100, 200, 1000, 4095, 4096, 5000, sector, sector * 2 + 1, 20_000];
    let mut ops = vec![];
    let streams: Vec<String> = model.all_paths().into_iter().filter(|(_, s)| *s).map(|(p, _)| crate::model::join(&p)).collect();
    match rng.below(7) {
        0 => {
            let len = *rng.pick(&sizes);
            ops.push(Op::WriteWhole { path: "/cyc".into(), len, nonce: n() });
            ops.push(Op::RemoveStream("/cyc".into()));
        }
        1 => {
            let k = rng.range(2, 6);
            for i in 0..k {
                ops.push(Op::WriteWhole { path: format!("/cyc{}", i), len: *rng.pick(&sizes), nonce: n() });
            }
            let mut order: Vec<u64> = (0..k).collect();
            rng.shuffle(&mut order);
            for i in order {
                ops.push(Op::RemoveStream(format!("/cyc{}", i)));
            }
        }
        2 if !streams.is_empty() => {
            // grow / shrink back through a handle
            let p = rng.pick(&streams).clone();
            let names = crate::model::parse_path(&p).unwrap();
            let len = model.lookup(&names).unwrap().data.len() as u64;
            let up = len + *rng.pick(&[1u64, 64, 100, 4096, 5000, 20_000]);
            ops.push(Op::HOpen { h: 0, path: p.clone() });
            ops.push(Op::HSetLen { h: 0, n: up });
            ops.push(Op::HSetLen { h: 0, n: len });
            ops.push(Op::HDrop { h: 0 });
        }
        3 if !streams.is_empty() => {
            // overwrite with equal size and equal content (net-zero needs equal bytes)
            let p = rng.pick(&streams).clone();
            let names = crate::model::parse_path(&p).unwrap();
            let len = model.lookup(&names).unwrap().data.len();
            if len > 0 {
                // shrink to zero, then rewrite the same bytes: model returns to the same state only
                // if content is the same, so re-write via a fixed nonce pattern
                ops.push(Op::WriteWhole { path: p.clone(), len: len as u64, nonce: 424242 });
            } else {
                ops.push(Op::WriteWhole { path: "/cyc".into(), len: 70, nonce: n() });
                ops.push(Op::RemoveStream("/cyc".into()));
            }
        }
        4 => {
            ops.push(Op::CreateStorageAll("/cycdir/a/b".into()));
            ops.push(Op::WriteWhole { path: "/cycdir/a/s1".into(), len: *rng.pick(&sizes), nonce: n() });
            ops.push(Op::WriteWhole { path: "/cycdir/a/b/s2".into(), len: *rng.pick(&sizes), nonce: n() });
            ops.push(Op::CreateStorage("/cycdir/c".into()));
            ops.push(Op::RemoveStorageAll("/cycdir".into()));
        }
        5 => {
            // create, append in pieces through a handle, remove
            ops.push(Op::HCreate { h: 1, path: "/cyc".into() });
            for _ in 0..rng.range(1, 4) {
                ops.push(Op::HWriteAll { h: 1, len: *rng.pick(&[10usize, 64, 100, 1000, 4096, 5000]), nonce: n() });
                ops.push(Op::HFlush { h: 1 });
            }
            ops.push(Op::HSeek { h: 1, whence: Whence::Start, off: 0, uoff: 0 });
            ops.push(Op::HDrop { h: 1 });
            ops.push(Op::RemoveStream("/cyc".into()));
        }
        _ => {
            // storages only
            let k = rng.range(1, 6);
            for i in 0..k {
                ops.push(Op::CreateStorage(format!("/cd{}", i)));
            }
            for i in 0..k {
                ops.push(Op::RemoveStorage(format!("/cd{}", i)));
            }
        }
    }
    if ops.is_empty() {
        ops.push(Op::WriteWhole { path: "/cyc".into(), len: 100, nonce: n() });
        ops.push(Op::RemoveStream("/cyc".into()));
    }
    ops
}

pub fn gen(seed: u64, idx: u64, _tier: Tier) -> Case {
    let mut rng = Rng::for_case(seed, "C15", idx);
    let version = if rng.chance(1, 2) { 3 } else { 4 };
    let mut c = Case::new("C15", "cycle", version);
    c.bufsize = *rng.pick(gen::BUFSIZES);
    let mut nonce = 5000u32;
    // prefix
    let mut prefix: Vec<Op> = vec![];
    let fat_boundary = idx % 5 == 2;
    if fat_boundary {
        // one large stream sized so that the file ends a few sectors (0..47) short of a whole
        // number of FAT sectors' worth of sectors (128k in V3, 1024 in V4): somewhere in the
        // cycle "the FAT is exactly full" coincides with "free sectors are available"
        let version = if idx % 40 == 2 { 4 } else { 3 };
        c.version = version;
        let sector: u64 = if version == 3 { 512 } else { 4096 };
        let cells: u64 = sector / 4;
        let k = if version == 3 { rng.range(1, 2) } else { 1 };
        let sectors = cells * k - rng.below(48);
        nonce += 1;
        prefix.push(Op::WriteWhole { path: "/big".into(), len: sectors * sector - rng.below(3), nonce });
        if rng.chance(1, 3) {
            nonce += 1;
            prefix.push(Op::WriteWhole { path: "/small".into(), len: rng.range(1, 200), nonce });
        }
    }
    let version = c.version;
    let sector: u64 = if version == 3 { 512 } else { 4096 };
    match if fat_boundary { 0 } else { rng.below(4) } {
        0 => {}
        1 => {
            // fill the mini stream to a whole number of sectors (+- a little)
            let per = sector / 64;
            let target = per * rng.range(1, 3) + rng.range(0, 2) - 1;
            for i in 0..target {
                nonce += 1;
                prefix.push(Op::WriteWhole { path: format!("/m{}", i), len: rng.range(1, 64), nonce });
            }
        }
        _ => {
            let cfg = GenCfg {
                max_ops: 15,
                names: names::gen_pool(&mut rng, NameClass::Ascii, 6),
                sizes: gen::draw_sizes(&mut rng, 20_000, sector),
                near_miss: 0,
                spellings: 0,
                case_variants: 0,
                weights: vec![("write_whole", 10), ("create_storage", 3), ("remove_stream", 3), ("remove_storage", 1)],
                max_objects: 20,
                max_depth: 3,
                invalid_names: false,
                protect_handles: true,
                max_stream: 20_000,
                no_remove_with_open_handles: false,
                set_len_shrink_only: false,
            };
            let n = rng.range(1, 15) as usize;
            let mut g = Gen::new(&mut rng, &cfg, Model::new(version));
            prefix = g.history(n);
        }
    }
    let mut model = Model::new(version);
    for op in &prefix {
        model.predict(op);
    }
    // make sure the cycle's own names are free
    let b = body(&mut rng, &model, version, &mut nonce);
    let reopen_between = rng.chance(1, 4);
    c.params.insert("prefix_len".into(), prefix.len() as i64);
    c.ops = prefix;
    let mut body_len = b.len();
    if reopen_between {
        body_len += 1;
    }
    c.params.insert("body_len".into(), body_len as i64);
    for _ in 0..REPS {
        c.ops.extend(b.iter().cloned());
        if reopen_between {
            c.ops.push(Op::Reopen { strict: false });
        }
    }
    c
}

pub fn run(case: &Case, known: &BTreeSet<String>) -> Outcome {
    let flags = flags();
    let mut ctx = Ctx::new(&flags, known);
    let mut w = match runner::setup(case, &flags) {
        Ok(w) => w,
        Err(e) => {
            ctx.out.harness_error = Some(e);
            return ctx.out;
        }
    };
    let prefix = case.param("prefix_len", 0) as usize;
    let body = case.param("body_len", 0) as usize;
    let n = case.ops.len();
    if body == 0 || prefix + body * REPS != n {
        // a minimised case may have lost ops: fall back to whole-history repetition detection
        runner::run_ops(&mut w, &case.ops, 0, &mut ctx);
        runner::finish(&mut w, &mut ctx);
        return ctx.out;
    }
    runner::run_ops(&mut w, &case.ops[..prefix], 0, &mut ctx);
    let mut base_hash = crate::dump::hash_dump(&w.model.dump());
    let mut lens = vec![];
    let len_before = w.lib.disk.len();
    for r in 0..REPS {
        if ctx.stop {
            break;
        }
        let end = prefix + body * (r + 1);
        runner::run_ops(&mut w, &case.ops[..end], prefix + body * r, &mut ctx);
        if ctx.stop {
            break;
        }
        let h = crate::dump::hash_dump(&w.model.dump());
        if r == 0 {
            // the first repetition may change content once (e.g. overwrite with equal size)
            base_hash = h;
        }
        if h != base_hash {
            ctx.out.harness_error = Some(format!("cycle body is not net-zero in the model (repetition {})", r + 1));
            break;
        }
        ctx.out.stats.boundary_checks += 1;
        lens.push(w.lib.disk.len());
        let sector = if case.version == 3 { 512usize } else { 4096 };
        if (w.lib.disk.len() / sector - 1) % (sector / 4) == 0 {
            ctx.out.stats.probe(if r == 0 { "repetition_1_ends_on_a_fat_sector_boundary" } else { "later_repetition_ends_on_a_fat_sector_boundary" });
        }
    }
    if !ctx.stop && ctx.out.harness_error.is_none() && lens.len() == REPS {
        if !(lens[0] == lens[1] && lens[1] == lens[2] && lens[2] == lens[3] && lens[3] == lens[4]) {
            let body_kinds: Vec<&str> = case.ops[prefix..prefix + body].iter().map(|o| o.kind()).collect();
            ctx.report(
                "conservation.file-grows",
                "cycle",
                format!("image length after repetitions 1..5 of a net-zero cycle {:?}: {:?} (prefix {} ops)", body_kinds, lens, prefix),
                n,
                true,
            );
        } else if len_before < lens[0] {
            ctx.out.stats.probe("first_repetition_grew");
        }
    }
    runner::finish(&mut w, &mut ctx);
    ctx.out
}
