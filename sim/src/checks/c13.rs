//! C13 — write failures are reported, not swallowed; a successful flush means durable.
//!
//! One case = one mutating workload + the enumeration of a fault at EVERY seam
//! call k of that workload, in every kind that matches call k.

use super::{CheckDef, Tier};
use crate::case::{Case, Outcome, Violation};
use crate::disk::{Fault, FaultKind, SimDisk};
use crate::driver::{normalise_site, Lib};
use crate::gen::{self, Gen, GenCfg};
use crate::model::Model;
use crate::ops::{Op, Res, Whence};
use crate::prng::Rng;
use std::collections::{BTreeMap, BTreeSet};

pub fn def() -> CheckDef {
    CheckDef {
        id: "C13",
        level: "fault_enumeration",
        cases: |t| match t {
            Tier::Quick => 12 * SLICES,
            Tier::Thorough => 300 * SLICES,
        },
        gen,
        run,
        rule: "one workload (its fault positions spread over 8 cases, k mod 8) = a drawn mutating workload from an empty file (create storages/streams; handle writes that stay mini, stay regular, migrate both ways; set_len; removes; setters; explicit flush on handles and on the file; <= 40 calls, V3/V4, drawn max_buffer_size). A fault-free reference run counts the N underlying seam calls; then the workload is re-run with one fault at EVERY k in 1..N in each kind applicable to call k: fail (F-WE / F-SE / F-FE / F-RE), torn write with a drawn prefix (F-WT), and disk-full from k on, healed after the first failing API call (F-DF). A failing API call is retried (<= 3 times), then the rest of the workload runs. At every 4th position of the quick tier (every position in the thorough tier) a SECOND failure is injected inside the retry of the call that failed first (at a drawn call of the retry and at its last one), so that the retry has to be retryable too. Oracles: (1) an API call during which a write/seek/flush fault fired returns Err; (2) nothing panics or exceeds its step budget; (3) whenever flush() on a handle returns Ok - first try or retry - a fresh handle on the live file AND the underlying bytes reopened (every third workload: the bytes made durable by the underlying file's own last successful flush - write-back-cache model) read back exactly the bytes whose write calls that handle accepted (read-back / reopen errors count as inconclusive). sub_runs = faulted executions. Non-trivial: a fault fired and a later handle flush returned Ok and was verified; distinct = distinct seam-log hashes. A failed read / fill_buf / seek on a handle must not move its position (rule position-moved-by-failed-call): the bytes accepted next would be stored at another offset than the caller's. At every second position the run is repeated with ErrorKind::Interrupted / a short transfer instead of a failure, at the others with disk-full signalled by writes that persistently return Ok(0). Every fourth workload GIVES UP on a create that failed (no retry, the path and everything below it never touched again) and carries on with its other objects: the bytes must still open and hold what the other handles flush.",
        assumptions: &["Drop is never relied upon to write back (excluded by the statement): the workload flushes explicitly", "after a failed set_len or failed structural call the affected stream's expected content is unknown and no longer judged (inconclusive)"],
        cpu_limit_s: 1200,
        fault_kinds: "F-WE, F-WT, F-SE, F-FE, F-RE at every k (enumerated), F-DF from every k with heal, a second failure inside the retry, F-EI / F-SR / F-SW (Interrupted, short transfer) at every second k, F-DF as persistent Ok(0) writes at the other k",
        count_subruns: true,
        expect_probes: &["flushes_verified_after_fault", "workload_seam_calls", "second_fault_inside_retry_runs"],
    }
}

/// The fault positions of one workload are spread over SLICES cases (k mod SLICES), so
/// that the enumeration of a long workload uses all workers.
pub const SLICES: u64 = 8;

pub fn gen(seed: u64, idx: u64, tier: Tier) -> Case {
    let pair_every: i64 = match tier {
        Tier::Quick => 4,
        Tier::Thorough => 1,
    };
    let slice = idx % SLICES;
    let idx = idx / SLICES;
    let mut rng = Rng::for_case(seed, "C13", idx);
    let version = if rng.chance(1, 2) { 3 } else { 4 };
    let mut c = Case::new("C13", "enumerate", version);
    c.bufsize = *rng.pick(gen::BUFSIZES);
    let max_stream = *rng.pick(&[3000u64, 6000, 9000]);
    let cfg = GenCfg {
        max_ops: 40,
        names: vec!["a".into(), "b".into(), "dir".into(), "c".into()],
        sizes: vec![0, 1, 64, 100, 1000, 4095, 4096, 5000],
        near_miss: 0,
        spellings: 0,
        case_variants: 0,
        weights: vec![
            ("create_storage", 3),
            ("write_whole", 5),
            ("remove_stream", 2),
            ("set_state_bits", 1),
            ("flush", 2),
            ("h_create_stream", 6),
            ("open_stream", 6),
            ("h_write_all", 14),
            ("h_write", 3),
            ("h_seek", 5),
            ("h_set_len", 4),
            ("h_flush", 10),
            ("h_read_full", 6),
            ("h_read", 2),
            ("h_drop", 2),
            ("h_len", 3),
        ],
        max_objects: 8,
        max_depth: 2,
        invalid_names: false,
        protect_handles: true,
        max_stream,
        no_remove_with_open_handles: true,
        set_len_shrink_only: false,
    };
    let n = rng.range(6, 26) as usize;
    // motif (every other case): patch the head of an existing stream, then READ ON through the
    // same handle (the read has to write the patch back first), then flush
    let motif = idx % 2 == 0;
    let mut pre: Vec<Op> = vec![];
    let mut model = Model::new(version);
    if idx % 4 == 1 {
        // motif of the workloads that carry on after a failed set_len: bytes appended through a
        // handle are still in its buffer when set_len (to at most the old length) is called and
        // fails; the next Ok flush owes them
        let len = *rng.pick(&[500u64, 5000, 9000]);
        pre.push(Op::WriteWhole { path: "/t".into(), len, nonce: 70 });
        pre.push(Op::HOpen { h: 3, path: "/t".into() });
        pre.push(Op::HSeek { h: 3, whence: Whence::End, off: 0, uoff: 0 });
        pre.push(Op::HWriteAll { h: 3, len: *rng.pick(&[10usize, 200, 3000]), nonce: 71 });
        pre.push(Op::HSetLen { h: 3, n: *rng.pick(&[0u64, len / 2, len]) });
        pre.push(Op::HFlush { h: 3 });
        pre.push(Op::HSeek { h: 3, whence: Whence::End, off: 0, uoff: 0 });
        pre.push(Op::HWriteAll { h: 3, len: 7, nonce: 72 });
        pre.push(Op::HFlush { h: 3 });
        pre.push(Op::HDrop { h: 3 });
        for op in &pre {
            model.predict(op);
        }
    }
    if motif {
        let len = *rng.pick(&[3000u64, 6000, 9000]);
        pre.push(Op::WriteWhole { path: "/p".into(), len, nonce: 77 });
        pre.push(Op::HOpen { h: 3, path: "/p".into() });
        pre.push(Op::HWriteAll { h: 3, len: *rng.pick(&[1usize, 25, 64, 1000]), nonce: 78 });
        pre.push(Op::HReadFull { h: 3, n: *rng.pick(&[10usize, 100, 2000]) });
        pre.push(Op::HFlush { h: 3 });
        pre.push(Op::HSeek { h: 3, whence: Whence::Start, off: 0, uoff: rng.below(len) });
        pre.push(Op::HWriteAll { h: 3, len: *rng.pick(&[7usize, 300]), nonce: 79 });
        pre.push(Op::HRead { h: 3, n: 50 });
        pre.push(Op::HFlush { h: 3 });
        // append, then leave the buffer with End-/Current-relative seeks (each has to write the
        // appended bytes back first), write there, flush
        pre.push(Op::HSeek { h: 3, whence: Whence::End, off: 0, uoff: 0 });
        pre.push(Op::HWriteAll { h: 3, len: *rng.pick(&[100usize, 1500]), nonce: 80 });
        pre.push(Op::HSeek { h: 3, whence: Whence::End, off: -(rng.range(1500, 2500) as i64), uoff: 0 });
        pre.push(Op::HLen { h: 3 });
        pre.push(Op::HWriteAll { h: 3, len: 9, nonce: 81 });
        pre.push(Op::HSeek { h: 3, whence: Whence::End, off: 0, uoff: 0 });
        pre.push(Op::HWriteAll { h: 3, len: 300, nonce: 82 });
        pre.push(Op::HSeek { h: 3, whence: Whence::Current, off: -2000, uoff: 0 });
        pre.push(Op::HWriteAll { h: 3, len: 5, nonce: 83 });
        pre.push(Op::HLen { h: 3 });
        pre.push(Op::HFlush { h: 3 });
        pre.push(Op::HDrop { h: 3 });
        for op in &pre {
            model.predict(op);
        }
    }
    // directory-growth workload (every tenth): a VERSION 4 directory grows past its first sector
    // (32 entries), which - other than in version 3 - also rewrites the header's directory-sector
    // count; streams created around and after that boundary are flushed (and so verified live and
    // from the bytes reopened)
    if idx % 10 == 3 {
        c.version = 4;
        let mut ops = vec![];
        let nsto = rng.range(24, 28);
        for i in 0..nsto {
            ops.push(Op::CreateStorage(format!("/d{}", i)));
        }
        for i in 0..(36 - nsto) {
            ops.push(Op::HCreate { h: 1, path: format!("/s{}", i) });
            ops.push(Op::HWriteAll { h: 1, len: *rng.pick(&[40usize, 100, 700]), nonce: 200 + i as u32 });
            ops.push(Op::HFlush { h: 1 });
            ops.push(Op::HDrop { h: 1 });
        }
        ops.push(Op::FlushFile);
        c.ops = ops;
        c.params.insert("torn_seed".into(), (rng.next_u64() >> 2) as i64);
        c.params.insert("slice".into(), slice as i64);
        c.params.insert("nslices".into(), SLICES as i64);
        c.params.insert("pair_every".into(), pair_every);
        return c;
    }
    // growth workload (every fifth): one handle writes a V3 stream across the first FAT-sector
    // boundary (128 sectors = 64 KB), small streams fill the MiniFAT past its first sector
    // (128 mini sectors), the big stream is cut back inside its chain and grown again - so that
    // faults land inside FAT-sector, MiniFAT-sector and directory-sector growth and inside
    // free_chain_after, each followed by the retry
    let growth = idx % 5 == 4;
    if growth {
        c.version = 3;
        let a = rng.range(30_000, 45_000) as usize;
        let mut ops = vec![
            Op::HCreate { h: 0, path: "/g".into() },
            Op::HWriteAll { h: 0, len: a, nonce: 90 },
            Op::HFlush { h: 0 },
            Op::HWriteAll { h: 0, len: 75_000 - a, nonce: 91 },
            Op::HFlush { h: 0 },
        ];
        let mut m1_len = 0usize;
        for (i, name) in ["/m1", "/m2", "/m3"].iter().enumerate() {
            ops.push(Op::HCreate { h: 1, path: name.to_string() });
            let len = rng.range(2_900, 3_900) as usize;
            if i == 0 {
                m1_len = len;
            }
            ops.push(Op::HWriteAll { h: 1, len, nonce: 92 + i as u32 });
            ops.push(Op::HFlush { h: 1 });
            ops.push(Op::HDrop { h: 1 });
        }
        ops.push(Op::HSetLen { h: 0, n: rng.range(20_000, 60_000) });
        ops.push(Op::HFlush { h: 0 });
        ops.push(Op::HSeek { h: 0, whence: Whence::End, off: 0, uoff: 0 });
        ops.push(Op::HWriteAll { h: 0, len: 9_000, nonce: 96 });
        ops.push(Op::HFlush { h: 0 });
        ops.push(Op::HOpen { h: 2, path: "/m2".into() });
        ops.push(Op::HSeek { h: 2, whence: Whence::End, off: 0, uoff: 0 });
        ops.push(Op::HWriteAll { h: 2, len: 2_000, nonce: 97 });
        ops.push(Op::HFlush { h: 2 });
        // other streams take over released sectors, the big one is cut back once more, and yet
        // another stream reuses what that released: nobody's verified bytes may change
        let len_r = rng.range(12_000, 20_000) as usize;
        ops.push(Op::HCreate { h: 1, path: "/r".into() });
        ops.push(Op::HWriteAll { h: 1, len: len_r, nonce: 98 });
        ops.push(Op::HFlush { h: 1 });
        ops.push(Op::HDrop { h: 1 });
        ops.push(Op::HDrop { h: 0 });
        ops.push(Op::HOpen { h: 0, path: "/g".into() });
        ops.push(Op::HSetLen { h: 0, n: rng.range(4_200, 15_000) });
        ops.push(Op::HFlush { h: 0 });
        ops.push(Op::HCreate { h: 1, path: "/q".into() });
        ops.push(Op::HWriteAll { h: 1, len: rng.range(12_000, 20_000) as usize, nonce: 99 });
        ops.push(Op::HFlush { h: 1 });
        ops.push(Op::HDrop { h: 1 });
        // a regular stream is removed and two new ones together take more sectors than it
        // released (so that every released sector is handed out again)
        ops.push(Op::RemoveStream("/r".into()));
        for (i, name) in ["/u", "/w"].iter().enumerate() {
            ops.push(Op::HCreate { h: 1, path: name.to_string() });
            ops.push(Op::HWriteAll { h: 1, len: len_r, nonce: 100 + i as u32 });
            ops.push(Op::HFlush { h: 1 });
            ops.push(Op::HDrop { h: 1 });
        }
        // the same for the mini stream: a small stream is removed and three new ones take over
        // its mini sectors (a mini sector that ended up on the free list twice is handed to two
        // of them; the final audit re-reads the first)
        ops.push(Op::RemoveStream("/m1".into()));
        // the first two together take exactly the mini sectors the removed stream had, so that the
        // sector freed first (handed out last) and whatever follows it on the free list go to
        // DIFFERENT streams
        let freed = (m1_len + 63) / 64;
        let xlens = [(freed / 2) * 64, (freed - freed / 2) * 64, rng.range(900, 1_900) as usize];
        for (i, name) in ["/x1", "/x2", "/x3"].iter().enumerate() {
            ops.push(Op::HCreate { h: 1, path: name.to_string() });
            ops.push(Op::HWriteAll { h: 1, len: xlens[i], nonce: 110 + i as u32 });
            ops.push(Op::HFlush { h: 1 });
            ops.push(Op::HDrop { h: 1 });
        }
        ops.push(Op::FlushFile);
        c.ops = ops;
        c.params.insert("torn_seed".into(), (rng.next_u64() >> 2) as i64);
        c.params.insert("slice".into(), slice as i64);
        c.params.insert("nslices".into(), SLICES as i64);
        c.params.insert("pair_every".into(), pair_every);
        if idx % 3 == 2 {
            c.params.insert("durable".into(), 1);
        }
        return c;
    }
    let mut g = Gen::new(&mut rng, &cfg, model);
    let mut ops = pre;
    ops.extend(g.history(n));
    // make sure every handle is flushed explicitly before the end
    for h in 0..4 {
        ops.push(Op::HFlush { h });
    }
    ops.push(Op::FlushFile);
    c.ops = ops;
    c.params.insert("torn_seed".into(), (rng.next_u64() >> 2) as i64);
    c.params.insert("slice".into(), slice as i64);
    c.params.insert("nslices".into(), SLICES as i64);
    c.params.insert("pair_every".into(), pair_every);
    if idx % 3 == 2 {
        c.params.insert("durable".into(), 1);
    }
    if idx % 4 == 1 {
        // the caller does not retry a failed set_len and carries on with the handle
        c.params.insert("set_len_carry_on".into(), 1);
    }
    if idx % 4 == 3 {
        // the caller GIVES UP on a create that failed (no retry, never touches that path or
        // anything below it again) and carries on with its other objects
        c.params.insert("give_up_creates".into(), 1);
    }
    c
}

#[derive(Clone)]
struct HState {
    path: String,
    /// expected content of the stream as this handle sees it; None = unknown
    content: Option<Vec<u8>>,
    /// second admissible content: after a set_len that FAILED and was not retried the stream
    /// has either its old or its new length (the call is not promised to be atomic)
    alt: Option<Vec<u8>>,
}

struct RunOut {
    n_events: u64,
    violation: Option<(String, String, String, usize)>,
    fired: BTreeMap<&'static str, u64>,
    verified_after_fault: u64,
    inconclusive: u64,
    trace: u64,
    /// seam-call counter at the start and at the end of the FIRST retry of a failed call
    retry_span: Option<(u64, u64)>,
    /// per op index: seam counter before / after its first attempt, and the number of
    /// underlying flush() calls among them
    spans: Vec<(u64, u64, u64)>,
    carried_on: u64,
    gave_up: u64,
}

fn is_write_class(name: &str) -> bool {
    matches!(name, "F-WE" | "F-WT" | "F-SE" | "F-FE" | "F-DF")
}

fn execute(case: &Case, plan: &[Fault], heal_after_first_failure: bool, wb_end: &BTreeMap<usize, u64>) -> RunOut {
    let disk = SimDisk::with_plan(Vec::new(), plan.to_vec());
    // every third workload: the underlying file is a write-back cache; only what was written
    // before a successful flush() of the underlying file counts as "in the compound file"
    let durable_mode = case.param("durable", 0) == 1;
    if durable_mode {
        disk.0.borrow_mut().durable = Some(Vec::new());
    }
    // failing calls that were never brought to success: after one, an unreadable image proves nothing
    let mut unrecovered = 0u64;
    let mut torn_fired = false;
    let mut drop_fault = false;
    let retry_set_len = case.param("retry_set_len", 1) == 1;
    let set_len_carry_on = case.param("set_len_carry_on", 0) == 1;
    let mut out = RunOut { n_events: 0, violation: None, fired: Default::default(), verified_after_fault: 0, inconclusive: 0, trace: 0, retry_span: None, spans: vec![(0, 0, 0); case.ops.len()], carried_on: 0, gave_up: 0 };
    crate::driver::set_clock(crate::ops::T { secs: 1_600_000_000, nanos: 0 });
    let fin = |out: &mut RunOut, disk: &SimDisk| {
        let d = disk.0.borrow();
        out.n_events = d.k;
        out.fired = d.fired.clone();
        out.trace = d.hash.finish();
    };
    // create (with retries): the creation writes the header, FAT and directory
    let mut lib: Option<Lib> = None;
    for attempt in 0..4 {
        // a retry starts from an empty file again, as a caller would
        if attempt > 0 {
            let mut d = disk.0.borrow_mut();
            d.data.clear();
            d.pos = 0;
            if heal_after_first_failure {
                d.disk_full_until = None;
            }
        }
        match Lib::create_cfg(disk.clone(), case.version, case.bufsize) {
            Ok(l) => {
                lib = Some(l);
                break;
            }
            Err(Res::Panic(p)) => {
                out.violation = Some(("panic".into(), normalise_site(&p), format!("create panicked: {}", p), 0));
                fin(&mut out, &disk);
                return out;
            }
            Err(_) => {}
        }
    }
    let mut lib = match lib {
        Some(l) => l,
        None => {
            fin(&mut out, &disk);
            return out;
        }
    };
    lib.budget_base = 400_000;
    let mut hs: Vec<Option<HState>> = vec![None, None, None, None];
    // content of streams as last established by a successful whole-stream write or a verified flush
    let mut known: BTreeMap<String, Vec<u8>> = BTreeMap::new();
    let mut reopened_at_fault_count: u64 = u64::MAX;
    // paths whose content is uncertain because a structural / whole-stream call failed
    let mut tainted: BTreeSet<String> = BTreeSet::new();
    let give_up_creates = case.param("give_up_creates", 0) == 1;
    let mut given_up: Vec<String> = vec![];
    'ops: for (i, op) in case.ops.iter().enumerate() {
        // a second handle on a stream that already has one is outside the statement
        // (minimisation can produce such scripts): skip the op
        if let Op::HOpen { path, h } | Op::HCreate { path, h } | Op::HCreateNew { path, h } = op {
            if hs.iter().enumerate().any(|(j, x)| j != *h && x.as_ref().map(|st| st.path.eq_ignore_ascii_case(path)).unwrap_or(false)) {
                continue;
            }
        }
        if let Op::WriteWhole { path, .. } | Op::RemoveStream(path) | Op::CreateStream(path) = op {
            if hs.iter().any(|x| x.as_ref().map(|st| st.path.eq_ignore_ascii_case(path)).unwrap_or(false)) {
                continue;
            }
        }
        // an object whose creation / resize / whole-stream write failed for good is in an
        // unknown state (the statement allows later calls to fail, it does not promise that a
        // failed call is atomic): like a careful caller, the workload does not touch it again
        let target: Option<&String> = match op {
            Op::HOpen { path, .. } | Op::HCreate { path, .. } | Op::HCreateNew { path, .. } | Op::WriteWhole { path, .. } | Op::RemoveStream(path) | Op::CreateStream(path) | Op::ReadWhole(path) => Some(path),
            _ => None,
        };
        if let Some(p) = target {
            if tainted.iter().any(|t| t.eq_ignore_ascii_case(p)) {
                continue;
            }
        }
        if !given_up.is_empty() {
            let j = op.to_json();
            if let Some(p) = j.get("path").and_then(|v| v.as_str()) {
                let pl = p.to_ascii_lowercase();
                if given_up.iter().any(|g| pl == *g || pl.starts_with(&format!("{}/", g))) {
                    continue;
                }
            }
        }
        // never two handles on one stream (no property covers that)
        if let Op::HOpen { h, path } | Op::HCreate { h, path } | Op::HCreateNew { h, path } = op {
            if hs.iter().enumerate().any(|(i, st)| i != *h && st.as_ref().map(|st| st.path.eq_ignore_ascii_case(path)).unwrap_or(false)) {
                continue;
            }
        }
        let mut tries = 0;
        loop {
            tries += 1;
            let h = op.handle();
            // the handle's own idea of its position, before the call
            let mut pos_before: Option<u64> = None;
            if let (Some(h), Op::HWrite { .. } | Op::HWriteAll { .. } | Op::HRead { .. } | Op::HReadFull { .. } | Op::HFillBuf { .. } | Op::HSeek { .. } | Op::HSetLen { .. }) = (h, op) {
                if lib.handles[h].is_some() {
                    if let Res::Num(p) = lib.exec(&Op::HPos { h }) {
                        pos_before = Some(p);
                    }
                }
            }
            let k_before = lib.disk.k();
            let fl_before = lib.disk.0.borrow().seam_counts[crate::disk::Seam::Flush as usize];
            let got = lib.exec(op);
            if tries == 1 {
                out.spans[i] = (k_before, lib.disk.k(), lib.disk.0.borrow().seam_counts[crate::disk::Seam::Flush as usize] - fl_before);
            }
            if tries == 2 && out.retry_span.is_none() {
                out.retry_span = Some((k_before, lib.disk.k()));
            }
            let fired = lib.disk.fired_in_call();
            if std::env::var("VERIF_DEBUG").is_ok() {
                eprintln!("step {} try {} {} -> {} fired={:?} k={}", i, tries, op.to_json(), got.brief(), fired, lib.disk.k());
            }
            let write_fault = fired.iter().any(|(_, n)| is_write_class(n));
            // a torn write leaves bytes in the file that nobody chose; if they land in an
            // allocation table the library cannot know, so the image rule stands down
            torn_fired |= fired.iter().any(|(_, n)| *n == "F-WT");
            match &got {
                Res::Panic(p) => {
                    out.violation = Some(("panic".into(), normalise_site(p), format!("step {} {} (attempt {}) panicked: {}", i, op.to_json(), tries, p), i));
                    break 'ops;
                }
                Res::Hang => {
                    out.violation = Some(("hang".into(), op.kind().into(), format!("step {} {} exceeded its step budget", i, op.to_json()), i));
                    break 'ops;
                }
                _ => {}
            }
            let is_err = got.is_err();
            // (0) a failed read()/fill_buf()/seek() leaves the handle where it was (std::io::Read:
            // "if an error is returned then it must be guaranteed that no bytes were read"): the
            // bytes a later write() accepts belong at the position the caller knows, so a cursor
            // that silently moves stores them somewhere else although flush() says Ok.  For the
            // read loop (several read() calls) the position may have advanced by what was
            // delivered before the failing call, never backwards and never beyond the request.
            if is_err && !fired.is_empty() {
                if let (Some(hh), Some(pb)) = (h, pos_before) {
                    let range: Option<(u64, u64)> = match op {
                        Op::HRead { .. } | Op::HFillBuf { .. } | Op::HSeek { .. } => Some((pb, pb)),
                        Op::HReadFull { n, .. } => Some((pb, pb + *n as u64)),
                        // set_len "does not change the current read/write position within the
                        // stream, unless the stream is truncated to before the current position";
                        // a failed one may or may not have truncated
                        Op::HSetLen { n, .. } => Some((pb.min(*n), pb)),
                        _ => None,
                    };
                    if let (Some((lo, hi)), true) = (range, lib.handles[hh].is_some()) {
                        if let Res::Num(pa) = lib.exec(&Op::HPos { h: hh }) {
                            if pa < lo || pa > hi {
                                out.violation = Some((
                                    "position-moved-by-failed-call".into(),
                                    op.kind().into(),
                                    format!("step {} {} (attempt {}) failed ({}) and the handle's position went from {} to {}: bytes written next land at the wrong offset", i, op.to_json(), tries, got.brief(), pb, pa),
                                    i,
                                ));
                                break 'ops;
                            }
                        }
                    }
                }
            }
            // (1) the call in flight when a write-class fault fired must report it
            if write_fault && !is_err && !matches!(op, Op::HDrop { .. } | Op::Reopen { .. }) {
                out.violation = Some((
                    "swallowed".into(),
                    op.kind().into(),
                    format!("step {} {} (attempt {}): fault(s) {:?} fired on the underlying file during this call, but it returned {}", i, op.to_json(), tries, fired, got.brief()),
                    i,
                ));
                break 'ops;
            }
            if is_err && heal_after_first_failure {
                lib.disk.0.borrow_mut().disk_full_until = None;
            }
            // bookkeeping of what each handle's stream must contain
            match op {
                Op::HCreate { h, path } | Op::HCreateNew { h, path } | Op::HOpen { h, path } => {
                    if !matches!(op, Op::HOpen { .. }) && !matches!(got, Res::Skipped) {
                        // (re)creating replaces whatever content was established before
                        known.remove(path);
                    }
                    if !is_err && tries > 1 && matches!(op, Op::HCreate { .. }) && matches!(got, Res::Unit) {
                        // the retried create_stream went through: it replaces whatever the failed
                        // attempt had left, the stream exists and is empty
                        tainted.remove(path);
                    }
                    if !is_err && !matches!(got, Res::Skipped) {
                        let content = if tainted.contains(path) {
                            None
                        } else if matches!(op, Op::HOpen { .. }) {
                            known.get(path).cloned()
                        } else {
                            Some(Vec::new())
                        };
                        hs[*h] = Some(HState { path: path.clone(), content, alt: None });
                    } else if is_err {
                        tainted.insert(path.clone());
                        hs[*h] = None;
                    }
                }
                Op::HWrite { h, len, nonce } | Op::HWriteAll { h, len, nonce } => {
                    if let Some(st) = hs[*h].as_ref() {
                        // what the file holds for this stream is open until a flush is verified
                        known.remove(&st.path);
                    }
                    if let Some(st) = hs[*h].as_mut() {
                        let accepted = match &got {
                            Res::Num(m) => Some(*m as usize),
                            Res::Unit => Some(*len),
                            _ => None,
                        };
                        if let (Some(m), Some(p), Some(a)) = (accepted, pos_before, st.alt.as_mut()) {
                            let p = p as usize;
                            if p > a.len() {
                                // beyond the shorter variant: only the longer one remains possible
                                st.alt = None;
                            } else {
                                if a.len() < p + m {
                                    a.resize(p + m, 0);
                                }
                                a[p..p + m].copy_from_slice(&crate::prng::pattern(*nonce, 0, m));
                            }
                        } else if accepted.is_none() {
                            st.alt = None;
                        }
                        match (accepted, pos_before, st.content.as_mut()) {
                            (Some(m), Some(p), Some(c)) => {
                                let data = crate::prng::pattern(*nonce, 0, m);
                                let p = p as usize;
                                if p > c.len() {
                                    st.content = None;
                                } else {
                                    if c.len() < p + m {
                                        c.resize(p + m, 0);
                                    }
                                    c[p..p + m].copy_from_slice(&data);
                                }
                            }
                            (None, _, _) if matches!(op, Op::HWriteAll { .. }) && is_err => {
                                // write_all may have accepted a prefix before failing: unknown
                                st.content = None;
                            }
                            _ => {}
                        }
                    }
                }
                Op::HSetLen { h, n } => {
                    if let Some(st) = hs[*h].as_ref() {
                        known.remove(&st.path);
                    }
                    // (only if the failed call left a CONSISTENT file - judged by the independent checker:
                    // a resize that failed half-way, e.g. after freeing the tail of the chain and before
                    // rewriting the entry, leaves the stream pointing at released space; nothing is
                    // promised about such an object and it is given up below like in the other workloads)
                    // Only if the failure hit the FIRST stage of set_len - writing the handle's pending
                    // bytes back - i.e. before the resize proper began: a resize that failed half-way
                    // (chain released or re-used before the entry was rewritten) may leave the stream
                    // with any content; nothing is promised about such an object and it is given up
                    // below as in the other workloads.  The end of the write-back stage (a seam index)
                    // is measured in fault-free probe runs (see run()).
                    let in_write_back = tries == 1 && fired.len() == 1 && wb_end.get(&i).map(|e| fired[0].0 <= *e).unwrap_or(false);
                    if is_err && set_len_carry_on && in_write_back && hs[*h].as_ref().map(|st| st.content.is_some() && st.alt.is_none()).unwrap_or(false) {
                        out.carried_on += 1;
                        // not retried: what the handle's writes accepted is still owed by the next
                        // Ok flush, with the old or the new length (nothing promises that a failed
                        // call is atomic); the byte-level image rules stand down for this run
                        unrecovered += 1;
                        let st = hs[*h].as_mut().unwrap();
                        let mut a = st.content.clone().unwrap();
                        a.resize(*n as usize, 0);
                        st.alt = Some(a);
                        break;
                    }
                    if is_err && (!retry_set_len || fired.is_empty() || tries >= 4) {
                        // a resize that failed for good may have left the stream half-way between
                        // the mini stream and regular sectors: give the object up
                        unrecovered += 1;
                        if let Some(st) = hs[*h].take() {
                            tainted.insert(st.path.clone());
                            let _ = lib.exec(&Op::HDrop { h: *h });
                        }
                        break;
                    } else if is_err {
                        // retried below like every other failed call
                    } else if let Some(st) = hs[*h].as_mut() {
                        if let Some(c) = st.content.as_mut() {
                            c.resize(*n as usize, 0);
                        }
                        if let Some(a) = st.alt.as_mut() {
                            a.resize(*n as usize, 0);
                        }
                    }
                }
                Op::HDrop { h } => {
                    if !fired.is_empty() {
                        // Drop ignores write-back errors (excluded from the property): whatever
                        // that handle had buffered is lost and its stream is in an unknown state
                        drop_fault = true;
                        if let Some(st) = hs[*h].as_ref() {
                            known.remove(&st.path);
                            tainted.insert(st.path.clone());
                        }
                    }
                    hs[*h] = None;
                }
                Op::HSeek { h, whence: Whence::End, off, .. } => {
                    // an End-relative seek that succeeds (first try or retry) must land at
                    // len + off, where len is what the accepted writes amount to
                    if let (Res::Num(p), Some(st)) = (&got, hs[*h].as_ref()) {
                        if let Some(c) = &st.content {
                            let want = c.len() as i128 + *off as i128;
                            if want >= 0 && want != *p as i128 {
                                out.violation = Some((
                                    "wrong-position-after-fault".into(),
                                    "h_seek".into(),
                                    format!("step {} {} (attempt {}) returned Ok({}) but the stream holds {} accepted bytes, so the target is {}", i, op.to_json(), tries, p, c.len(), want),
                                    i,
                                ));
                                break 'ops;
                            }
                        }
                    }
                }
                Op::HLen { h } => {
                    if let (Res::Num(l), Some(st)) = (&got, hs[*h].as_ref()) {
                        if let Some(c) = &st.content {
                            if *l != c.len() as u64 {
                                out.violation = Some((
                                    "wrong-len-after-fault".into(),
                                    "h_len".into(),
                                    format!("step {} {}: len() is {} but the accepted writes amount to {} bytes", i, op.to_json(), l, c.len()),
                                    i,
                                ));
                                break 'ops;
                            }
                        }
                    }
                }
                Op::WriteWhole { path, len, nonce } => {
                    if is_err {
                        tainted.insert(path.clone());
                        known.remove(path);
                    } else if matches!(got, Res::Unit) && tries > 1 {
                        // the retry went through: create_stream replaced whatever the failed
                        // attempt had left, the content is the freshly written one
                        tainted.remove(path);
                        known.insert(path.clone(), crate::prng::pattern(*nonce, 0, *len as usize));
                    } else if matches!(got, Res::Unit) && !tainted.contains(path) {
                        known.insert(path.clone(), crate::prng::pattern(*nonce, 0, *len as usize));
                    }
                }
                Op::RemoveStream(path) | Op::CreateStream(path) => {
                    known.remove(path);
                    if is_err {
                        tainted.insert(path.clone());
                    } else if matches!(got, Res::Unit) && tries > 1 && matches!(op, Op::RemoveStream(_)) {
                        // the retried removal went through: the object is gone
                        tainted.remove(path);
                    }
                }
                Op::HFlush { h } => {
                    // (3) Ok flush => read back through a fresh handle
                    if let (Res::Unit, Some(st)) = (&got, hs[*h].as_ref()) {
                        if let Some(want) = &st.content {
                            let any_fault: u64 = lib.disk.0.borrow().fired.values().sum();
                            match lib.exec(&Op::ReadWhole(st.path.clone())) {
                                Res::Bytes(b) if st.alt.as_ref() == Some(&b) => {
                                    // the failed set_len did take effect: from now on that is the content
                                    let path = st.path.clone();
                                    let st = hs[*h].as_mut().unwrap();
                                    st.content = st.alt.take();
                                    known.remove(&path);
                                    if any_fault > 0 {
                                        out.verified_after_fault += 1;
                                    }
                                }
                                Res::Bytes(b) => {
                                    if &b != want {
                                        let first = b.iter().zip(want.iter()).position(|(x, y)| x != y);
                                        out.violation = Some((
                                            "lost-after-ok-flush".into(),
                                            "h_flush".into(),
                                            format!(
                                                "step {} {} (attempt {}) returned Ok, but a fresh handle on {:?} reads {} bytes where the accepted writes amount to {} bytes (first mismatch at {:?})",
                                                i,
                                                op.to_json(),
                                                tries,
                                                st.path,
                                                b.len(),
                                                want.len(),
                                                first
                                            ),
                                            i,
                                        ));
                                        break 'ops;
                                    }
                                    if any_fault > 0 {
                                        out.verified_after_fault += 1;
                                    }
                                    known.insert(st.path.clone(), want.clone());
                                    // "... is in the compound file": the bytes alone must say the same
                                    // (checked at the first verified flush after each new fault)
                                    if any_fault == reopened_at_fault_count {
                                        break;
                                    }
                                    reopened_at_fault_count = any_fault;
                                    let bytes = if durable_mode { lib.disk.0.borrow().durable.clone().unwrap_or_default() } else { lib.disk.snapshot() };
                                    let what = if durable_mode { "the bytes made durable by the underlying file's last successful flush" } else { "the underlying bytes" };
                                    let snap = SimDisk::new(bytes);
                                    let opened = Lib::open(snap, false, case.bufsize);
                                    if opened.is_err() && unrecovered == 0 && tainted.is_empty() && !torn_fired {
                                        out.violation = Some((
                                            "image-unreadable-after-ok-flush".into(),
                                            "h_flush".into(),
                                            format!(
                                                "step {} {} (attempt {}) returned Ok and every failed call of this run was retried successfully, but {} no longer open: {}",
                                                i,
                                                op.to_json(),
                                                tries,
                                                what,
                                                opened.as_ref().err().map(|r| r.brief()).unwrap_or_default()
                                            ),
                                            i,
                                        ));
                                        break 'ops;
                                    }
                                    if let Ok(mut l2) = opened {
                                        l2.budget_base = 400_000;
                                        match l2.exec(&Op::ReadWhole(st.path.clone())) {
                                            Res::Bytes(b2) => {
                                                if &b2 != want && st.alt.as_ref() != Some(&b2) {
                                                    let first = b2.iter().zip(want.iter()).position(|(x, y)| x != y);
                                                    out.violation = Some((
                                                        "not-in-file-after-ok-flush".into(),
                                                        "h_flush".into(),
                                                        format!(
                                                            "step {} {} (attempt {}) returned Ok and the live object reads the data back, but {} reopened hold {} bytes for {:?} where the accepted writes amount to {} bytes (first mismatch at {:?})",
                                                            i,
                                                            op.to_json(),
                                                            tries,
                                                            what,
                                                            b2.len(),
                                                            st.path,
                                                            want.len(),
                                                            first
                                                        ),
                                                        i,
                                                    ));
                                                    l2.close();
                                                    break 'ops;
                                                }
                                            }
                                            Res::Err(..) if unrecovered == 0 && tainted.is_empty() && !torn_fired => {
                                                let r = l2.exec(&Op::ReadWhole(st.path.clone()));
                                                out.violation = Some((
                                                    "unreadable-in-file-after-ok-flush".into(),
                                                    "h_flush".into(),
                                                    format!(
                                                        "step {} {} (attempt {}) returned Ok, the live object reads the data back and every failed call of this run was retried successfully, but in {} reopened {:?} cannot be read: {}",
                                                        i,
                                                        op.to_json(),
                                                        tries,
                                                        what,
                                                        st.path,
                                                        r.brief()
                                                    ),
                                                    i,
                                                ));
                                                l2.close();
                                                break 'ops;
                                            }
                                            _ => out.inconclusive += 1,
                                        }
                                        l2.close();
                                    } else {
                                        out.inconclusive += 1;
                                    }
                                }
                                Res::Panic(p) => {
                                    out.violation = Some(("panic".into(), normalise_site(&p), format!("read-back after step {} panicked: {}", i, p), i));
                                    break 'ops;
                                }
                                _ => out.inconclusive += 1,
                            }
                        }
                    }
                }
                _ => {}
            }
            if is_err && give_up_creates && tries == 1 && !fired.is_empty() {
                let p = match op {
                    Op::CreateStorage(p) | Op::CreateStream(p) => Some(p),
                    Op::HCreate { path, .. } | Op::HCreateNew { path, .. } => Some(path),
                    _ => None,
                };
                if let Some(p) = p {
                    // not retried, not touched again: the failed create may have left anything
                    // in its own slot, but the FILE stays usable - what other handles flush
                    // afterwards is owed as always, and the bytes still have to open
                    tainted.remove(p);
                    known.remove(p);
                    given_up.push(p.to_ascii_lowercase());
                    out.gave_up += 1;
                    break;
                }
            }
            if is_err && tries < 4 && !fired.is_empty() {
                continue; // retry the failed call
            }
            if is_err && (tries > 1 || !fired.is_empty()) {
                unrecovered += 1;
            }
            if is_err {
                // failed for good (or a set_len failed at all): give the object up
                if let (Some(h), Op::HWrite { .. } | Op::HWriteAll { .. } | Op::HSetLen { .. } | Op::HFlush { .. }) = (op.handle(), op) {
                    if let Some(st) = hs[h].take() {
                        known.remove(&st.path);
                        tainted.insert(st.path.clone());
                        let _ = lib.exec(&Op::HDrop { h });
                    }
                }
            }
            break;
        }
    }
    // final audit: a stream whose content was verified after an Ok flush (or established by a
    // whole-stream write) and that no call has touched since must still read back the same -
    // whatever happened to OTHER objects in between (a read that fails is inconclusive)
    // Only in runs where that proves something: every failed call was retried to success, no
    // object was given up, no failure was swallowed by a Drop (excluded by the property). After an
    // unrecovered failure an object may be left half-migrated, and the unchanged library then lets
    // later calls on it overwrite sectors that were handed to other streams - "later calls may
    // fail" is all the property says about that state, so it is not judged.
    if out.violation.is_none() && unrecovered == 0 && tainted.is_empty() && !drop_fault {
        let live: Vec<String> = hs.iter().flatten().map(|st| st.path.clone()).collect();
        for (path, want) in known.iter() {
            if tainted.iter().any(|t| t.eq_ignore_ascii_case(path)) || live.iter().any(|l| l.eq_ignore_ascii_case(path)) {
                continue;
            }
            match lib.exec(&Op::ReadWhole(path.clone())) {
                Res::Bytes(b) => {
                    if &b != want {
                        let first = b.iter().zip(want.iter()).position(|(x, y)| x != y);
                        out.violation = Some((
                            "verified-content-changed".into(),
                            "audit".into(),
                            format!(
                                "at the end of the run {:?} reads {} bytes, but {} bytes were verified after an Ok flush and no call has touched that stream since (first mismatch at {:?})",
                                path,
                                b.len(),
                                want.len(),
                                first
                            ),
                            case.ops.len(),
                        ));
                        break;
                    }
                }
                Res::Panic(p) => {
                    out.violation = Some(("panic".into(), normalise_site(&p), format!("final read-back of {:?} panicked: {}", path, p), case.ops.len()));
                    break;
                }
                _ => out.inconclusive += 1,
            }
        }
    }
    // ... and the same from the BYTES: everything verified and untouched must be in the compound
    // file as it stands at the end (the per-flush reopen above looks only at the first verified
    // flush after each fault; objects created LATER on top of a structure that a retried call left
    // wrong in the file only - e.g. a directory sector linked twice - are seen here)
    let any_fault: u64 = lib.disk.0.borrow().fired.values().sum();
    if out.violation.is_none() && unrecovered == 0 && tainted.is_empty() && !drop_fault && !torn_fired && any_fault > 0 && !known.is_empty() {
        let live: Vec<String> = hs.iter().flatten().map(|st| st.path.clone()).collect();
        let bytes = if durable_mode { lib.disk.0.borrow().durable.clone().unwrap_or_default() } else { lib.disk.snapshot() };
        let what = if durable_mode { "the bytes made durable by the underlying file's last successful flush" } else { "the underlying bytes" };
        match Lib::open(SimDisk::new(bytes), false, case.bufsize) {
            Err(r) => {
                out.violation = Some((
                    "image-unreadable-at-end".into(),
                    "audit".into(),
                    format!("every failed call of this run was retried successfully and every flush returned Ok, but at the end {} no longer open: {}", what, r.brief()),
                    case.ops.len(),
                ));
            }
            Ok(mut l2) => {
                l2.budget_base = 400_000;
                for (path, want) in known.iter() {
                    if live.iter().any(|l| l.eq_ignore_ascii_case(path)) {
                        continue;
                    }
                    match l2.exec(&Op::ReadWhole(path.clone())) {
                        Res::Bytes(b) if &b == want => {}
                        Res::Bytes(b) => {
                            let first = b.iter().zip(want.iter()).position(|(x, y)| x != y);
                            out.violation = Some((
                                "not-in-file-at-end".into(),
                                "audit".into(),
                                format!("{:?} was verified after an Ok flush and not touched since, the live object still reads it back, but {} reopened at the end hold {} bytes for it instead of {} (first mismatch at {:?})", path, what, b.len(), want.len(), first),
                                case.ops.len(),
                            ));
                            break;
                        }
                        Res::Err(..) => {
                            let r = l2.exec(&Op::ReadWhole(path.clone()));
                            out.violation = Some((
                                "unreadable-in-file-at-end".into(),
                                "audit".into(),
                                format!("{:?} was verified after an Ok flush and not touched since, the live object still reads it back and every failed call was retried successfully, but in {} reopened at the end it cannot be read: {}", path, what, r.brief()),
                                case.ops.len(),
                            ));
                            break;
                        }
                        _ => out.inconclusive += 1,
                    }
                }
                l2.close();
            }
        }
    }
    lib.close();
    fin(&mut out, &disk);
    out
}

pub fn run(case: &Case, _known: &BTreeSet<String>) -> Outcome {
    let mut o = Outcome::default();
    let viol = |o: &mut Outcome, v: (String, String, String, usize), plan: &[Fault], heal: bool| {
        let mut rc = case.clone();
        rc.faults = plan.to_vec();
        rc.params.insert("heal".into(), heal as i64);
        o.replay_case = Some(rc);
        o.violations.push(Violation { property: "C13".into(), rule: v.0, site: v.1, msg: format!("faults {:?}: {}", plan, v.2), step: v.3 });
    };
    let none: BTreeMap<usize, u64> = BTreeMap::new();
    let r0 = execute(case, &[], false, &none);
    o.stats.sub_runs += 1;
    o.stats.seam_events += r0.n_events;
    if r0.violation.is_some() {
        // fault-free divergence: other properties' business
        o.stats.probe("fault_free_run_diverged(other property)");
        return o;
    }
    let n = r0.n_events;
    // workloads that carry on after a failed set_len: where does the write-back stage of each
    // set_len end?  One fault-free probe run per set_len, with an explicit flush() on the same
    // handle inserted in front of it: the seam calls of that flush, minus the underlying file's
    // flush() itself, are exactly the write-back the set_len would have begun with.
    let mut wb_end: BTreeMap<usize, u64> = BTreeMap::new();
    if case.param("set_len_carry_on", 0) == 1 {
        for (i, op) in case.ops.iter().enumerate() {
            if let Op::HSetLen { h, .. } = op {
                let mut probe = case.clone();
                probe.ops.insert(i, Op::HFlush { h: *h });
                let rp = execute(&probe, &[], false, &none);
                o.stats.sub_runs += 1;
                if rp.violation.is_none() && rp.spans.len() > i && r0.spans[i].1 > r0.spans[i].0 {
                    let (a, b, fl) = rp.spans[i];
                    if a == r0.spans[i].0 {
                        wb_end.insert(i, a + (b - a).saturating_sub(fl));
                    }
                }
            }
        }
    }
    let mut traces: BTreeSet<u64> = BTreeSet::new();
    let mut verified = 0u64;
    let mut carried_on = 0u64;
    let mut gave_up = 0u64;
    let last_span: std::cell::Cell<Option<(u64, u64)>> = std::cell::Cell::new(None);
    let mut pair_runs = 0u64;
    let mut run_plan = |o: &mut Outcome, plan: Vec<Fault>, heal: bool| -> bool {
        let r = execute(case, &plan, heal, &wb_end);
        carried_on += r.carried_on;
        gave_up += r.gave_up;
        last_span.set(r.retry_span);
        o.stats.sub_runs += 1;
        o.stats.seam_events += r.n_events;
        o.stats.api_calls += case.ops.len() as u64;
        o.stats.boundary_checks += 1;
        o.stats.inconclusive += r.inconclusive;
        o.stats.absorb_fired(&r.fired);
        traces.insert(r.trace);
        verified += r.verified_after_fault;
        if let Some(v) = r.violation {
            viol(o, v, &plan, heal);
            return false;
        }
        true
    };
    if !case.faults.is_empty() {
        run_plan(&mut o, case.faults.clone(), case.param("heal", 0) == 1);
    } else {
        let mut rng = Rng::new(case.param("torn_seed", 1) as u64);
        let (slice, nslices) = (case.param("slice", 0) as u64, case.param("nslices", 1).max(1) as u64);
        let pair_every = case.param("pair_every", 0).max(0) as u64;
        'enumerate: for k in 1..=n {
            let keep = rng.below(64) as usize;
            if k % nslices != slice {
                continue;
            }
            // the plain failure: ErrorKind::Other at every other position of the slice, one of
            // eight other kinds (UnexpectedEof ... WriteZero) at the positions in between -
            // nothing in the property depends on the kind, so nothing in the library may
            let j = k / nslices;
            let kind = if j % 2 == 0 { FaultKind::Fail } else { FaultKind::FailAs { flavour: 1 + ((j / 2) % 8) as u8 } };
            if !run_plan(&mut o, vec![Fault { k, kind: kind.clone() }], false) {
                break 'enumerate;
            }
            // a SECOND failure inside the retry of the call that failed first (positions: a drawn
            // call of the retry, and its last one): the retry must be retryable too
            if pair_every > 0 && j % pair_every == 0 {
                if let Some((a, b)) = last_span.get() {
                    if b > a {
                        let mut r2 = Rng::new(crate::prng::mix(case.param("torn_seed", 1) as u64 ^ k));
                        let mut k2s = vec![a + 1 + r2.below(b - a)];
                        if !k2s.contains(&b) && j % (2 * pair_every) == 0 {
                            k2s.push(b);
                        }
                        for k2 in k2s {
                            pair_runs += 1;
                            if !run_plan(&mut o, vec![Fault { k, kind: kind.clone() }, Fault { k: k2, kind: FaultKind::Fail }], false) {
                                break 'enumerate;
                            }
                        }
                    }
                }
            }
            if !run_plan(&mut o, vec![Fault { k, kind: FaultKind::Torn { keep } }], false) {
                break 'enumerate;
            }
            // a transfer that is legal but unusual: Interrupted (std's write_all / read_exact and
            // the library's own loops retry it INSIDE the call, on the same in-memory objects) or
            // a short count; the call normally returns Ok and everything it accepted is owed
            if j % 2 == 0 {
                let benign = if j % 4 == 0 { FaultKind::Eintr } else { FaultKind::Short { n: 1 + keep } };
                if !run_plan(&mut o, vec![Fault { k, kind: benign }], false) {
                    break 'enumerate;
                }
            }
            if !run_plan(&mut o, vec![Fault { k, kind: FaultKind::DiskFull { heal: 0 } }], true) {
                break 'enumerate;
            }
            // the other legal way to say "no room": writes return Ok(0), persistently, until healed
            if j % 2 == 1 && !run_plan(&mut o, vec![Fault { k, kind: FaultKind::DiskFullZero { heal: 0 } }], true) {
                break 'enumerate;
            }
        }
    }
    o.stats.state_hashes = traces.iter().copied().collect();
    o.stats.trace_hash = traces.iter().fold(r0.trace, |a, b| a ^ crate::prng::mix(*b));
    o.stats.ok_mutations = 1;
    o.stats.nontrivial = verified > 0;
    o.stats.probe_n("flushes_verified_after_fault", verified);
    o.stats.probe_n("workload_seam_calls", n);
    o.stats.probe_n("second_fault_inside_retry_runs", pair_runs);
    if case.param("set_len_carry_on", 0) == 1 {
        o.stats.probe_n("carried_on_after_failed_set_len", carried_on);
    }
    if case.param("give_up_creates", 0) == 1 {
        o.stats.probe_n("gave_up_on_a_failed_create", gave_up);
    }
    let _ = Whence::Start;
    o
}
