//! C17 — metadata set through the API is returned exactly and survives reopening.

use super::common::{self, Knobs, DEFAULT_KNOBS};
use super::{CheckDef, Tier};
use crate::case::{Case, Outcome};
use crate::gen;
use crate::ops::Op;
use crate::prng::Rng;
use crate::runner::{self, Flags};
use std::collections::BTreeSet;

pub fn def() -> CheckDef {
    CheckDef {
        id: "C17",
        level: "exploration",
        cases: |t| match t {
            Tier::Quick => 40_000,
            Tier::Thorough => 800_000,
        },
        gen,
        run,
        rule: "(every fifth case runs in 'setter-retry' mode: each setter call first meets one transient failure of the underlying file, is retried, and the value must then survive reopening like any other) seeded histories (<= 30 ops) of structure ops plus all setters with drawn values: CLSIDs (nil, all-ones, random), state words (0, 1, 0x80000000, u32::MAX, random), times before 1601, at 1601 +- 1 tick, before 1970, +-1..99 ns, exactly u64::MAX ticks and beyond; objects in every directory sector; the simulated clock (cfb_verif hook) is set to drawn instants - including before 1601, beyond year 60056 and jumping backwards - before create_storage and touch. Oracle: an independent i128 conversion (truncate toward 1970, clamp to 0..=u64::MAX ticks); entries and listings return exactly that immediately, in the full dump, and after reopen in both modes; streams report nil/zero; a new storage's times equal the sim-clock reading. Non-trivial: >= 1 successful setter or clocked creation; distinct = distinct (seam log, final image) hash.",
        assumptions: &["the sim clock is read through the cfg(cfb_verif) hook in Timestamp::now / CompoundFile::touch; with no override the real clock would be read"],
        cpu_limit_s: 300,
        fault_kinds: "F-CK clock jumps / skew (set_clock ops); every fifth case: one transient write/seek failure inside each setter call, followed by a retry",
        count_subruns: false,
        expect_probes: &["dir_sectors>=2"],
    }
}

pub fn flags() -> Flags {
    Flags {
        property: "C17",
        final_check: true,
        imgck_each: true,
        imgck_dump: true,
        // metadata as returned, as stored and as it survives reopening; structural damage of the
        // image and failing reopens are C03 / C02's business
        scope: &["model.entry", "model.result@set_", "model.result@touch", "model.result", "model.listing", "dump.differs", "imgck.dump", "imgck.R7", "reopen.permissive-differs", "reopen.strict-differs"],
        ..Default::default()
    }
}

pub fn gen(seed: u64, idx: u64, _tier: Tier) -> Case {
    let mut rng = Rng::for_case(seed, "C17", idx);
    let k = Knobs { max_ops: 30, near_miss: &[0, 10, 25], ..DEFAULT_KNOBS };
    let mut w = common::join_weights(
        vec![("create_storage", 10), ("create_storage_all", 3), ("write_whole", 6), ("remove_storage", 2), ("remove_stream", 2), ("entry", 6), ("read_storage", 3), ("walk", 2), ("root_entry", 2), ("reopen", 3)],
        gen::meta_weights(),
    );
    for e in w.iter_mut() {
        if e.0.starts_with("set_") || e.0 == "touch" {
            e.1 *= 3;
        }
    }
    let mut c = common::standard_case("C17", "metadata", &mut rng, &k, w);
    if idx % 5 == 4 {
        c.mode = "setter-retry".into();
        c.params.insert("fault_seed".into(), (rng.next_u64() >> 2) as i64);
    }
    c
}

/// 'setter-retry' mode: every setter call first meets one transient failure of the underlying
/// file (at a drawn seam call inside it), is retried, and must then be as durable as any other:
/// the value set must be returned immediately and after reopening.
fn run_setter_retry(case: &Case, known: &BTreeSet<String>) -> Outcome {
    use crate::disk::{Fault, FaultKind};
    use crate::runner::Ctx;
    let flags = flags();
    let mut ctx = Ctx::new(&flags, known);
    let mut w = match runner::setup(case, &flags) {
        Ok(w) => w,
        Err(e) => {
            ctx.out.harness_error = Some(e);
            return ctx.out;
        }
    };
    for (i, op) in case.ops.iter().enumerate() {
        if ctx.stop {
            break;
        }
        let setter = matches!(op, Op::SetStateBits(..) | Op::SetClsid(..) | Op::SetCreated(..) | Op::SetModified(..) | Op::Touch(_));
        if !setter {
            runner::run_ops(&mut w, &case.ops[..=i], i, &mut ctx);
            continue;
        }
        let d = 1 + crate::prng::mix(case.param("fault_seed", 1) as u64 ^ i as u64) % 48;
        let k = w.lib.disk.k() + d;
        w.lib.disk.0.borrow_mut().plan.push(Fault { k, kind: FaultKind::Fail });
        crate::driver::set_clock(w.model.clock);
        let mut got = w.lib.exec(op);
        let fired = !w.lib.disk.fired_in_call().is_empty();
        if fired {
            *ctx.out.stats.faults_fired.entry("F-WE/F-SE(transient, in setter)".into()).or_insert(0) += 1;
        }
        if got.is_err() && fired {
            got = w.lib.exec(op); // the retry
            if got.is_err() {
                // later calls may fail after a fault: nothing to judge any more
                ctx.out.stats.inconclusive += 1;
                ctx.stop = true;
                break;
            }
        }
        w.lib.disk.0.borrow_mut().plan.clear();
        ctx.out.stats.api_calls += 1;
        if let Err(m) = w.model.step(op, &got) {
            ctx.report(&m.rule, op.kind(), format!("step {}: {}", i, m.msg), i, true);
            break;
        }
        if !got.is_err() {
            ctx.out.stats.ok_mutations += 1;
        }
    }
    runner::final_checks(&mut w, &mut ctx, case.ops.len());
    runner::finish(&mut w, &mut ctx);
    ctx.out
}

pub fn run(case: &Case, known: &BTreeSet<String>) -> Outcome {
    let mut o = if case.mode == "setter-retry" { run_setter_retry(case, known) } else { runner::run_history(case, &flags(), known) };
    let mut span: (u64, u64) = (u64::MAX, 0);
    for op in &case.ops {
        if let Op::SetClock(t) = op {
            let x = t.ticks();
            span = (span.0.min(x), span.1.max(x));
            *o.stats.faults_fired.entry("F-CK".into()).or_insert(0) += 1;
        }
    }
    if span.1 >= span.0 {
        o.stats.clock_span_ticks = span.1 - span.0;
    }
    let setters = o.stats.op_outcomes.iter().filter(|(k, _)| (k.starts_with("set_") || k.starts_with("touch") || k.starts_with("create_storage")) && k.ends_with(":ok")).count();
    o.stats.nontrivial = o.stats.nontrivial && setters > 0;
    o
}
