//! C17 — metadata set through the API is returned exactly and survives reopening.

use super::common::{self, Knobs, DEFAULT_KNOBS};
use super::{CheckDef, Tier};
use crate::case::{Case, Outcome};
use crate::gen;
use crate::ops::Op;
use crate::prng::Rng;
use crate::runner::{self, Flags};
use std::collections::BTreeSet;

pub fn def() -> CheckDef {
    CheckDef {
        id: "C17",
        level: "exploration",
        cases: |t| match t {
            Tier::Quick => 40_000,
            Tier::Thorough => 800_000,
        },
        gen,
        run,
        rule: "seeded histories (<= 30 ops) of structure ops plus all setters with drawn values: CLSIDs (nil, all-ones, random), state words (0, 1, 0x80000000, u32::MAX, random), times before 1601, at 1601 +- 1 tick, before 1970, +-1..99 ns, exactly u64::MAX ticks and beyond; objects in every directory sector; the simulated clock (cfb_verif hook) is set to drawn instants - including before 1601, beyond year 60056 and jumping backwards - before create_storage and touch. Oracle: an independent i128 conversion (truncate toward 1970, clamp to 0..=u64::MAX ticks); entries and listings return exactly that immediately, in the full dump, and after reopen in both modes; streams report nil/zero; a new storage's times equal the sim-clock reading. Non-trivial: >= 1 successful setter or clocked creation; distinct = distinct (seam log, final image) hash.",
        assumptions: &["the sim clock is read through the cfg(cfb_verif) hook in Timestamp::now / CompoundFile::touch; with no override the real clock would be read"],
        cpu_limit_s: 30,
        fault_kinds: "F-CK clock jumps / skew (set_clock ops)",
        count_subruns: false,
        expect_probes: &["dir_sectors>=2"],
    }
}

pub fn flags() -> Flags {
    Flags { property: "C17", final_check: true, imgck_each: true, imgck_dump: true, ..Default::default() }
}

pub fn gen(seed: u64, idx: u64, _tier: Tier) -> Case {
    let mut rng = Rng::for_case(seed, "C17", idx);
    let k = Knobs { max_ops: 30, near_miss: &[0, 10, 25], ..DEFAULT_KNOBS };
    let mut w = common::join_weights(
        vec![("create_storage", 10), ("create_storage_all", 3), ("write_whole", 6), ("remove_storage", 2), ("remove_stream", 2), ("entry", 6), ("read_storage", 3), ("walk", 2), ("root_entry", 2), ("reopen", 3)],
        gen::meta_weights(),
    );
    for e in w.iter_mut() {
        if e.0.starts_with("set_") || e.0 == "touch" {
            e.1 *= 3;
        }
    }
    common::standard_case("C17", "metadata", &mut rng, &k, w)
}

pub fn run(case: &Case, known: &BTreeSet<String>) -> Outcome {
    let mut o = runner::run_history(case, &flags(), known);
    let mut span: (u64, u64) = (u64::MAX, 0);
    for op in &case.ops {
        if let Op::SetClock(t) = op {
            let x = t.ticks();
            span = (span.0.min(x), span.1.max(x));
            *o.stats.faults_fired.entry("F-CK".into()).or_insert(0) += 1;
        }
    }
    if span.1 >= span.0 {
        o.stats.clock_span_ticks = span.1 - span.0;
    }
    let setters = o.stats.op_outcomes.iter().filter(|(k, _)| (k.starts_with("set_") || k.starts_with("touch") || k.starts_with("create_storage")) && k.ends_with(":ok")).count();
    o.stats.nontrivial = o.stats.nontrivial && setters > 0;
    o
}
