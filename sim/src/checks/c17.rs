//! C17 — metadata set through the API is returned exactly and survives reopening.

use super::common::{self, Knobs, DEFAULT_KNOBS};
use super::{CheckDef, Tier};
use crate::case::{Case, Outcome};
use crate::gen;
use crate::ops::Op;
use crate::prng::Rng;
use crate::runner::{self, Flags};
use std::collections::BTreeSet;

pub fn def() -> CheckDef {
    CheckDef {
        id: "C17",
        level: "exploration",
        cases: |t| match t {
            Tier::Quick => 40_000,
            Tier::Thorough => 800_000,
        },
        gen,
        run,
        rule: "(one case in 40 is a crash-reuse case: a small file whose objects all carry state bits / CLSIDs / times, a removal cut short by a crash at up to 64 evenly spread seam calls, each crash image that open accepts reopened and six new objects created into the free slots: every new object reports zero state bits and a nil CLSID, every new stream zero times, immediately and after reopening) (every fifth case runs in 'setter-retry' mode: each setter call first meets one transient failure of the underlying file, is retried, and the value must then survive reopening like any other) seeded histories (<= 30 ops) of structure ops plus all setters with drawn values: CLSIDs (nil, all-ones, random), state words (0, 1, 0x80000000, u32::MAX, random), times before 1601, at 1601 +- 1 tick, before 1970, +-1..99 ns, exactly u64::MAX ticks and beyond; objects in every directory sector; the simulated clock (cfb_verif hook) is set to drawn instants - including before 1601, beyond year 60056 and jumping backwards - before create_storage and touch. Oracle: an independent i128 conversion (truncate toward 1970, clamp to 0..=u64::MAX ticks); entries and listings return exactly that immediately, in the full dump, and after reopen in both modes; streams report nil/zero; a new storage's times equal the sim-clock reading. Non-trivial: >= 1 successful setter or clocked creation; distinct = distinct (seam log, final image) hash.",
        assumptions: &["the sim clock is read through the cfg(cfb_verif) hook in Timestamp::now / CompoundFile::touch; with no override the real clock would be read"],
        cpu_limit_s: 300,
        fault_kinds: "one case in 40: F-CR inside a removal (crash images reopened, slots reused); F-CK clock jumps / skew (set_clock ops); every fifth case: one transient write/seek failure inside each setter call, followed by a retry",
        count_subruns: false,
        expect_probes: &["dir_sectors>=2"],
    }
}

pub fn flags() -> Flags {
    Flags {
        property: "C17",
        final_check: true,
        imgck_each: true,
        imgck_dump: true,
        // metadata as returned, as stored and as it survives reopening; structural damage of the
        // image and failing reopens are C03 / C02's business
        scope: &["model.entry", "model.result@set_", "model.result@touch", "model.result", "model.listing", "dump.differs", "imgck.dump", "imgck.R7", "reopen.permissive-differs", "reopen.strict-differs"],
        ..Default::default()
    }
}

/// "Streams always report a nil CLSID and zero timestamps" and "metadata ... returned exactly"
/// (an object whose metadata was never set reports the blank values) - at any point of a history,
/// and a history may have ended in a crash: one case = a small file whose objects all carry
/// state bits, CLSIDs and times, a removal cut short by a crash (F-CR) at up to 64 evenly spread
/// seam calls, each accepted crash image reopened, and new objects created into the free slots.
fn gen_crash_reuse(rng: &mut Rng) -> Case {
    use crate::ops::T;
    let version = if rng.chance(1, 2) { 3 } else { 4 };
    let mut c = Case::new("C17", "crash-reuse", version);
    c.bufsize = *rng.pick(gen::BUFSIZES);
    let n = rng.range(1, 5);
    let mut kinds = vec![];
    for i in 0..n {
        let stream = rng.chance(1, 2);
        kinds.push(stream);
        let p = format!("/o{}", i);
        if stream {
            c.ops.push(Op::WriteWhole { path: p.clone(), len: *rng.pick(&[0u64, 40, 5000]), nonce: 40 + i as u32 });
        } else {
            c.ops.push(Op::CreateStorage(p.clone()));
            let mut id = [0u8; 16];
            for b in id.iter_mut() {
                *b = 1 + rng.below(255) as u8;
            }
            c.ops.push(Op::SetClsid(p.clone(), id));
            c.ops.push(Op::SetCreated(p.clone(), T { secs: 1_000_000_000 + rng.below(1000) as i64, nanos: 100 }));
            c.ops.push(Op::SetModified(p.clone(), T { secs: 1_200_000_000 + rng.below(1000) as i64, nanos: 700 }));
        }
        c.ops.push(Op::SetStateBits(p, 0x8000_0001 | rng.next_u64() as u32));
    }
    c.params.insert("build_len".into(), c.ops.len() as i64);
    let v = rng.below(n) as usize;
    c.ops.push(if kinds[v] { Op::RemoveStream(format!("/o{}", v)) } else { Op::RemoveStorage(format!("/o{}", v)) });
    c
}

fn run_crash_reuse(case: &Case) -> Outcome {
    use crate::case::Violation;
    use crate::disk::{Fault, FaultKind, SimDisk};
    use crate::driver::Lib;
    use crate::ops::Res;
    let mut o = Outcome::default();
    let build_len = (case.param("build_len", 0) as usize).min(case.ops.len());
    crate::driver::set_clock(crate::ops::T { secs: 1_600_000_000, nanos: 0 });
    let base: Vec<u8> = {
        let disk = SimDisk::new(Vec::new());
        let mut lib = match Lib::create_cfg(disk.clone(), case.version, case.bufsize) {
            Ok(l) => l,
            Err(_) => return o,
        };
        for op in case.ops[..build_len].iter() {
            if matches!(lib.exec(op), Res::Panic(_) | Res::Hang) {
                o.stats.probe("base_unusable(other property)");
                return o;
            }
        }
        lib.close();
        disk.snapshot()
    };
    let exec = |crash_at: u64| -> Option<(Vec<u8>, u64)> {
        let disk = SimDisk::new(base.clone());
        let mut lib = Lib::open(disk.clone(), false, case.bufsize).ok()?;
        let k0 = disk.k();
        if crash_at != 0 {
            disk.0.borrow_mut().plan = vec![Fault { k: k0 + crash_at, kind: FaultKind::Crash }];
        }
        for op in case.ops[build_len..].iter() {
            if matches!(lib.exec(op), Res::Panic(_) | Res::Hang) {
                disk.0.borrow_mut().plan = vec![Fault { k: 1, kind: FaultKind::Crash }];
                disk.0.borrow_mut().crashed = true;
                lib.close();
                return None;
            }
        }
        let span = disk.k() - k0;
        let img = disk.snapshot();
        disk.0.borrow_mut().plan = vec![Fault { k: 1, kind: FaultKind::Crash }];
        disk.0.borrow_mut().crashed = true;
        lib.close();
        Some((img, span))
    };
    let span = match exec(0) {
        Some((_, s)) => s,
        None => return o,
    };
    let only = case.param("only_k", -1);
    let stride = (span / 64).max(1);
    let mut hashes: BTreeSet<u64> = BTreeSet::new();
    let blank = |e: &crate::ops::EntryInfo| -> Option<String> {
        let m = &e.meta;
        if m.state_bits != 0 {
            return Some(format!("state bits {:#x}", m.state_bits));
        }
        if m.clsid != [0u8; 16] {
            return Some(format!("CLSID {:02x?}", m.clsid));
        }
        if e.is_stream && (m.created != 0 || m.modified != 0) {
            return Some(format!("times {} / {}", m.created, m.modified));
        }
        None
    };
    'all: for k in 1..=span {
        if only >= 0 && only as u64 != k {
            continue;
        }
        if only < 0 && (k - 1) % stride != 0 {
            continue;
        }
        let img = match exec(k) {
            Some((img, _)) => img,
            None => continue,
        };
        o.stats.sub_runs += 1;
        *o.stats.faults_fired.entry("F-CR".into()).or_insert(0) += 1;
        hashes.insert(crate::prng::fnv(&img));
        let mut lib = match Lib::open(SimDisk::new(img), false, case.bufsize) {
            Ok(l) => l,
            Err(_) => {
                o.stats.probe("crash_image_rejected_by_open");
                continue;
            }
        };
        o.stats.probe("crash_image_accepted");
        // enough new objects to take every free slot of the directory sector
        let mut made: Vec<String> = vec![];
        for i in 0..6 {
            let p = format!("/fresh{}", i);
            let op = if i % 2 == 0 { Op::CreateStream(p.clone()) } else { Op::CreateStorage(p.clone()) };
            match lib.exec(&op) {
                Res::Panic(_) | Res::Hang => {
                    // a crash image is a damaged file: C11's business
                    lib.crash();
                    continue 'all;
                }
                r if r.is_err() => continue,
                _ => made.push(p),
            }
        }
        for pass in 0..2 {
            if pass == 1 {
                let snap = lib.disk.snapshot();
                lib.close();
                lib = match Lib::open(SimDisk::new(snap), false, case.bufsize) {
                    Ok(l) => l,
                    Err(_) => continue 'all,
                };
            }
            for p in &made {
                if let Res::Entry(e) = lib.exec(&Op::Entry(p.clone())) {
                    o.stats.boundary_checks += 1;
                    o.stats.ok_mutations += 1;
                    if let Some(what) = blank(&e) {
                        let mut rc = case.clone();
                        rc.params.insert("only_k".into(), k as i64);
                        o.replay_case = Some(rc);
                        o.violations.push(Violation {
                            property: "C17".into(),
                            rule: "fresh-object-not-blank".into(),
                            site: "crash-reuse".into(),
                            msg: format!("crash at seam call {} of {}, bytes reopened, {:?} created: its entry reports {} although nothing was ever set on it ({})", k, case.ops.last().map(|x| x.to_json().to_string()).unwrap_or_default(), p, what, if pass == 0 { "same session" } else { "after reopening" }),
                            step: 0,
                        });
                        break 'all;
                    }
                }
            }
        }
        lib.close();
    }
    o.stats.state_hashes = hashes.iter().copied().collect();
    o.stats.trace_hash = hashes.iter().fold(5, |a, b| a ^ crate::prng::mix(*b));
    o.stats.nontrivial = o.stats.ok_mutations > 0;
    o
}

pub fn gen(seed: u64, idx: u64, _tier: Tier) -> Case {
    let mut rng = Rng::for_case(seed, "C17", idx);
    if idx % 40 == 17 {
        return gen_crash_reuse(&mut rng);
    }
    let k = Knobs { max_ops: 30, near_miss: &[0, 10, 25], ..DEFAULT_KNOBS };
    let mut w = common::join_weights(
        vec![("create_storage", 10), ("create_storage_all", 3), ("write_whole", 6), ("remove_storage", 2), ("remove_stream", 2), ("entry", 6), ("read_storage", 3), ("walk", 2), ("root_entry", 2), ("reopen", 3)],
        gen::meta_weights(),
    );
    for e in w.iter_mut() {
        if e.0.starts_with("set_") || e.0 == "touch" {
            e.1 *= 3;
        }
    }
    let mut c = common::standard_case("C17", "metadata", &mut rng, &k, w);
    if idx % 5 == 4 {
        c.mode = "setter-retry".into();
        c.params.insert("fault_seed".into(), (rng.next_u64() >> 2) as i64);
    }
    c
}

/// 'setter-retry' mode: every setter call first meets one transient failure of the underlying
/// file (at a drawn seam call inside it), is retried, and must then be as durable as any other:
/// the value set must be returned immediately and after reopening.
fn run_setter_retry(case: &Case, known: &BTreeSet<String>) -> Outcome {
    use crate::disk::{Fault, FaultKind};
    use crate::runner::Ctx;
    let flags = flags();
    let mut ctx = Ctx::new(&flags, known);
    let mut w = match runner::setup(case, &flags) {
        Ok(w) => w,
        Err(e) => {
            ctx.out.harness_error = Some(e);
            return ctx.out;
        }
    };
    for (i, op) in case.ops.iter().enumerate() {
        if ctx.stop {
            break;
        }
        let setter = matches!(op, Op::SetStateBits(..) | Op::SetClsid(..) | Op::SetCreated(..) | Op::SetModified(..) | Op::Touch(_));
        if !setter {
            runner::run_ops(&mut w, &case.ops[..=i], i, &mut ctx);
            continue;
        }
        let d = 1 + crate::prng::mix(case.param("fault_seed", 1) as u64 ^ i as u64) % 48;
        let k = w.lib.disk.k() + d;
        w.lib.disk.0.borrow_mut().plan.push(Fault { k, kind: FaultKind::Fail });
        crate::driver::set_clock(w.model.clock);
        let mut got = w.lib.exec(op);
        let fired = !w.lib.disk.fired_in_call().is_empty();
        if fired {
            *ctx.out.stats.faults_fired.entry("F-WE/F-SE(transient, in setter)".into()).or_insert(0) += 1;
        }
        if got.is_err() && fired {
            got = w.lib.exec(op); // the retry
            if got.is_err() {
                // later calls may fail after a fault: nothing to judge any more
                ctx.out.stats.inconclusive += 1;
                ctx.stop = true;
                break;
            }
        }
        w.lib.disk.0.borrow_mut().plan.clear();
        ctx.out.stats.api_calls += 1;
        if let Err(m) = w.model.step(op, &got) {
            ctx.report(&m.rule, op.kind(), format!("step {}: {}", i, m.msg), i, true);
            break;
        }
        if !got.is_err() {
            ctx.out.stats.ok_mutations += 1;
        }
    }
    runner::final_checks(&mut w, &mut ctx, case.ops.len());
    runner::finish(&mut w, &mut ctx);
    ctx.out
}

pub fn run(case: &Case, known: &BTreeSet<String>) -> Outcome {
    if case.mode == "crash-reuse" {
        return run_crash_reuse(case);
    }
    let mut o = if case.mode == "setter-retry" { run_setter_retry(case, known) } else { runner::run_history(case, &flags(), known) };
    let mut span: (u64, u64) = (u64::MAX, 0);
    for op in &case.ops {
        if let Op::SetClock(t) = op {
            let x = t.ticks();
            span = (span.0.min(x), span.1.max(x));
            *o.stats.faults_fired.entry("F-CK".into()).or_insert(0) += 1;
        }
    }
    if span.1 >= span.0 {
        o.stats.clock_span_ticks = span.1 - span.0;
    }
    let setters = o.stats.op_outcomes.iter().filter(|(k, _)| (k.starts_with("set_") || k.starts_with("touch") || k.starts_with("create_storage")) && k.ends_with(":ok")).count();
    o.stats.nontrivial = o.stats.nontrivial && setters > 0;
    o
}
