//! C07 — open handles stay bound to their stream and never touch other objects.

use super::common::{self, Knobs, DEFAULT_KNOBS};
use super::{CheckDef, Tier};
use crate::case::{Case, Outcome};
use crate::gen;
use crate::prng::Rng;
use crate::runner::{self, Flags};
use std::collections::BTreeSet;

pub fn def() -> CheckDef {
    CheckDef {
        id: "C07",
        level: "exploration",
        cases: |t| match t {
            Tier::Quick => 30_000,
            Tier::Thorough => 400_000,
        },
        gen,
        run,
        rule: "seeded interleavings of 2-4 stream handles (each on a different stream: the 'clients') with structural mutations of OTHER entries (create / remove / overwrite / resize across the cutoff), small sibling sets (<= 12) so that removals of nodes with two children whose in-order predecessor has an open handle, root removals and slot reuse occur. After every step: full API dump vs model and independent image check (so a write landing in a freed slot is seen even if the API hides it); at the end every handle is flushed and read back through a fresh handle and after reopen. Non-trivial: >= 1 successful mutation with a handle open; distinct = distinct (seam log, final image) hash.",
        assumptions: &["two handles on one stream are outside the statement and never generated; a handle used after its own stream was removed (every tenth case, src/stale.rs) is judged only for what it does to OTHER objects, and not at all for a new stream that took over its directory slot", "reference model as C01"],
        cpu_limit_s: 300,
        fault_kinds: "none (interleaving of handle clients with mutators)",
        count_subruns: false,
        expect_probes: &["node_with_two_siblings", "unallocated_entries_present"],
    }
}

pub fn flags() -> Flags {
    Flags {
        property: "C07",
        dump_each: true,
        imgck_each: true,
        imgck_dump: true,
        final_check: true,
        scope: &["model.", "dump.", "imgck.", "panic", "hang", "reopen.permissive-differs", "reopen.strict-differs"],
        ..Default::default()
    }
}

pub fn gen(seed: u64, idx: u64, _tier: Tier) -> Case {
    let mut rng = Rng::for_case(seed, "C07", idx);
    if idx % 10 == 5 {
        // a handle whose own stream was removed (src/stale.rs): whatever calls through it
        // return, the other objects keep their content
        let version = if rng.chance(1, 2) { 3 } else { 4 };
        let mut c = Case::new("C07", "stale-handle", version);
        c.bufsize = *rng.pick(gen::BUFSIZES);
        c.ops = crate::stale::gen_ops(&mut rng);
        return c;
    }
    let k = Knobs { max_ops: 40, near_miss: &[0, 3], pool: (4, 12), max_objects: 16, big_one_in: 10, spellings: &[0], case_variants: &[0, 10], set_len_shrink_only: true, ..DEFAULT_KNOBS };
    let mut w = common::join_weights(
        vec![("create_storage", 4), ("remove_storage", 4), ("remove_stream", 10), ("write_whole", 12), ("create_new_stream", 3), ("remove_storage_all", 1), ("set_state_bits", 1)],
        gen::handle_weights(),
    );
    for e in w.iter_mut() {
        if e.0 == "open_stream" {
            e.1 = 12;
        }
        if e.0 == "h_drop" {
            e.1 = 1;
        }
    }
    let mut c = common::standard_case("C07", "interleave", &mut rng, &k, w);
    c.mode = "interleave".into();
    c
}

pub fn run(case: &Case, known: &BTreeSet<String>) -> Outcome {
    if case.mode == "stale-handle" {
        return crate::stale::run(case, crate::stale::Judge { property: "C07", image: false, bystanders: true, refusals: false });
    }
    let mut o = runner::run_history(case, &flags(), known);
    let with_handle = case.ops.iter().any(|op| matches!(op, crate::ops::Op::HOpen { .. } | crate::ops::Op::HCreate { .. } | crate::ops::Op::HCreateNew { .. }));
    o.stats.nontrivial = o.stats.nontrivial && with_handle;
    o
}
