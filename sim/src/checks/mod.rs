//! One check per property.  A check is: a generator (seed, case index, tier)
//! -> Case, and a runner Case -> Outcome.  Both are pure functions.

use crate::case::{Case, Outcome};
use std::collections::BTreeSet;

pub mod c01;
pub mod c02;
pub mod c03;
pub mod c04;
pub mod c05;
pub mod c06;
pub mod c07;
pub mod c08;
pub mod c09;
pub mod c10;
pub mod c11;
pub mod c12;
pub mod c13;
pub mod c15;
pub mod c16;
pub mod c17;
pub mod c18;
pub mod common;
pub mod images;

#[derive(Clone, Copy, PartialEq, Eq, Debug)]
pub enum Tier {
    Quick,
    Thorough,
}

impl Tier {
    pub fn name(self) -> &'static str {
        match self {
            Tier::Quick => "quick",
            Tier::Thorough => "thorough",
        }
    }
}

pub struct CheckDef {
    pub id: &'static str,
    pub level: &'static str,
    /// number of cases per tier
    pub cases: fn(Tier) -> u64,
    pub gen: fn(seed: u64, idx: u64, tier: Tier) -> Case,
    pub run: fn(case: &Case, known: &BTreeSet<String>) -> Outcome,
    /// how cases are generated and what makes one non-trivial / distinct
    pub rule: &'static str,
    pub assumptions: &'static [&'static str],
    /// CPU seconds a single case may legitimately need (watchdog)
    pub cpu_limit_s: u64,
    pub fault_kinds: &'static str,
    /// enumerating checks: evidence counts sub-runs (one per injected fault /
    /// damaged image / configuration) rather than cases
    pub count_subruns: bool,
    /// reach probes that a run of this check is expected to hit at least once
    pub expect_probes: &'static [&'static str],
}

pub fn all() -> Vec<CheckDef> {
    vec![c01::def(), c02::def(), c03::def(), c04::def(), c05::def(), c06::def(), c07::def(), c08::def(), c09::def(), c10::def(), c11::def(), c12::def(), c13::def(), c15::def(), c16::def(), c17::def(), c18::def()]
}

pub fn get(id: &str) -> Option<CheckDef> {
    all().into_iter().find(|c| c.id == id)
}

pub const REAL_VS_STUB: &str = "real: the whole cfb crate as in /repo's working tree (built with --cfg cfb_verif), std Read/Write/Seek/BufRead plumbing, uuid, fnv, std::sync::RwLock; simulated: the disk (SimDisk behind the generic F parameter), the clock (cfg(cfb_verif) hook)";
