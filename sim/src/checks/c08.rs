//! C08 — bytes gained by growing a stream read as zero, whatever was there before.

use super::common::{self, Knobs, DEFAULT_KNOBS};
use super::{CheckDef, Tier};
use crate::case::{Case, Outcome};
use crate::prng::Rng;
use crate::runner::{self, Flags};
use std::collections::BTreeSet;

pub fn def() -> CheckDef {
    CheckDef {
        id: "C08",
        level: "exploration",
        cases: |t| match t {
            Tier::Quick => 40_000,
            Tier::Thorough => 800_000,
        },
        gen,
        run,
        rule: "seeded histories over <= 4 streams of non-zero pattern writes, set_len shrink, set_len grow, removal of other non-zero streams, create + grow, with lengths on either side of 64*k, 4096 and sector boundaries; every written byte is attributable (position-dependent pattern keyed by a per-write nonce, never 0). Oracle: every byte read (through the growing handle, a fresh handle, the full dump after every step, and after reopen) equals the last write to that stream position or zero. Non-trivial: >= 1 successful set_len that grows a stream; distinct = distinct (seam log, final image) hash.",
        assumptions: &["reference model as C01"],
        cpu_limit_s: 300,
        fault_kinds: "every fourth case: F-SR / F-SW / F-EI chunking faults (rate-based); every 64th case: F-CR at up to 40 evenly spread seam calls of one growing operation, the crash image reopened and every stream grown; otherwise none (space-reuse histories)",
        count_subruns: false,
        expect_probes: &[],
    }
}

pub fn flags() -> Flags {
    Flags {
        property: "C08",
        dump_each: true,
        final_check: true,
        // content of streams only: error kinds, reopen failures etc. are other properties' business
        scope: &["model.read-", "model.bytes", "model.len", "dump.differs", "reopen.permissive-differs", "reopen.strict-differs"],
        ..Default::default()
    }
}

/// "Regardless of earlier history" includes a history that ended in a crash: a process that
/// died in the middle of an appending write-back or of a resize leaves chains that are longer
/// than the recorded stream length, with the dead operation's bytes in the surplus.  One case =
/// a small file, one growing operation on one stream, and a crash (F-CR) at up to 40 evenly spread
/// seam calls of that operation; each crash image that permissive open still accepts is reopened and every
/// stream in it is grown: the gained bytes must read as zero.
fn gen_crash(rng: &mut Rng) -> Case {
    use crate::ops::{Op, Whence};
    let version = if rng.chance(1, 2) { 3 } else { 4 };
    let mut c = Case::new("C08", "crash-image", version);
    c.bufsize = *rng.pick(crate::gen::BUFSIZES);
    let sizes: &[u64] = &[0, 10, 64, 100, 1000, 4000, 4095, 4096, 5000, 9000, 20_000];
    let mut nonce = 5000u32;
    let n = rng.range(1, 3);
    for i in 0..n {
        nonce += 1;
        c.ops.push(Op::WriteWhole { path: format!("/s{}", i), len: *rng.pick(sizes), nonce });
    }
    if rng.chance(1, 3) {
        // freed space with old non-zero bytes in it
        nonce += 1;
        c.ops.push(Op::WriteWhole { path: "/gone".into(), len: *rng.pick(&[300u64, 5000, 12_000]), nonce });
        c.ops.push(Op::RemoveStream("/gone".into()));
    }
    c.params.insert("build_len".into(), c.ops.len() as i64);
    // the operation that is cut short
    c.ops.push(Op::HOpen { h: 0, path: "/s0".into() });
    match rng.below(3) {
        0 => {
            c.ops.push(Op::HSeek { h: 0, whence: Whence::End, off: 0, uoff: 0 });
            c.ops.push(Op::HWriteAll { h: 0, len: *rng.pick(&[1usize, 100, 600, 4096, 7000]), nonce: nonce + 1 });
            c.ops.push(Op::HFlush { h: 0 });
        }
        1 => {
            c.ops.push(Op::HSeek { h: 0, whence: Whence::Start, off: 0, uoff: 0 });
            c.ops.push(Op::HWriteAll { h: 0, len: *rng.pick(&[200usize, 4096, 5000, 30_000]), nonce: nonce + 1 });
            c.ops.push(Op::HFlush { h: 0 });
        }
        _ => {
            c.ops.push(Op::HSetLen { h: 0, n: *rng.pick(&[0u64, 10, 100, 4095, 4096, 6000, 30_000]) });
        }
    }
    c
}

fn run_crash(case: &Case) -> Outcome {
    use crate::case::Violation;
    use crate::disk::{Fault, FaultKind, SimDisk};
    use crate::driver::Lib;
    use crate::ops::{Op, Res};
    let mut o = Outcome::default();
    let build_len = (case.param("build_len", 0) as usize).min(case.ops.len());
    // the file before the operation that is cut short
    crate::driver::set_clock(crate::ops::T { secs: 1_600_000_000, nanos: 0 });
    let base: Vec<u8> = {
        let disk = SimDisk::new(Vec::new());
        let mut lib = match Lib::create_cfg(disk.clone(), case.version, case.bufsize) {
            Ok(l) => l,
            Err(_) => return o,
        };
        lib.budget_base = 400_000;
        for op in case.ops[..build_len].iter() {
            if matches!(lib.exec(op), Res::Panic(_) | Res::Hang) {
                o.stats.probe("base_unusable(other property)");
                return o;
            }
        }
        lib.close();
        disk.snapshot()
    };
    // executes the last operation on a copy of `base` with a crash at its seam call `crash_at`
    // (0 = none, counted from the end of open); returns (image, seam calls of the operation)
    let exec = |crash_at: u64| -> Result<(Vec<u8>, u64), String> {
        let disk = SimDisk::new(base.clone());
        let mut lib = Lib::open(disk.clone(), false, case.bufsize).map_err(|r| format!("open failed: {}", r.brief()))?;
        lib.budget_base = 400_000;
        let k0 = disk.k();
        if crash_at != 0 {
            disk.0.borrow_mut().plan = vec![Fault { k: k0 + crash_at, kind: FaultKind::Crash }];
        }
        for op in case.ops[build_len..].iter() {
            match lib.exec(op) {
                Res::Panic(p) => return Err(format!("PANIC {}", p)),
                Res::Hang => return Err("HANG".into()),
                _ => {}
            }
        }
        let span = disk.k() - k0;
        // the image as the crash left it (dropping the objects afterwards cannot change it: every
        // seam call after the crash point fails; forgetting them instead would leak their buffers)
        let img = disk.snapshot();
        disk.0.borrow_mut().plan = vec![Fault { k: 1, kind: FaultKind::Crash }];
        disk.0.borrow_mut().crashed = true;
        lib.close();
        Ok((img, span))
    };
    // the same operation with ONE failing seam call (no crash); every call that returns an error
    // is retried (<= 2 times).  Returns /s0 as the SAME session reads it afterwards and the image,
    // or None when a call stayed failed / panicked (C13's business).
    let exec_fail_retry = |fail_at: u64| -> Option<(Vec<u8>, Vec<u8>)> {
        let disk = SimDisk::new(base.clone());
        let mut lib = Lib::open(disk.clone(), false, case.bufsize).ok()?;
        lib.budget_base = 400_000;
        let k0 = disk.k();
        disk.0.borrow_mut().plan = vec![Fault { k: k0 + fail_at, kind: FaultKind::Fail }];
        for op in case.ops[build_len..].iter() {
            let mut tries = 0;
            loop {
                match lib.exec(op) {
                    Res::Panic(_) | Res::Hang => {
                        disk.0.borrow_mut().plan = vec![Fault { k: 1, kind: FaultKind::Crash }];
                        disk.0.borrow_mut().crashed = true;
                        lib.close();
                        return None;
                    }
                    r if r.is_err() && tries < 2 => tries += 1,
                    r if r.is_err() => {
                        lib.close();
                        return None;
                    }
                    _ => break,
                }
            }
        }
        let _ = lib.exec(&Op::HFlush { h: 0 });
        lib.drop_handle(0);
        let live = match lib.exec(&Op::ReadWhole("/s0".into())) {
            Res::Bytes(b) => b,
            _ => {
                lib.close();
                return None;
            }
        };
        let img = disk.snapshot();
        lib.close();
        Some((live, img))
    };
    let read_s0 = |img: &[u8]| -> Option<Vec<u8>> {
        let mut lib = Lib::open(SimDisk::new(img.to_vec()), false, case.bufsize).ok()?;
        lib.budget_base = 400_000;
        let r = match lib.exec(&Op::ReadWhole("/s0".into())) {
            Res::Bytes(b) => Some(b),
            _ => None,
        };
        lib.close();
        r
    };
    // /s0 before the operation and after it ran undisturbed: a byte beyond the old length that
    // is neither zero nor the byte the operation itself puts there is somebody else's old data
    let s0_old = read_s0(&base);
    let s0_fin = exec(0).ok().and_then(|(img, _)| read_s0(&img));
    let grows_by_set_len = matches!(case.ops.last(), Some(Op::HSetLen { .. }));
    // /s0's stored directory entry (start sector, size): a crash between two of the library's
    // field writes leaves a TORN entry (new start sector with the old size, ...) under which
    // anything may show; no property promises atomic entry updates, so the crash image is judged
    // only when the entry is completely the one the undisturbed operation ends with
    let entry_of_s0 = |img: &[u8]| -> Option<(u32, u64)> {
        let p = crate::imgck::check(img);
        let want: Vec<u16> = "s0".encode_utf16().collect();
        p.layout.entries.iter().find(|e| e.obj_type == 2 && e.name_len_field == 6 && e.name_units[..2] == want[..]).map(|e| (e.start_sector, e.size))
    };
    let final_entry = exec(0).ok().and_then(|(img, _)| entry_of_s0(&img));
    let foreign_byte = |content: &[u8]| -> Option<usize> {
        let (old, fin) = (s0_old.as_ref()?, s0_fin.as_ref()?);
        (old.len()..content.len()).find(|&p| content[p] != 0 && (p >= fin.len() || content[p] != fin[p]))
    };
    let span = match exec(0) {
        Ok((_, span)) => span,
        Err(_) => {
            o.stats.probe("base_unusable(other property)");
            return o;
        }
    };
    let (k0, k1) = (0u64, span);
    let only = case.param("only_k", -1);
    let mut hashes: BTreeSet<u64> = BTreeSet::new();
    // at most 40 crash points per case, spread evenly over the operation (all of them when the
    // operation makes fewer seam calls)
    let stride = (span / 40).max(1);
    let phase = case.param("build_len", 0) as u64 % stride;
    'all: for k in (k0 + 1)..=k1 {
        if only >= 0 && only as u64 != k {
            continue;
        }
        if only < 0 && (k - k0 - 1) % stride != phase {
            continue;
        }
        let img = match exec(k) {
            Ok((img, _)) => img,
            Err(_) => continue, // panics under faults are C13's business
        };
        o.stats.sub_runs += 1;
        *o.stats.faults_fired.entry("F-CR".into()).or_insert(0) += 1;
        hashes.insert(crate::prng::fnv(&img));
        let mut lib = match Lib::open(SimDisk::new(img.clone()), false, case.bufsize) {
            Ok(l) => l,
            Err(_) => {
                o.stats.probe("crash_image_rejected_by_open");
                continue;
            }
        };
        lib.budget_base = 400_000;
        o.stats.probe("crash_image_accepted");
        // (i) the crash image itself, when the cut-short operation is a set_len and the stream's
        // directory entry is already completely the final one (set_len HAS made the stream longer
        // in the file): the bytes beyond the old length are zero
        let committed = grows_by_set_len && final_entry.is_some() && entry_of_s0(&img) == final_entry;
        if !committed {
            o.stats.probe("crash_image_entry_not_final(not judged)");
        } else if let Res::Bytes(now) = lib.exec(&Op::ReadWhole("/s0".into())) {
            o.stats.probe("crash_image_entry_final(judged)");
            if s0_old.as_ref().map_or(false, |old| now.len() > old.len()) {
                o.stats.probe("crash_image_shows_the_stream_longer");
            }
            if let Some(pos) = foreign_byte(&now) {
                let mut rc = case.clone();
                rc.params.insert("only_k".into(), k as i64);
                o.replay_case = Some(rc);
                o.violations.push(Violation {
                    property: "C08".into(),
                    rule: "stale-in-crash-image".into(),
                    site: "crash-image".into(),
                    msg: format!("crash at seam call {} of set_len after its directory entry was completely written, bytes reopened: \"/s0\" (was {} bytes) has {} bytes and byte {} reads {:#04x} - neither zero nor what the operation writes there", k, s0_old.as_ref().map_or(0, |o| o.len()), now.len(), pos, now[pos]),
                    step: 0,
                });
                break 'all;
            }
        }
        // (ii) the same seam call FAILS instead (no crash), the failed call is retried to success:
        // the bytes gained by a set_len that returned Ok are zero, in the session and in the bytes
        if grows_by_set_len {
            if let Some((live, img2)) = exec_fail_retry(k) {
                o.stats.sub_runs += 1;
                *o.stats.faults_fired.entry("F-WE/F-SE/F-RE(one failure, retried)".into()).or_insert(0) += 1;
                o.stats.probe("failed_grow_retried_to_success");
                let from_bytes = read_s0(&img2);
                for (what, content) in [("same session", Some(live)), ("after reopening the bytes", from_bytes)] {
                    let content = match content {
                        Some(c) => c,
                        None => continue,
                    };
                    if let Some(pos) = foreign_byte(&content) {
                        let mut rc = case.clone();
                        rc.params.insert("only_k".into(), k as i64);
                        o.replay_case = Some(rc);
                        o.violations.push(Violation {
                            property: "C08".into(),
                            rule: "stale-after-retried-grow".into(),
                            site: "fail-retry".into(),
                            msg: format!("seam call {} of set_len failed once, the call was retried and returned Ok: \"/s0\" (was {} bytes) has {} bytes and byte {} reads {:#04x}, not zero ({})", k, s0_old.as_ref().map_or(0, |o| o.len()), content.len(), pos, content[pos], what),
                            step: 0,
                        });
                        break 'all;
                    }
                }
            }
        }
        let streams: Vec<(String, u64)> = match lib.exec(&Op::Walk) {
            Res::Listing(l) => l.iter().filter(|e| e.is_stream).map(|e| (e.path.clone(), e.len)).collect(),
            _ => continue,
        };
        for (si, (path, len)) in streams.iter().enumerate() {
            let before = match lib.exec(&Op::ReadWhole(path.clone())) {
                Res::Bytes(b) if b.len() as u64 == *len => b,
                _ => {
                    o.stats.probe("crash_image_stream_unreadable");
                    continue;
                }
            };
            let grow = [1u64, 63, 64, 65, 500, 4096, 5000][(k as usize + si) % 7];
            let steps = [Op::HOpen { h: 1, path: path.clone() }, Op::HSetLen { h: 1, n: len + grow }, Op::HFlush { h: 1 }, Op::HDrop { h: 1 }];
            let mut failed = false;
            for st in steps.iter() {
                if lib.exec(st).is_err() {
                    failed = true;
                    break;
                }
            }
            lib.drop_handle(1);
            if failed {
                o.stats.probe("grow_failed_on_crash_image");
                continue;
            }
            o.stats.boundary_checks += 1;
            o.stats.ok_mutations += 1;
            for pass in 0..2 {
                if pass == 1 {
                    // and from the bytes alone
                    let snap = lib.disk.snapshot();
                    lib.close();
                    lib = match Lib::open(SimDisk::new(snap), false, case.bufsize) {
                        Ok(l) => l,
                        Err(_) => continue 'all,
                    };
                    lib.budget_base = 400_000;
                }
                if let Res::Bytes(after) = lib.exec(&Op::ReadWhole(path.clone())) {
                    let gained = if after.len() >= before.len() { &after[before.len()..] } else { &after[0..0] };
                    let kept_ok = after.len() as u64 == len + grow && after[..before.len()] == before[..];
                    if let Some(pos) = gained.iter().position(|b| *b != 0) {
                        let mut rc = case.clone();
                        rc.params.insert("only_k".into(), k as i64);
                        o.replay_case = Some(rc);
                        o.violations.push(Violation {
                            property: "C08".into(),
                            rule: "stale-after-grow".into(),
                            site: "crash-image".into(),
                            msg: format!(
                                "crash at seam call {} of the last operation, reopened: {:?} had {} bytes; after set_len({}) byte {} reads {:#04x}, not zero ({})",
                                k,
                                path,
                                len,
                                len + grow,
                                before.len() + pos,
                                gained[pos],
                                if pass == 0 { "same session" } else { "after reopening the bytes" }
                            ),
                            step: 0,
                        });
                        break 'all;
                    }
                    if !kept_ok {
                        o.stats.probe("grown_stream_prefix_or_length_differs(not judged)");
                    }
                }
            }
        }
        lib.close();
    }
    o.stats.state_hashes = hashes.iter().copied().collect();
    o.stats.trace_hash = hashes.iter().fold(3, |a, b| a ^ crate::prng::mix(*b));
    o.stats.nontrivial = o.stats.ok_mutations > 0;
    o
}

pub fn gen(seed: u64, idx: u64, _tier: Tier) -> Case {
    let mut rng = Rng::for_case(seed, "C08", idx);
    if idx % 64 == 7 {
        return gen_crash(&mut rng);
    }
    let k = Knobs { max_ops: 30, near_miss: &[0], pool: (2, 4), max_objects: 6, big_one_in: 8, big_stream: 40_000, small_stream: 9_000, spellings: &[0], case_variants: &[0], class_agreed_one_in: 1000, no_remove_with_open_handles: true, ..DEFAULT_KNOBS };
    let w = vec![
        ("write_whole", 10),
        ("remove_stream", 6),
        ("open_stream", 10),
        ("h_create_stream", 3),
        ("h_set_len", 24),
        ("h_write_all", 8),
        ("h_seek", 5),
        ("h_read_full", 6),
        ("h_flush", 2),
        ("h_drop", 5),
        ("read_whole", 4),
        ("reopen", 2),
    ];
    let mut c = common::standard_case("C08", "grow-after-reuse", &mut rng, &k, w);
    if idx % 4 == 2 {
        // the same oracle on a disk that splits transfers (short writes must not leave a
        // reused sector half initialised)
        c.mode = "grow-after-reuse+chunking".into();
        c.params.insert("chunk_seed".into(), (rng.next_u64() >> 2) as i64 | 1);
    }
    c
}

pub fn run(case: &Case, known: &BTreeSet<String>) -> Outcome {
    if case.mode == "crash-image" {
        return run_crash(case);
    }
    let mut o = runner::run_history(case, &flags(), known);
    let grows = o.stats.op_outcomes.get("h_set_len:ok").copied().unwrap_or(0) > 0;
    o.stats.nontrivial = o.stats.nontrivial && grows;
    o
}
