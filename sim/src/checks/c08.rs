//! C08 — bytes gained by growing a stream read as zero, whatever was there before.

use super::common::{self, Knobs, DEFAULT_KNOBS};
use super::{CheckDef, Tier};
use crate::case::{Case, Outcome};
use crate::prng::Rng;
use crate::runner::{self, Flags};
use std::collections::BTreeSet;

pub fn def() -> CheckDef {
    CheckDef {
        id: "C08",
        level: "exploration",
        cases: |t| match t {
            Tier::Quick => 40_000,
            Tier::Thorough => 800_000,
        },
        gen,
        run,
        rule: "seeded histories over <= 4 streams of non-zero pattern writes, set_len shrink, set_len grow, removal of other non-zero streams, create + grow, with lengths on either side of 64*k, 4096 and sector boundaries; every written byte is attributable (position-dependent pattern keyed by a per-write nonce, never 0). Oracle: every byte read (through the growing handle, a fresh handle, the full dump after every step, and after reopen) equals the last write to that stream position or zero. Non-trivial: >= 1 successful set_len that grows a stream; distinct = distinct (seam log, final image) hash.",
        assumptions: &["reference model as C01"],
        cpu_limit_s: 300,
        fault_kinds: "every fourth case: F-SR / F-SW / F-EI chunking faults (rate-based); otherwise none (space-reuse histories)",
        count_subruns: false,
        expect_probes: &[],
    }
}

pub fn flags() -> Flags {
    Flags {
        property: "C08",
        dump_each: true,
        final_check: true,
        // content of streams only: error kinds, reopen failures etc. are other properties' business
        scope: &["model.read-", "model.bytes", "model.len", "dump.differs", "reopen.permissive-differs", "reopen.strict-differs"],
        ..Default::default()
    }
}

pub fn gen(seed: u64, idx: u64, _tier: Tier) -> Case {
    let mut rng = Rng::for_case(seed, "C08", idx);
    let k = Knobs { max_ops: 30, near_miss: &[0], pool: (2, 4), max_objects: 6, big_one_in: 8, big_stream: 40_000, small_stream: 9_000, spellings: &[0], case_variants: &[0], class_agreed_one_in: 1000, no_remove_with_open_handles: true, ..DEFAULT_KNOBS };
    let w = vec![
        ("write_whole", 10),
        ("remove_stream", 6),
        ("open_stream", 10),
        ("h_create_stream", 3),
        ("h_set_len", 24),
        ("h_write_all", 8),
        ("h_seek", 5),
        ("h_read_full", 6),
        ("h_flush", 2),
        ("h_drop", 5),
        ("read_whole", 4),
        ("reopen", 2),
    ];
    let mut c = common::standard_case("C08", "grow-after-reuse", &mut rng, &k, w);
    if idx % 4 == 2 {
        // the same oracle on a disk that splits transfers (short writes must not leave a
        // reused sector half initialised)
        c.mode = "grow-after-reuse+chunking".into();
        c.params.insert("chunk_seed".into(), (rng.next_u64() >> 2) as i64 | 1);
    }
    c
}

pub fn run(case: &Case, known: &BTreeSet<String>) -> Outcome {
    let mut o = runner::run_history(case, &flags(), known);
    let grows = o.stats.op_outcomes.get("h_set_len:ok").copied().unwrap_or(0) > 0;
    o.stats.nontrivial = o.stats.nontrivial && grows;
    o
}
