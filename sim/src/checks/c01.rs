//! C01 — namespace and content operations agree with an abstract tree model.

use super::{CheckDef, Tier};
use crate::case::{Case, Outcome};
use crate::gen::{self, Gen, GenCfg};
use crate::model::Model;
use crate::names::{self, NameClass};
use crate::ops::Op;
use crate::prng::Rng;
use crate::runner::{self, Flags};
use std::collections::BTreeSet;

pub fn def() -> CheckDef {
    CheckDef {
        id: "C01",
        level: "exploration",
        cases: |t| match t {
            Tier::Quick => 60_000 + ENUM_CASES,
            Tier::Thorough => 1_500_000 + ENUM_CASES,
        },
        gen,
        run,
        rule: "cases 0..1151 enumerate every insertion order x removal order of 4 sibling names (2 versions); the rest are seeded swarm histories (<= 60 ops, small name pool, sizes around 64/4096/sector boundaries, reopen in both modes) compared step by step with the reference model. A case is non-trivial if at least one mutating op succeeded and at least one boundary check (API dump / reopen dump) ran; distinct = distinct hash of (seam event log, final image).",
        assumptions: &[
            "reference model written from the crate documentation and MS-CFB; ambiguities listed in model::AMBIGUOUS are accepted either way",
            "names are drawn from character classes on whose case mapping all published tables agree",
        ],
        cpu_limit_s: 120,
        fault_kinds: "none (fault-free disk; reopen at drawn points)",
        count_subruns: false,
        expect_probes: &[],
    }
}

const ENUM_CASES: u64 = 2 * 24 * 24;

pub fn flags() -> Flags {
    Flags { property: "C01", final_check: true, ..Default::default() }
}

fn perm(mut k: u64, n: usize) -> Vec<usize> {
    let mut items: Vec<usize> = (0..n).collect();
    let mut out = vec![];
    let mut f: Vec<u64> = vec![1; n + 1];
    for i in 1..=n {
        f[i] = f[i - 1] * i as u64;
    }
    for i in (0..n).rev() {
        let idx = (k / f[i]) as usize;
        k %= f[i];
        out.push(items.remove(idx));
    }
    out
}

pub fn gen(seed: u64, idx: u64, _tier: Tier) -> Case {
    if idx < ENUM_CASES {
        // exhaustive sibling orders for 4 names
        let version = if idx < ENUM_CASES / 2 { 3 } else { 4 };
        let k = idx % (24 * 24);
        let ins = perm(k / 24, 4);
        let rem = perm(k % 24, 4);
        let names = ["b", "D", "aa", "C"];
        let mut c = Case::new("C01", "enum4", version);
        for (j, &i) in ins.iter().enumerate() {
            if j % 2 == 0 {
                c.ops.push(Op::WriteWhole { path: format!("/{}", names[i]), len: [0u64, 5, 64, 4096][i], nonce: 100 + i as u32 });
            } else {
                c.ops.push(Op::CreateStorage(format!("/{}", names[i])));
            }
            c.ops.push(Op::ReadRoot);
        }
        c.ops.push(Op::Walk);
        for &i in rem.iter() {
            c.ops.push(Op::RemoveStorageAll(format!("/{}", names[i])));
            c.ops.push(Op::ReadRoot);
            for n in names.iter() {
                c.ops.push(Op::Exists(format!("/{}", n.to_lowercase())));
            }
        }
        return c;
    }
    let mut rng = Rng::for_case(seed, "C01", idx);
    let version = if rng.chance(1, 2) { 3 } else { 4 };
    let mut c = Case::new("C01", "swarm", version);
    c.bufsize = *rng.pick(gen::BUFSIZES);
    let sector = if version == 3 { 512 } else { 4096 };
    let big = rng.chance(1, 6);
    let max_stream: u64 = if big { 300_000 } else { 20_000 };
    let pool_n = rng.range(2, 10) as usize;
    let class = if rng.chance(1, 3) { NameClass::Agreed } else { NameClass::Ascii };
    let cfg = GenCfg {
        max_ops: 60,
        names: names::gen_pool(&mut rng, class, pool_n),
        sizes: gen::draw_sizes(&mut rng, max_stream, sector),
        near_miss: *rng.pick(&[0u32, 5, 15, 30]),
        spellings: *rng.pick(&[0u32, 10, 40]),
        case_variants: *rng.pick(&[0u32, 20, 60]),
        weights: gen::swarm(&mut rng, gen::c01_weights()),
        max_objects: 40,
        max_depth: 5,
        invalid_names: false,
        protect_handles: true,
        max_stream,
        no_remove_with_open_handles: false,
        set_len_shrink_only: false,
    };
    let n = gen::draw_len(&mut rng, 60);
    let mut g = Gen::new(&mut rng, &cfg, Model::new(version));
    c.ops = g.history(n);
    c
}

pub fn run(case: &Case, known: &BTreeSet<String>) -> Outcome {
    runner::run_history(case, &flags(), known)
}
