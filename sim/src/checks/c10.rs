//! C10 — rejected operations have no effect.

use super::common::{self, Knobs, DEFAULT_KNOBS};
use super::{CheckDef, Tier};
use crate::case::{Case, Outcome};
use crate::gen;
use crate::prng::Rng;
use crate::runner::{self, Flags};
use std::collections::BTreeSet;

pub fn def() -> CheckDef {
    CheckDef {
        id: "C10",
        level: "exploration",
        cases: |t| match t {
            Tier::Quick => 40_000,
            Tier::Thorough => 800_000,
        },
        gen,
        run,
        rule: "seeded histories (<= 30 ops) in which about half of the path arguments are near-misses: missing parent, wrong type both ways, existing name, non-empty storage, root removal, paths escaping the root, invalid names, out-of-range seeks, set_storage_clsid on a stream, setters on a missing path - at every point of a history, also while handles hold unflushed data. For every call refused with NotFound / AlreadyExists / InvalidInput: the image hash is unchanged (write calls made during a refused call are counted as a probe, not judged - the property speaks of the bytes), and the rest of the history still agrees with the model. One case in 16 starts from a file laid out by the independent writer whose directory entries carry legal bytes the library never writes itself (arbitrary units behind each name's terminator; in V3 arbitrary high halves of the stream size fields), with 50-80 % near-miss arguments and tripled weights for the metadata setters. Every tenth case is a stale-handle scenario (src/stale.rs): a single call through a handle whose stream was removed that is refused (NotFound / InvalidInput) must leave the bytes, the handle's len() and its position as they were, and the same call made again must be refused in the same way. Non-trivial: >= 1 refused call checked and >= 1 successful mutation; distinct = distinct (seam log, final image) hash.",
        assumptions: &["reference model as C01 decides which calls must be refused"],
        cpu_limit_s: 300,
        fault_kinds: "none (seam-level write counter is the oracle)",
        count_subruns: false,
        expect_probes: &[],
    }
}

pub fn flags() -> Flags {
    Flags { property: "C10", no_effect: true, final_check: true, ..Default::default() }
}

pub fn gen(seed: u64, idx: u64, _tier: Tier) -> Case {
    let mut rng = Rng::for_case(seed, "C10", idx);
    if idx % 10 == 7 {
        // a handle kept across the removal of its own stream (src/stale.rs): calls through it are
        // refused with NotFound / InvalidInput - and a refused call has no effect, neither on the
        // bytes nor on what the handle reports afterwards
        let version = if rng.chance(1, 2) { 3 } else { 4 };
        let mut c = Case::new("C10", "stale-handle", version);
        c.bufsize = *rng.pick(gen::BUFSIZES);
        c.ops = crate::stale::gen_ops(&mut rng);
        return c;
    }
    if idx % 16 == 5 {
        // a file by another writer whose directory entries hold legal bytes the library itself
        // would never write (units behind the name's terminator, V3: the unused high half of the
        // size field): a refused call that REWRITES an entry "unchanged" changes those bytes
        let version = if rng.chance(1, 2) { 3 } else { 4 };
        let mut c = Case::new("C10", "foreign-near-miss", version);
        c.bufsize = *rng.pick(gen::BUFSIZES);
        let mut plan = crate::imgwr::plan_from_seed(rng.next_u64(), version);
        plan.v3_size_high_garbage = version == 3;
        plan.name_slack_garbage = true;
        plan.library_like_trees = rng.chance(1, 2);
        let (max_entries, max_stream) = (rng.range(3, 20) as usize, 9000usize);
        let content_seed = rng.next_u64();
        c.init = crate::case::Init::Foreign { content_seed, max_entries, max_stream, plan };
        let mut crng = Rng::new(content_seed);
        let mut content = crate::imgwr::gen_content(&mut crng, max_entries, max_stream);
        content.root.meta.created = 0;
        let model = crate::model::Model::from_dump(&content, version);
        let mut pool: Vec<String> = model.all_paths().into_iter().filter_map(|(p, _)| p.last().cloned()).take(10).collect();
        pool.extend(crate::names::gen_pool(&mut rng, crate::names::NameClass::Ascii, 3));
        let cfg = gen::GenCfg {
            max_ops: 30,
            names: pool,
            sizes: gen::draw_sizes(&mut rng, 9000, if version == 3 { 512 } else { 4096 }),
            near_miss: *rng.pick(&[50u32, 65, 80]),
            spellings: 0,
            case_variants: *rng.pick(&[0u32, 20]),
            weights: common::join_weights(common::join_weights(gen::c01_weights(), gen::handle_weights()), {
                let mut m = gen::meta_weights();
                for e in m.iter_mut() {
                    e.1 *= 3;
                }
                m
            }),
            max_objects: 60,
            max_depth: 6,
            invalid_names: true,
            protect_handles: true,
            max_stream: 9000,
            no_remove_with_open_handles: false,
            set_len_shrink_only: false,
        };
        let n = rng.range(4, 30) as usize;
        let mut g = gen::Gen::new(&mut rng, &cfg, model);
        c.ops = g.history(n);
        return c;
    }
    let k = Knobs { max_ops: 30, near_miss: &[35, 50, 65], invalid_names: true, ..DEFAULT_KNOBS };
    let w = match rng.below(3) {
        0 => gen::c01_weights(),
        1 => common::join_weights(gen::c01_weights(), gen::handle_weights()),
        _ => common::join_weights(common::join_weights(gen::c01_weights(), gen::handle_weights()), gen::meta_weights()),
    };
    common::standard_case("C10", "near-miss", &mut rng, &k, w)
}

pub fn run(case: &Case, known: &BTreeSet<String>) -> Outcome {
    if case.mode == "stale-handle" {
        return crate::stale::run(case, crate::stale::Judge { property: "C10", image: false, bystanders: false, refusals: true });
    }
    let mut o = runner::run_history(case, &flags(), known);
    if case.mode == "foreign-near-miss" {
        o.stats.probe("foreign_base_with_slack_bytes_in_entries");
    }
    // Second clause of the property: "every subsequently observable result is the same as if the
    // call had not been made".  A divergence from the model counts for C10 only if it goes
    // away when the refused calls are taken out of the history; otherwise it has nothing to do
    // with refusals and is some other property's business.
    let diverged = o.violations.iter().any(|v| !v.rule.starts_with("no-effect."));
    if diverged && !o.refused_ops.is_empty() {
        let mut c2 = case.clone();
        c2.ops = case.ops.iter().enumerate().filter(|(i, _)| !o.refused_ops.contains(i)).map(|(_, op)| op.clone()).collect();
        let o2 = runner::run_history(&c2, &flags(), known);
        let rules2: Vec<&str> = o2.violations.iter().map(|v| v.rule.as_str()).collect();
        let before = o.violations.len();
        o.violations.retain(|v| v.rule.starts_with("no-effect.") || !rules2.contains(&v.rule.as_str()));
        if o.violations.len() < before {
            o.stats.probe("out_of_scope:divergence-persists-without-the-refused-calls");
        }
    } else if diverged {
        // no refused call was involved at all
        o.violations.retain(|v| v.rule.starts_with("no-effect."));
        o.stats.probe("out_of_scope:divergence-without-any-refused-call");
    }
    o
}
