//! C10 — rejected operations have no effect.

use super::common::{self, Knobs, DEFAULT_KNOBS};
use super::{CheckDef, Tier};
use crate::case::{Case, Outcome};
use crate::gen;
use crate::prng::Rng;
use crate::runner::{self, Flags};
use std::collections::BTreeSet;

pub fn def() -> CheckDef {
    CheckDef {
        id: "C10",
        level: "exploration",
        cases: |t| match t {
            Tier::Quick => 40_000,
            Tier::Thorough => 800_000,
        },
        gen,
        run,
        rule: "seeded histories (<= 30 ops) in which about half of the path arguments are near-misses: missing parent, wrong type both ways, existing name, non-empty storage, root removal, paths escaping the root, invalid names, out-of-range seeks, set_storage_clsid on a stream, setters on a missing path - at every point of a history, also while handles hold unflushed data. For every call refused with NotFound / AlreadyExists / InvalidInput: the image hash is unchanged (write calls made during a refused call are counted as a probe, not judged - the property speaks of the bytes), and the rest of the history still agrees with the model. Every tenth case is a stale-handle scenario (src/stale.rs): a single call through a handle whose stream was removed that is refused (NotFound / InvalidInput) must leave the bytes, the handle's len() and its position as they were. Non-trivial: >= 1 refused call checked and >= 1 successful mutation; distinct = distinct (seam log, final image) hash.",
        assumptions: &["reference model as C01 decides which calls must be refused"],
        cpu_limit_s: 300,
        fault_kinds: "none (seam-level write counter is the oracle)",
        count_subruns: false,
        expect_probes: &[],
    }
}

pub fn flags() -> Flags {
    Flags { property: "C10", no_effect: true, final_check: true, ..Default::default() }
}

pub fn gen(seed: u64, idx: u64, _tier: Tier) -> Case {
    let mut rng = Rng::for_case(seed, "C10", idx);
    if idx % 10 == 7 {
        // a handle kept across the removal of its own stream (src/stale.rs): calls through it are
        // refused with NotFound / InvalidInput - and a refused call has no effect, neither on the
        // bytes nor on what the handle reports afterwards
        let version = if rng.chance(1, 2) { 3 } else { 4 };
        let mut c = Case::new("C10", "stale-handle", version);
        c.bufsize = *rng.pick(gen::BUFSIZES);
        c.ops = crate::stale::gen_ops(&mut rng);
        return c;
    }
    let k = Knobs { max_ops: 30, near_miss: &[35, 50, 65], invalid_names: true, ..DEFAULT_KNOBS };
    let w = match rng.below(3) {
        0 => gen::c01_weights(),
        1 => common::join_weights(gen::c01_weights(), gen::handle_weights()),
        _ => common::join_weights(common::join_weights(gen::c01_weights(), gen::handle_weights()), gen::meta_weights()),
    };
    common::standard_case("C10", "near-miss", &mut rng, &k, w)
}

pub fn run(case: &Case, known: &BTreeSet<String>) -> Outcome {
    if case.mode == "stale-handle" {
        return crate::stale::run(case, crate::stale::Judge { property: "C10", image: false, bystanders: false, refusals: true });
    }
    let mut o = runner::run_history(case, &flags(), known);
    // Second clause of the property: "every subsequently observable result is the same as if the
    // call had not been made".  A divergence from the model counts for C10 only if it goes
    // away when the refused calls are taken out of the history; otherwise it has nothing to do
    // with refusals and is some other property's business.
    let diverged = o.violations.iter().any(|v| !v.rule.starts_with("no-effect."));
    if diverged && !o.refused_ops.is_empty() {
        let mut c2 = case.clone();
        c2.ops = case.ops.iter().enumerate().filter(|(i, _)| !o.refused_ops.contains(i)).map(|(_, op)| op.clone()).collect();
        let o2 = runner::run_history(&c2, &flags(), known);
        let rules2: Vec<&str> = o2.violations.iter().map(|v| v.rule.as_str()).collect();
        let before = o.violations.len();
        o.violations.retain(|v| v.rule.starts_with("no-effect.") || !rules2.contains(&v.rule.as_str()));
        if o.violations.len() < before {
            o.stats.probe("out_of_scope:divergence-persists-without-the-refused-calls");
        }
    } else if diverged {
        // no refused call was involved at all
        o.violations.retain(|v| v.rule.starts_with("no-effect."));
        o.stats.probe("out_of_scope:divergence-without-any-refused-call");
    }
    o
}
