//! C10 — rejected operations have no effect.

use super::common::{self, Knobs, DEFAULT_KNOBS};
use super::{CheckDef, Tier};
use crate::case::{Case, Outcome};
use crate::gen;
use crate::prng::Rng;
use crate::runner::{self, Flags};
use std::collections::BTreeSet;

pub fn def() -> CheckDef {
    CheckDef {
        id: "C10",
        level: "exploration",
        cases: |t| match t {
            Tier::Quick => 40_000,
            Tier::Thorough => 800_000,
        },
        gen,
        run,
        rule: "seeded histories (<= 30 ops) in which about half of the path arguments are near-misses: missing parent, wrong type both ways, existing name, non-empty storage, root removal, paths escaping the root, invalid names, out-of-range seeks, set_storage_clsid on a stream, setters on a missing path - at every point of a history, also while handles hold unflushed data. For every call refused with NotFound / AlreadyExists / InvalidInput: the simulated disk saw ZERO write calls during the call, the image hash is unchanged, and the rest of the history still agrees with the model. Non-trivial: >= 1 refused call checked and >= 1 successful mutation; distinct = distinct (seam log, final image) hash.",
        assumptions: &["reference model as C01 decides which calls must be refused"],
        cpu_limit_s: 30,
        fault_kinds: "none (seam-level write counter is the oracle)",
        count_subruns: false,
        expect_probes: &[],
    }
}

pub fn flags() -> Flags {
    Flags { property: "C10", no_effect: true, final_check: true, ..Default::default() }
}

pub fn gen(seed: u64, idx: u64, _tier: Tier) -> Case {
    let mut rng = Rng::for_case(seed, "C10", idx);
    let k = Knobs { max_ops: 30, near_miss: &[35, 50, 65], invalid_names: true, ..DEFAULT_KNOBS };
    let w = match rng.below(3) {
        0 => gen::c01_weights(),
        1 => common::join_weights(gen::c01_weights(), gen::handle_weights()),
        _ => common::join_weights(common::join_weights(gen::c01_weights(), gen::handle_weights()), gen::meta_weights()),
    };
    common::standard_case("C10", "near-miss", &mut rng, &k, w)
}

pub fn run(case: &Case, known: &BTreeSet<String>) -> Outcome {
    runner::run_history(case, &flags(), known)
}
