//! Base images for the corruption checks (C05, C11, C16): built by a short
//! simulated history through the library, or laid out by the independent
//! writer; plus mid-operation crash images.

use crate::case::Case;
use crate::disk::{Fault, FaultKind, SimDisk};
use crate::driver::Lib;
use crate::dump::Dump;
use crate::ops::{Op, Res};
use crate::prng::Rng;

pub struct Base {
    pub image: Vec<u8>,
    /// an earlier snapshot of the same file (for lost-write faults)
    pub older: Option<Vec<u8>>,
    pub dump: Option<Dump>,
}

/// A small but structurally rich history: storages, streams on both sides of
/// the cutoff, removals that leave free sectors / slots, a second directory sector.
pub fn gen_build_ops(rng: &mut Rng, version: u16) -> Vec<Op> {
    let mut ops = vec![];
    let mut nonce = 300u32;
    let mut n = || {
        nonce += 1;
        nonce
    };
    let sector: u64 = if version == 3 { 512 } else { 4096 };
    let nstor = rng.range(0, 2);
    for i in 0..nstor {
        ops.push(Op::CreateStorage(format!("/d{}", i)));
    }
    let nstreams = rng.range(2, 7);
    for i in 0..nstreams {
        let len = *rng.pick(&[0u64, 1, 64, 65, 200, 1000, 4095, 4096, 5000, sector * 2 + 1, 9000]);
        let parent = if nstor > 0 && rng.chance(1, 3) { format!("/d{}", rng.below(nstor)) } else { String::new() };
        ops.push(Op::WriteWhole { path: format!("{}/s{}", parent, i), len, nonce: n() });
    }
    if rng.chance(1, 2) {
        ops.push(Op::RemoveStream("/s0".into()));
    }
    if rng.chance(1, 3) {
        ops.push(Op::CreateStorage("/d0/sub".into()));
        ops.push(Op::SetStateBits("/d0/sub".into(), 7));
    }
    if rng.chance(1, 3) {
        ops.push(Op::WriteWhole { path: "/late".into(), len: *rng.pick(&[10u64, 4096, 70_000]), nonce: n() });
    }
    if rng.chance(1, 4) {
        ops.push(Op::SetClsid("/".into(), [9; 16]));
    }
    ops
}

/// Run `ops` through the library on a fault-free disk (errors of individual ops are ignored).
pub fn build_from_ops(version: u16, ops: &[Op]) -> Result<Base, String> {
    crate::driver::set_clock(crate::ops::T { secs: 1_600_000_000, nanos: 0 });
    let disk = SimDisk::new(Vec::new());
    let mut lib = Lib::create(disk.clone(), version, None).map_err(|r| format!("create failed: {}", r.brief()))?;
    let mut older = None;
    for (i, op) in ops.iter().enumerate() {
        if i == ops.len() / 2 {
            older = Some(disk.snapshot());
        }
        if let Res::Panic(p) = lib.exec(op) {
            return Err(format!("BUILD-PANIC {}", p));
        }
    }
    for h in 0..4 {
        let _ = lib.exec(&Op::HDrop { h });
    }
    let dump = lib.dump(&[]).ok();
    lib.close();
    Ok(Base { image: disk.snapshot(), older, dump })
}

/// Images left by a crash (device gone) or a torn write at seam call `k` of the LAST op.
pub fn crash_images(version: u16, ops: &[Op], cap: usize, rng: &mut Rng) -> Vec<(String, Vec<u8>)> {
    let mut out = vec![];
    if ops.is_empty() {
        return out;
    }
    // reference: seam calls before and after the last op
    let count = |upto: usize| -> Option<u64> {
        let disk = SimDisk::new(Vec::new());
        let mut lib = Lib::create(disk.clone(), version, None).ok()?;
        for op in &ops[..upto] {
            let _ = lib.exec(op);
        }
        let k = disk.k();
        lib.crash();
        Some(k)
    };
    let (k0, k1) = match (count(ops.len() - 1), count(ops.len())) {
        (Some(a), Some(b)) => (a, b),
        _ => return out,
    };
    let n = (k1 - k0) as usize;
    let step = (n / cap.max(1)).max(1);
    let mut k = k0 + 1;
    while k <= k1 {
        for torn in [false, true] {
            let kind = if torn { FaultKind::Torn { keep: rng.below(8) as usize } } else { FaultKind::Crash };
            let mut plan = vec![Fault { k, kind }];
            if torn {
                plan.push(Fault { k: k + 1, kind: FaultKind::Crash });
            }
            let disk = SimDisk::with_plan(Vec::new(), plan);
            if let Ok(mut lib) = Lib::create(disk.clone(), version, None) {
                for op in ops {
                    let _ = lib.exec(op);
                }
                lib.crash();
                out.push((format!("crash image: {} at seam call {} (op {} of the build history, {})", if torn { "torn write" } else { "device gone" }, k, ops.len() - 1, ops[ops.len() - 1].kind()), disk.snapshot()));
            }
        }
        k += step as u64;
    }
    out
}

pub fn build_for_case(case: &Case) -> Result<Base, String> {
    match &case.init {
        crate::case::Init::Foreign { content_seed, max_entries, max_stream, plan } => {
            let mut rng = Rng::new(*content_seed);
            let mut content = crate::imgwr::gen_content(&mut rng, *max_entries, *max_stream);
            content.root.meta.created = 0;
            let image = crate::imgwr::write_image(&content, plan)?;
            Ok(Base { image, older: None, dump: Some(content) })
        }
        crate::case::Init::Image(b) => Ok(Base { image: b.clone(), older: None, dump: None }),
        crate::case::Init::Empty => build_from_ops(case.version, &case.ops),
    }
}
