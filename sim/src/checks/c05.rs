//! C05 — reading arbitrary bytes never panics, hangs or exhausts memory.

use super::images;
use super::{CheckDef, Tier};
use crate::case::{Case, Init, Outcome, Violation};
use crate::corrupt;
use crate::disk::SimDisk;
use crate::driver::{normalise_site, Lib};
use crate::imgck;
use crate::ops::{Op, Res, Whence};
use crate::prng::Rng;
use crate::supervisor::alloc_count;
use std::collections::BTreeSet;

pub fn def() -> CheckDef {
    CheckDef {
        id: "C05",
        level: "fault_enumeration",
        cases: |t| match t {
            Tier::Quick => 48,
            Tier::Thorough => 2_000,
        },
        gen,
        run,
        rule: "one case = one base image (a drawn history through the library, or a drawn layout by the independent writer; V3/V4; cases 0-8 are the fuzz regressions shipped with the crate, cases 9-16 share one 7.3 MB V3 base with a DIFAT sector whose corruptions are spread over them) and the ENUMERATION of every single-field corruption the independent parser can locate - every header field, used/first-unused/last DIFAT slots, every FAT and MiniFAT cell (capped), every field of every directory entry - times a value palette (0, 1, self, +-1, n-1, n, n+1, MAXREGSECT, the five special values, 63/64/4095/4096, 2^32, 2^63, u64::MAX, chain starts), plus truncation at every sector boundary +-1 and drawn offsets, extensions, bit flips biased to structural sectors, lost and misdirected sector writes, mid-operation crash / torn-write images of the last build operation at (a capped set of) seam calls, and drawn pairs of the above. Each damaged image is opened in both modes and, if accepted, walked, listed, every entry looked up, every stream read (read_to_end, fill_buf/consume, seeks to 0 / mid / len / len+1 / i64 and u64 extremes each followed by a read). Oracle: Ok or Err; no panic; per-call seam-step budget; peak live memory <= 64 MiB + 64 x image length. sub_runs = damaged images probed. Non-trivial: at least one damaged image was ACCEPTED by open and read; distinct = distinct damaged-image hashes. Bases include small foreign layouts with two or three DIFAT sectors (links between DIFAT sectors other than the first are corruptible).",
        assumptions: &["termination is judged by a seam-step budget per API call (1e6 + 200 per 64 bytes of image) and by the supervisor's CPU watchdog for loops that do no I/O", "uniformly random byte strings (which die at the signature check) are not the target; the 11 fuzz regressions shipped in /repo/tests are included as base images of the first cases"],
        cpu_limit_s: 600,
        fault_kinds: "F-FC field corruption (enumerated), F-BF bit flips, F-TR truncate/extend, F-LW lost write, F-MW misdirected write, F-CR/F-WT mid-operation crash images",
        count_subruns: true,
        expect_probes: &["damaged_images_accepted_by_open"],
    }
}

/// the corruptions of the (7 MB) DIFAT base are spread over this many cases
const DIFAT_SLICES: usize = 8;

const FUZZ_FILES: &[&str] = &[
    "infinite_loops_fuzzed/loop_in_alloc",
    "infinite_loops_fuzzed/loop_in_chain",
    "infinite_loops_fuzzed/loop_in_directory",
    "infinite_loops_fuzzed/loop_in_minialloc",
    "infinite_loops_fuzzed/loop_in_minichain",
    "infinite_loops_fuzzed/loop_in_open_1",
    "infinite_loops_fuzzed/loop_in_open_2",
    "panics_fuzzed/alloc_panic",
    "panics_fuzzed/minialloc_panic",
];

pub fn gen(seed: u64, idx: u64, tier: Tier) -> Case {
    let mut rng = Rng::for_case(seed, "C05", idx);
    let version = if rng.chance(1, 2) { 3 } else { 4 };
    let mut c = Case::new("C05", "enumerate", version);
    c.params.insert("seed".into(), (rng.next_u64() >> 2) as i64);
    if (idx as usize) < FUZZ_FILES.len() {
        c.mode = "fuzz-regression".into();
        c.params.insert("fuzz_file".into(), idx as i64);
        return c;
    }
    if (idx as usize) >= FUZZ_FILES.len() && (idx as usize) < FUZZ_FILES.len() + DIFAT_SLICES {
        c.params.insert("slice".into(), (idx as usize - FUZZ_FILES.len()) as i64);
        c.params.insert("nslices".into(), DIFAT_SLICES as i64);
        c.params.insert("seed".into(), 5); // the same base and the same enumeration for every slice
        // a V3 file with > 109 FAT sectors: DIFAT sectors and their chain become corruptible
        c.mode = "difat-base".into();
        c.version = 3;
        c.ops = vec![
            crate::ops::Op::WriteWhole { path: "/small".into(), len: 100, nonce: 1 },
            crate::ops::Op::HCreate { h: 0, path: "/big".into() },
            crate::ops::Op::HSetLen { h: 0, n: 7_250_000 },
            crate::ops::Op::HDrop { h: 0 },
            crate::ops::Op::WriteWhole { path: "/mid".into(), len: 5000, nonce: 3 },
        ];
        return c;
    }
    if idx % 4 == 3 {
        // foreign layout as base
        c.mode = "foreign-base".into();
        let mut plan = crate::imgwr::plan_from_seed(rng.next_u64(), version);
        plan.v3_size_high_garbage = false;
        // (these bases are 120-190 KB and cost ~20 s each: 4 in the quick tier, 1 base in 64 in the thorough tier)
        if idx % 8 == 7 && (tier == Tier::Quick || idx % 64 == 7) {
            // a small version-3 file whose writer set aside enough FAT sectors for TWO (sometimes
            // three) DIFAT sectors: links between DIFAT sectors other than the first become
            // corruptible (cycles that do not pass through the first DIFAT sector)
            c.version = 3;
            plan = crate::imgwr::plan_from_seed(rng.next_u64(), 3);
            plan.v3_size_high_garbage = false;
            plan.total_fat_sectors = 237 + rng.below(140) as u32;
        }
        c.init = Init::Foreign { content_seed: rng.next_u64(), max_entries: 12, max_stream: 9000, plan };
    } else {
        c.ops = images::gen_build_ops(&mut rng, version);
    }
    c
}

pub struct Probe {
    pub violation: Option<(String, String, String)>,
    pub accepted: bool,
    pub seam: u64,
}

/// The read-only workload of C05 on one byte string.
pub fn probe(bytes: &[u8], bufsize: Option<usize>) -> Probe {
    let mut out = Probe { violation: None, accepted: false, seam: 0 };
    let base_live = alloc_count::reset_peak();
    let limit = (64usize << 20) + 64 * bytes.len();
    for strict in [false, true] {
        let disk = SimDisk::new(bytes.to_vec());
        disk.0.borrow_mut().budget = 1_000_000 + 200 * (bytes.len() as u64 / 64);
        let mode = if strict { "open_strict" } else { "open" };
        let mut lib = match Lib::open(disk.clone(), strict, bufsize) {
            Ok(l) => l,
            Err(Res::Panic(p)) => {
                out.violation = Some(("panic".into(), normalise_site(&p), format!("{} panicked: {}", mode, p)));
                return out;
            }
            Err(Res::Hang) => {
                out.violation = Some(("hang".into(), mode.into(), format!("{} exceeded its seam-step budget", mode)));
                return out;
            }
            Err(_) => {
                out.seam += disk.k();
                continue;
            }
        };
        out.accepted = true;
        lib.budget_base = 1_000_000;
        let mut ops: Vec<Op> = vec![Op::Walk, Op::ReadRoot, Op::RootEntry];
        let mut paths: Vec<(String, bool, u64)> = vec![];
        if let Res::Listing(l) = lib.exec(&Op::Walk) {
            for e in l.iter().take(64) {
                paths.push((e.path.clone(), e.is_stream, e.len));
            }
        }
        for (p, is_stream, len) in &paths {
            ops.push(Op::Entry(p.clone()));
            ops.push(Op::Exists(p.clone()));
            if !*is_stream {
                ops.push(Op::ReadStorage(p.clone()));
                ops.push(Op::WalkStorage(p.clone()));
            } else {
                ops.push(Op::HOpen { h: 0, path: p.clone() });
                ops.push(Op::HLen { h: 0 });
                ops.push(Op::HReadFull { h: 0, n: 4096 });
                ops.push(Op::HFillBuf { h: 0 });
                ops.push(Op::HConsume { h: 0, n: 10 });
                for (w, off, uoff) in [
                    (Whence::Start, 0i64, 0u64),
                    (Whence::Start, 0, *len / 2),
                    (Whence::Start, 0, *len),
                    (Whence::Start, 0, len.wrapping_add(1)),
                    (Whence::End, i64::MIN, 0),
                    (Whence::Current, i64::MIN, 0),
                    (Whence::Current, i64::MAX, 0),
                    (Whence::Start, 0, u64::MAX),
                    (Whence::End, -1, 0),
                    // relative seeks FROM the end of a stream whose (possibly corrupted) length is
                    // close to 2^63 / 2^64: position + offset must not be computed blindly
                    (Whence::Start, 0, *len),
                    (Whence::Current, i64::MAX, 0),
                    (Whence::End, 0, 0),
                    (Whence::Current, i64::MAX, 0),
                    (Whence::End, 0, 0),
                    (Whence::Current, 1, 0),
                    (Whence::Start, 0, *len - (*len).min(1)),
                    (Whence::Current, i64::MAX, 0),
                ] {
                    ops.push(Op::HSeek { h: 0, whence: w, off, uoff });
                    ops.push(Op::HRead { h: 0, n: 100 });
                }
                ops.push(Op::HDrop { h: 0 });
                // read_to_end through a second handle
                ops.push(Op::ReadWhole(p.clone()));
            }
        }
        for op in &ops {
            match lib.exec(op) {
                Res::Panic(p) => {
                    out.violation = Some(("panic".into(), normalise_site(&p), format!("after {}: {} panicked: {}", mode, op.to_json(), p)));
                    lib.crash();
                    return out;
                }
                Res::Hang => {
                    out.violation = Some(("hang".into(), op.kind().into(), format!("after {}: {} exceeded its seam-step budget", mode, op.to_json())));
                    lib.crash();
                    return out;
                }
                _ => {}
            }
        }
        out.seam += disk.k();
        lib.close();
        let peak = alloc_count::peak().saturating_sub(base_live);
        if peak > limit {
            out.violation = Some(("memory".into(), mode.into(), format!("peak live memory {} bytes for a {}-byte input (limit {})", peak, bytes.len(), limit)));
            return out;
        }
    }
    out
}

/// A damaged image, produced on demand (bases can be several MB).
pub enum Damage {
    One(corrupt::Mutation),
    Two(corrupt::Mutation, corrupt::Mutation),
    Image(String, Vec<u8>),
}

impl Damage {
    pub fn desc(&self) -> String {
        match self {
            Damage::One(m) => m.desc.clone(),
            Damage::Two(a, b) => format!("{} + {}", a.desc, b.desc),
            Damage::Image(d, _) => d.clone(),
        }
    }
    pub fn kind(&self) -> &'static str {
        match self {
            Damage::One(m) => m.kind,
            Damage::Two(a, _) => a.kind,
            Damage::Image(..) => "F-CR",
        }
    }
    pub fn image(&self, base: &[u8]) -> Vec<u8> {
        match self {
            Damage::One(m) => m.apply(base),
            Damage::Two(a, b) => b.apply(&a.apply(base)),
            Damage::Image(_, i) => i.clone(),
        }
    }
}

pub fn all_mutations(base: &images::Base, case: &Case, rng: &mut Rng, thorough_caps: bool) -> Vec<Damage> {
    let p = imgck::check(&base.image);
    let l = &p.layout;
    let mut out: Vec<Damage> = vec![];
    let big = base.image.len() > (1 << 20);
    let (cc, ce) = if big { (40, 12) } else if thorough_caps { (400, 64) } else { (96, 24) };
    if l.sector_len > 0 {
        let fm = corrupt::field_mutations(&base.image, l, cc, ce);
        // drawn pairs of field corruptions
        let mut pairs = vec![];
        if fm.len() > 2 {
            for _ in 0..(fm.len() / 8).min(300) {
                let a = fm[rng.usize_below(fm.len())].clone();
                let b = fm[rng.usize_below(fm.len())].clone();
                pairs.push(Damage::Two(a, b));
            }
        }
        for m in fm {
            out.push(Damage::One(m));
        }
        out.extend(pairs);
        for m in corrupt::bulk_mutations(&base.image, l, base.older.as_deref(), rng, if big { 20 } else { 60 }) {
            // extensions / misdirected writes carry whole sectors only: fine for big bases too
            out.push(Damage::One(m));
        }
    } else {
        // unparseable base (fuzz regressions): flips and truncations only
        let fake = imgck::Layout { sector_len: 512, ..Default::default() };
        for m in corrupt::bulk_mutations(&base.image, &fake, None, rng, 200) {
            out.push(Damage::One(m));
        }
    }
    if matches!(case.init, Init::Empty) && !case.ops.is_empty() && !big {
        for (d, img) in images::crash_images(case.version, &case.ops, 40, rng) {
            out.push(Damage::Image(d, img));
        }
    }
    out
}

pub fn base_of(case: &Case) -> Result<images::Base, String> {
    if case.mode == "fuzz-regression" {
        let f = FUZZ_FILES[case.param("fuzz_file", 0) as usize % FUZZ_FILES.len()];
        let bytes = std::fs::read(format!("/repo/tests/{}", f)).map_err(|e| format!("cannot read fuzz regression {}: {}", f, e))?;
        return Ok(images::Base { image: bytes, older: None, dump: None });
    }
    images::build_for_case(case)
}

pub fn run(case: &Case, _known: &BTreeSet<String>) -> Outcome {
    let mut o = Outcome::default();
    let bufsize = *Rng::new(case.param("seed", 1) as u64).pick(crate::gen::BUFSIZES);
    let report = |o: &mut Outcome, v: (String, String, String), desc: &str, img: &[u8]| {
        let mut rc = Case::new("C05", "single-image", case.version);
        rc.init = Init::Image(img.to_vec());
        rc.params.insert("seed".into(), case.param("seed", 1));
        o.replay_case = Some(rc);
        o.violations.push(Violation { property: "C05".into(), rule: v.0, site: v.1, msg: format!("[{}] {}", desc, v.2), step: 0 });
    };
    if case.mode == "single-image" {
        if let Init::Image(b) = &case.init {
            let p = probe(b, bufsize);
            o.stats.sub_runs += 1;
            o.stats.seam_events += p.seam;
            if let Some(v) = p.violation {
                report(&mut o, v, "explicit image", b);
            }
        }
        return o;
    }
    let base = match base_of(case) {
        Ok(b) => b,
        Err(e) => {
            if e.starts_with("BUILD-PANIC") {
                o.stats.probe("base_unusable(other property)");
            } else {
                o.harness_error = Some(e);
            }
            return o;
        }
    };
    // big bases: the default buffer (with a 1 KiB buffer every refill re-walks the whole
    // 14 000-sector chain, which makes each probe take seconds without testing anything new)
    let bufsize = if base.image.len() > (1 << 20) { None } else { bufsize };
    let mut rng = Rng::new(case.param("seed", 1) as u64 ^ 0x55);
    // the undamaged base first
    let p0 = probe(&base.image, bufsize);
    o.stats.sub_runs += 1;
    o.stats.seam_events += p0.seam;
    if let Some(v) = p0.violation {
        report(&mut o, v, "undamaged base", &base.image);
        return o;
    }
    let muts = all_mutations(&base, case, &mut rng, false);
    let mut hashes: BTreeSet<u64> = BTreeSet::new();
    let mut accepted = 0u64;
    let mut marker = Case::new("C05", "single-image", case.version);
    marker.params.insert("seed".into(), case.param("seed", 1));
    let (slice, nslices) = (case.param("slice", 0) as usize, case.param("nslices", 1).max(1) as usize);
    for (mi, dmg) in muts.iter().enumerate() {
        if mi % nslices != slice {
            continue;
        }
        let img = &dmg.image(&base.image);
        let (desc, kind) = (&dmg.desc(), dmg.kind());
        crate::subcase::set(&marker, img);
        let p = probe(img, bufsize);
        o.stats.sub_runs += 1;
        o.stats.boundary_checks += 1;
        o.stats.seam_events += p.seam;
        *o.stats.faults_fired.entry(kind.to_string()).or_insert(0) += 1;
        if p.accepted {
            accepted += 1;
            hashes.insert(crate::prng::fnv(img));
        }
        if let Some(v) = p.violation {
            report(&mut o, v, desc, img);
            break;
        }
    }
    o.stats.probe_n("damaged_images_accepted_by_open", accepted);
    o.stats.state_hashes = hashes.iter().copied().collect();
    o.stats.trace_hash = hashes.iter().fold(crate::prng::fnv(&base.image), |a, b| a ^ crate::prng::mix(*b));
    o.stats.ok_mutations = accepted;
    o.stats.nontrivial = accepted > 0;
    o
}
