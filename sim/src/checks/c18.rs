//! C18 — results do not depend on buffering, I/O chunking, backend or run.

use super::common::{self, Knobs, DEFAULT_KNOBS};
use super::{CheckDef, Tier};
use crate::case::{Case, Outcome, Violation};
use crate::disk::{Rates, SimDisk};
use crate::gen;
use crate::prng::Rng;
use crate::runner::{self, Ctx, Flags};
use std::collections::BTreeSet;

pub fn def() -> CheckDef {
    CheckDef {
        id: "C18",
        level: "exploration",
        cases: |t| match t {
            Tier::Quick => 5_000,
            Tier::Thorough => 60_000,
        },
        gen,
        run,
        rule: "one drawn history (structure, whole-stream writes and reads, handle scripts, metadata with the sim clock pinned per step; <= 30 ops) is executed under: (a) plain SimDisk, twice; (b) SimDisk with dense chunking faults - every read/write transfer may be cut short at a drawn point (p=0.3 each) or fail with a spurious Interrupted (p=0.2); (c) std::io::Cursor<Vec<u8>> and (d) a real std::fs::File in a scratch directory, both behind a pass-through seam; (e) every max_buffer_size of the palette and (f) the other format version. Oracle: (a)-(d) with equal version and buffer size: every API result identical and the final image byte-identical (under (b) no call may fail: each injected condition is one the Read/Write contracts allow); (e),(f): for scripts without single read()/write()/consume() calls all logical results and the final dumps are equal. sub_runs = executions. Non-trivial: >= 1 successful mutation and a chunking fault fired; distinct = distinct (seam log, final image) hash of the reference run.",
        assumptions: &["real file I/O goes to /verif/target/tmp and is removed afterwards; it is deterministic because the run is single-threaded"],
        cpu_limit_s: 60,
        fault_kinds: "F-SR short reads, F-SW short writes, F-EI interrupted calls (rate-based, dense); backends Cursor and std::fs::File",
        count_subruns: false,
        expect_probes: &[],
    }
}

pub fn flags() -> Flags {
    Flags { property: "C18", record_results: true, ..Default::default() }
}

pub fn gen(seed: u64, idx: u64, _tier: Tier) -> Case {
    let mut rng = Rng::for_case(seed, "C18", idx);
    let k = Knobs { max_ops: 30, near_miss: &[0, 10], big_one_in: 8, big_stream: 100_000, ..DEFAULT_KNOBS };
    let exact = rng.chance(1, 2);
    let mut w = match rng.below(3) {
        0 => gen::c01_weights(),
        1 => common::join_weights(gen::c01_weights(), gen::handle_weights()),
        _ => common::join_weights(common::join_weights(gen::c01_weights(), gen::handle_weights()), gen::meta_weights()),
    };
    if exact {
        for e in w.iter_mut() {
            if matches!(e.0, "h_read" | "h_write" | "h_consume") {
                e.1 = 0;
            }
        }
    }
    let mut c = common::standard_case("C18", "differential", &mut rng, &k, w);
    c.params.insert("exact".into(), exact as i64);
    c.params.insert("chunk_seed".into(), (rng.next_u64() >> 2) as i64);
    c
}

struct One {
    full: Vec<u64>,
    masked: Vec<u64>,
    image: Vec<u8>,
    dump_hash: Option<u64>,
    trace: u64,
    seam: u64,
    fired: std::collections::BTreeMap<&'static str, u64>,
    ok_mut: u64,
    stopped: bool,
    states: Vec<u64>,
}

fn one(case: &Case, known: &BTreeSet<String>, disk: SimDisk, version: u16, bufsize: Option<usize>) -> Result<One, String> {
    let flags = flags();
    let mut c = case.clone();
    c.version = version;
    c.bufsize = bufsize;
    let mut ctx = Ctx::new(&flags, known);
    // the model only follows here (scope: nothing of the model is judged in C18)
    let mut w = runner::setup_on(&c, &flags, disk)?;
    runner::run_ops(&mut w, &c.ops, 0, &mut ctx);
    let stopped = ctx.stop;
    for h in 0..4 {
        let _ = w.lib.exec(&crate::ops::Op::HDrop { h });
    }
    let dump_hash = if stopped { None } else { w.lib.dump(&[]).ok().map(|d| crate::dump::hash_dump(&d)) };
    let image = w.lib.disk.snapshot();
    let (trace, seam, fired) = {
        let d = w.lib.disk.0.borrow();
        (d.hash.finish(), d.k, d.fired.clone())
    };
    w.lib.close();
    Ok(One { full: ctx.full_hashes, masked: ctx.res_hashes, image, dump_hash, trace, seam, fired, ok_mut: ctx.out.stats.ok_mutations, stopped, states: ctx.out.stats.state_hashes.clone() })
}

pub fn run(case: &Case, known: &BTreeSet<String>) -> Outcome {
    let mut o = Outcome::default();
    let v0 = case.version;
    let b0 = case.bufsize;
    let push = |o: &mut Outcome, rule: &str, site: &str, msg: String| {
        o.violations.push(Violation { property: "C18".into(), rule: rule.into(), site: site.into(), msg, step: 0 });
    };
    let reference = match one(case, known, SimDisk::new(Vec::new()), v0, b0) {
        Ok(r) => r,
        Err(e) => {
            o.harness_error = Some(e);
            return o;
        }
    };
    o.stats.sub_runs += 1;
    o.stats.seam_events += reference.seam;
    o.stats.ok_mutations = reference.ok_mut;
    o.stats.state_hashes = reference.states.clone();
    o.stats.trace_hash = reference.trace ^ crate::prng::mix(crate::prng::fnv(&reference.image));
    if reference.stopped {
        // the history diverges from the model on the plain disk: another property's business
        o.stats.probe("reference_diverged(other property)");
        return o;
    }
    let only = case.param("only_config", -1);
    let describe = |pos: Option<usize>| -> String {
        match pos {
            Some(p) => format!("first difference at call {} {}", p, case.ops.get(p).map(|x| x.to_json().to_string()).unwrap_or_default()),
            None => "same results, different length".into(),
        }
    };
    let first_diff = |a: &[u64], b: &[u64]| a.iter().zip(b.iter()).position(|(x, y)| x != y);
    // same-configuration comparisons
    let tmpdir = format!("/verif/target/tmp/c18-{}", std::process::id());
    let same_cfg: Vec<(&str, i64)> = vec![("repeat", 0), ("chunked", 1), ("cursor", 2), ("file", 3)];
    for (name, id) in same_cfg {
        if only >= 0 && only != id {
            continue;
        }
        let disk = match name {
            "repeat" => SimDisk::new(Vec::new()),
            "chunked" => {
                let d = SimDisk::new(Vec::new());
                d.0.borrow_mut().rates = Some(Rates { short_read: 300, short_write: 300, eintr: 200, rng: Rng::new(case.param("chunk_seed", 1) as u64) });
                d
            }
            "cursor" => SimDisk::with_cursor(),
            _ => {
                let _ = std::fs::create_dir_all(&tmpdir);
                let path = format!("{}/f.cfb", tmpdir);
                match std::fs::OpenOptions::new().read(true).write(true).create(true).truncate(true).open(&path) {
                    Ok(f) => SimDisk::with_file(f),
                    Err(e) => {
                        o.harness_error = Some(format!("cannot create scratch file: {}", e));
                        return o;
                    }
                }
            }
        };
        let r = match one(case, known, disk, v0, b0) {
            Ok(r) => r,
            Err(e) => {
                // creation failing under chunking faults is itself a difference
                push(&mut o, &format!("{}.create-fails", name), "create", format!("creating the file on backend '{}' failed: {}", name, e));
                let mut rc = case.clone();
                rc.params.insert("only_config".into(), id);
                o.replay_case = Some(rc);
                break;
            }
        };
        o.stats.sub_runs += 1;
        o.stats.seam_events += r.seam;
        o.stats.boundary_checks += 1;
        o.stats.absorb_fired(&r.fired);
        let mut bad: Option<(String, String)> = None;
        if r.full != reference.full {
            bad = Some((format!("{}.results-differ", name), format!("API results on backend '{}' differ from the plain run: {}", name, describe(first_diff(&r.full, &reference.full)))));
        } else if r.image != reference.image {
            let pos = r.image.iter().zip(reference.image.iter()).position(|(a, b)| a != b);
            bad = Some((format!("{}.image-differs", name), format!("final image on backend '{}' is not byte-identical to the plain run (lengths {} vs {}, first difference at byte {:?})", name, r.image.len(), reference.image.len(), pos)));
        } else if name == "repeat" && r.trace != reference.trace {
            bad = Some(("repeat.trace-differs".into(), "the seam event log of a repeated run differs".into()));
        }
        if let Some((rule, msg)) = bad {
            push(&mut o, &rule, "differential", msg);
            let mut rc = case.clone();
            rc.params.insert("only_config".into(), id);
            o.replay_case = Some(rc);
            break;
        }
    }
    let _ = std::fs::remove_dir_all(&tmpdir);
    // cross-configuration comparisons (logical outcome)
    if o.violations.is_empty() && case.param("exact", 0) == 1 && (only < 0 || only >= 10) {
        let mut id = 10;
        'cfg: for ver in [3u16, 4] {
            for b in gen::BUFSIZES {
                id += 1;
                if ver == v0 && *b == b0 {
                    continue;
                }
                if only >= 10 && only != id {
                    continue;
                }
                let r = match one(case, known, SimDisk::new(Vec::new()), ver, *b) {
                    Ok(r) => r,
                    Err(e) => {
                        o.harness_error = Some(e);
                        return o;
                    }
                };
                o.stats.sub_runs += 1;
                o.stats.seam_events += r.seam;
                o.stats.boundary_checks += 1;
                if r.stopped {
                    continue;
                }
                // version() results legitimately differ between versions: masked hashes of that op are excluded
                let filt = |v: &[u64]| -> Vec<u64> { v.iter().enumerate().filter(|(i, _)| !matches!(case.ops.get(*i), Some(crate::ops::Op::Version))).map(|(_, h)| *h).collect() };
                let (a, bb) = (filt(&r.masked), filt(&reference.masked));
                let label = format!("V{} max_buffer_size={:?}", ver, b);
                let mut bad = None;
                if a != bb {
                    bad = Some(("config.results-differ", format!("logical results under [{}] differ from [V{} max_buffer_size={:?}]: {}", label, v0, b0, describe(first_diff(&a, &bb)))));
                } else if r.dump_hash != reference.dump_hash {
                    bad = Some(("config.final-dump-differs", format!("final logical content under [{}] differs from [V{} max_buffer_size={:?}]", label, v0, b0)));
                }
                if let Some((rule, msg)) = bad {
                    push(&mut o, rule, "differential", msg);
                    let mut rc = case.clone();
                    rc.params.insert("only_config".into(), id);
                    o.replay_case = Some(rc);
                    break 'cfg;
                }
            }
        }
    }
    let chunk_fired: u64 = o.stats.faults_fired.values().sum();
    o.stats.nontrivial = o.stats.ok_mutations > 0 && (chunk_fired > 0 || only >= 0);
    o
}
