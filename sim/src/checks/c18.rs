//! C18 — results do not depend on buffering, I/O chunking, backend or run.

use super::common::{self, Knobs, DEFAULT_KNOBS};
use super::{CheckDef, Tier};
use crate::case::{Case, Outcome, Violation};
use crate::disk::{Rates, SimDisk};
use crate::gen;
use crate::prng::Rng;
use crate::runner::{self, Ctx, Flags};
use std::collections::BTreeSet;

pub fn def() -> CheckDef {
    CheckDef {
        id: "C18",
        level: "exploration",
        cases: |t| match t {
            Tier::Quick => 5_000,
            Tier::Thorough => 60_000,
        },
        gen,
        run,
        rule: "one drawn history (structure, whole-stream writes and reads, handle scripts, metadata with the sim clock pinned per step; <= 30 ops) is executed under: (a) plain SimDisk, twice; (b) SimDisk with dense chunking faults - every read/write transfer may be cut short at a drawn point (p=0.3 each) or fail with a spurious Interrupted (p=0.2); (c) std::io::Cursor<Vec<u8>> and (d) a real std::fs::File in a scratch directory, both behind a pass-through seam; (e) every max_buffer_size of the palette and (f) the other format version; (g) the path-based constructors: the final image stored in a real file and opened with cfb::open / open_rw and OpenOptions::[strict()][max_buffer_size(b)].open / open_rw (path) must expose exactly what open_with exposes for the same bytes and options (dump plus the count of one large read() per stream), and create(path) over an existing longer file followed by a fixed script must leave the bytes create_with leaves in memory. Oracle: (a)-(d) with equal version and buffer size: every API result identical and the final image byte-identical (under (b) no call may fail: each injected condition is one the Read/Write contracts allow); (e),(f): for scripts without single read()/write()/consume() calls all logical results and the final dumps are equal. sub_runs = executions. Non-trivial: >= 1 successful mutation and a chunking fault fired; distinct = distinct (seam log, final image) hash of the reference run.",
        assumptions: &["real file I/O goes to /verif/target/tmp and is removed afterwards; it is deterministic because the run is single-threaded"],
        cpu_limit_s: 300,
        fault_kinds: "F-SR short reads, F-SW short writes, F-EI interrupted calls (rate-based, dense); backends Cursor and std::fs::File",
        count_subruns: false,
        expect_probes: &[],
    }
}

pub fn flags() -> Flags {
    Flags { property: "C18", record_results: true, ..Default::default() }
}

/// A file written by another implementation, with DIFAT sectors, is opened, read completely and
/// written to on a plain disk and on a disk that cuts every transfer short / interrupts it: the
/// structures `open` reads (header, DIFAT sectors, FAT, directory, MiniFAT) must come out the
/// same however the reader splits them.  (The histories of the other cases start from `create`
/// and stay far below the 109 FAT sectors after which DIFAT sectors exist.)
fn gen_foreign(rng: &mut Rng) -> Case {
    let mut c = Case::new("C18", "foreign-chunked", 3);
    c.bufsize = *rng.pick(gen::BUFSIZES);
    let mut plan = crate::imgwr::plan_from_seed(rng.next_u64(), 3);
    plan.v3_size_high_garbage = false;
    plan.total_fat_sectors = 110 + rng.below(270) as u32;
    c.init = crate::case::Init::Foreign { content_seed: rng.next_u64(), max_entries: 12, max_stream: 9000, plan };
    c.params.insert("chunk_seed".into(), (rng.next_u64() >> 2) as i64 | 1);
    let mut nonce = 100u32;
    for i in 0..rng.range(1, 4) {
        nonce += 1;
        c.ops.push(crate::ops::Op::WriteWhole { path: format!("/c18-new{}", i), len: *rng.pick(&[0u64, 100, 5000, 70_000]), nonce });
    }
    c.ops.push(crate::ops::Op::CreateStorage("/c18-dir".into()));
    c
}

fn run_foreign(case: &Case) -> Outcome {
    use crate::driver::Lib;
    let mut o = Outcome::default();
    let (content_seed, max_entries, max_stream, plan) = match &case.init {
        crate::case::Init::Foreign { content_seed, max_entries, max_stream, plan } => (*content_seed, *max_entries, *max_stream, plan.clone()),
        _ => return o,
    };
    let mut crng = Rng::new(content_seed);
    let mut content = crate::imgwr::gen_content(&mut crng, max_entries, max_stream);
    content.root.meta.created = 0;
    let image = match crate::imgwr::write_image(&content, &plan) {
        Ok(i) => i,
        Err(e) => {
            o.harness_error = Some(format!("imgwr refused its own content: {}", e));
            return o;
        }
    };
    // (results, final dump hash, final image, fired)
    let exec = |chunked: bool, strict: bool| -> Result<(Vec<u64>, u64, Vec<u8>, u64), String> {
        crate::driver::set_clock(crate::ops::T { secs: 1_600_000_000, nanos: 0 });
        let disk = SimDisk::new(image.clone());
        if chunked {
            disk.0.borrow_mut().rates = Some(crate::disk::Rates { short_read: 300, short_write: 300, eintr: 200, rng: Rng::new(case.param("chunk_seed", 1) as u64) });
        }
        let mut lib = Lib::open(disk.clone(), strict, case.bufsize).map_err(|r| format!("open{} fails: {}", if strict { "_strict" } else { "" }, r.brief()))?;
        lib.budget_base = 4_000_000;
        let d0 = lib.dump(&[]).map_err(|r| format!("dump fails: {}", r.brief()))?;
        let mut res = vec![crate::dump::hash_dump(&d0)];
        for op in case.ops.iter() {
            let got = lib.exec(op);
            let mut h = crate::prng::Fnv::new();
            got.hash_into(&mut h);
            res.push(h.finish());
        }
        let d1 = lib.dump(&[]).map_err(|r| format!("final dump fails: {}", r.brief()))?;
        let fired: u64 = disk.0.borrow().fired.values().sum();
        let img = disk.snapshot();
        lib.close();
        Ok((res, crate::dump::hash_dump(&d1), img, fired))
    };
    for strict in [false, true] {
        let plain = match exec(false, strict) {
            Ok(x) => x,
            Err(_) => {
                o.stats.probe("reference_diverged(other property)");
                return o;
            }
        };
        o.stats.sub_runs += 2;
        match exec(true, strict) {
            Err(e) => {
                o.violations.push(Violation { property: "C18".into(), rule: "chunked.foreign-fails".into(), site: "differential".into(), msg: format!("a foreign file with {} FAT sectors: on a disk that splits / interrupts transfers, {} (the plain disk succeeds)", plan.total_fat_sectors, e), step: 0 });
                return o;
            }
            Ok(ch) => {
                *o.stats.faults_fired.entry("F-SR/F-SW/F-EI".into()).or_insert(0) += ch.3;
                if ch.0 != plain.0 || ch.1 != plain.1 {
                    let pos = ch.0.iter().zip(plain.0.iter()).position(|(a, b)| a != b);
                    o.violations.push(Violation { property: "C18".into(), rule: "chunked.foreign-results-differ".into(), site: "differential".into(), msg: format!("a foreign file with {} FAT sectors opened {}: results on a disk that splits / interrupts transfers differ from the plain disk (first difference at result {:?}; 0 = the dump right after open)", plan.total_fat_sectors, if strict { "strictly" } else { "permissively" }, pos), step: 0 });
                    return o;
                }
                if ch.2 != plain.2 {
                    o.violations.push(Violation { property: "C18".into(), rule: "chunked.foreign-image-differs".into(), site: "differential".into(), msg: "same results, but the final image on the chunking disk differs from the plain disk's".into(), step: 0 });
                    return o;
                }
                o.stats.trace_hash ^= crate::prng::mix(crate::prng::fnv(&plain.2));
            }
        }
    }
    o.stats.state_hashes = vec![o.stats.trace_hash];
    o.stats.ok_mutations = 1;
    o.stats.nontrivial = true;
    o.stats.probe("foreign_difat_under_chunking");
    o
}

pub fn gen(seed: u64, idx: u64, _tier: Tier) -> Case {
    let mut rng = Rng::for_case(seed, "C18", idx);
    if idx % 16 == 11 {
        return gen_foreign(&mut rng);
    }
    let k = Knobs { max_ops: 30, near_miss: &[0, 10], big_one_in: 8, big_stream: 100_000, ..DEFAULT_KNOBS };
    let exact = rng.chance(1, 2);
    let mut w = match rng.below(3) {
        0 => gen::c01_weights(),
        1 => common::join_weights(gen::c01_weights(), gen::handle_weights()),
        _ => common::join_weights(common::join_weights(gen::c01_weights(), gen::handle_weights()), gen::meta_weights()),
    };
    if exact {
        for e in w.iter_mut() {
            if matches!(e.0, "h_read" | "h_write" | "h_consume") {
                e.1 = 0;
            }
        }
    }
    let mut c = common::standard_case("C18", "differential", &mut rng, &k, w);
    c.params.insert("exact".into(), exact as i64);
    c.params.insert("chunk_seed".into(), (rng.next_u64() >> 2) as i64);
    c
}

struct One {
    full: Vec<u64>,
    masked: Vec<u64>,
    image: Vec<u8>,
    dump_hash: Option<u64>,
    trace: u64,
    seam: u64,
    fired: std::collections::BTreeMap<&'static str, u64>,
    ok_mut: u64,
    stopped: bool,
    states: Vec<u64>,
}

fn one(case: &Case, known: &BTreeSet<String>, disk: SimDisk, version: u16, bufsize: Option<usize>) -> Result<One, String> {
    let flags = flags();
    let mut c = case.clone();
    c.version = version;
    c.bufsize = bufsize;
    let mut ctx = Ctx::new(&flags, known);
    // the model only follows here (scope: nothing of the model is judged in C18)
    let mut w = runner::setup_on(&c, &flags, disk)?;
    runner::run_ops(&mut w, &c.ops, 0, &mut ctx);
    let stopped = ctx.stop;
    for h in 0..4 {
        let _ = w.lib.exec(&crate::ops::Op::HDrop { h });
    }
    let dump_hash = if stopped { None } else { w.lib.dump(&[]).ok().map(|d| crate::dump::hash_dump(&d)) };
    let image = w.lib.disk.snapshot();
    let (trace, seam, fired) = {
        let d = w.lib.disk.0.borrow();
        (d.hash.finish(), d.k, d.fired.clone())
    };
    w.lib.close();
    Ok(One { full: ctx.full_hashes, masked: ctx.res_hashes, image, dump_hash, trace, seam, fired, ok_mut: ctx.out.stats.ok_mutations, stopped, states: ctx.out.stats.state_hashes.clone() })
}

/// (g): the final image of the history, stored in a real file, is opened through every
/// path-based constructor with the case's options; each must expose exactly what `open_with`
/// exposes for the same bytes and options (dump, and the count of one large read() per stream,
/// which depends on max_buffer_size).  `create(path)` over an existing longer file followed by a
/// small fixed script must leave the bytes `create_with` leaves in memory.
fn path_config(case: &Case, image: &[u8], b0: Option<usize>, o: &mut Outcome) -> Option<(String, String)> {
    use crate::pathapi;
    let scratch = match pathapi::Scratch::new("c18p") {
        Ok(s) => s,
        Err(e) => {
            o.harness_error = Some(e);
            return None;
        }
    };
    let path = match scratch.put("g.cfb", image) {
        Ok(p) => p,
        Err(e) => {
            o.harness_error = Some(e);
            return None;
        }
    };
    let show = |r: &Result<pathapi::Seen, crate::ops::Res>| match r {
        Ok(s) => format!("Ok(dump {:016x}, first reads {:?})", crate::dump::hash_dump(&s.dump), s.first_reads.iter().take(6).collect::<Vec<_>>()),
        Err(e) => e.brief(),
    };
    let same = |a: &Result<pathapi::Seen, crate::ops::Res>, b: &Result<pathapi::Seen, crate::ops::Res>| match (a, b) {
        (Ok(x), Ok(y)) => x == y,
        (Err(_), Err(_)) => true,
        _ => false,
    };
    for strict in [false, true] {
        let want = pathapi::open_bytes(image, strict, b0);
        for rw in [false, true] {
            let got = pathapi::open_path(&path, strict, rw, b0);
            o.stats.sub_runs += 1;
            o.stats.boundary_checks += 1;
            if !same(&got, &want) {
                return Some((
                    "path.open-differs".into(),
                    format!(
                        "OpenOptions::new(){}{}.{}(path) on a real file holding the final image gives {} but open_with on the same bytes and options gives {}",
                        if strict { ".strict()" } else { "" },
                        b0.map(|b| format!(".max_buffer_size({})", b)).unwrap_or_default(),
                        if rw { "open_rw" } else { "open" },
                        show(&got),
                        show(&want)
                    ),
                ));
            }
        }
    }
    let want = pathapi::open_bytes(image, false, None);
    for rw in [false, true] {
        let got = pathapi::open_free(&path, rw);
        o.stats.sub_runs += 1;
        if !same(&got, &want) {
            return Some(("path.open-differs".into(), format!("cfb::{}(path) gives {} but OpenOptions::new().open_with on the same bytes gives {}", if rw { "open_rw" } else { "open" }, show(&got), show(&want))));
        }
    }
    // create over an existing, longer file
    let len = (case.param("chunk_seed", 1) as u64 % 9000) as usize;
    let data = crate::prng::pattern(case.param("chunk_seed", 1) as u32, 0, len);
    fn script<F: std::io::Read + std::io::Write + std::io::Seek>(cf: &mut cfb::CompoundFile<F>, data: &[u8]) -> std::io::Result<()> {
        use std::io::Write;
        cf.create_storage("/s")?;
        let mut st = cf.create_stream("/s/x")?;
        st.write_all(data)?;
        st.flush()?;
        drop(st);
        cf.create_stream("/y")?.write_all(&data[..data.len().min(100)])
    }
    for free_fn in [false, true] {
        let bs = if free_fn { None } else { b0 };
        crate::driver::set_clock(crate::ops::T { secs: 1_600_000_000, nanos: 0 });
        let want = pathapi::create_bytes(bs, |cf| script(cf, &data));
        let cpath = match scratch.put("c.cfb", &vec![0xA5u8; 40_000]) {
            Ok(p) => p,
            Err(e) => {
                o.harness_error = Some(e);
                return None;
            }
        };
        crate::driver::set_clock(crate::ops::T { secs: 1_600_000_000, nanos: 0 });
        let got = pathapi::create_path(&cpath, free_fn, bs, |cf| script(cf, &data));
        o.stats.sub_runs += 1;
        o.stats.boundary_checks += 1;
        let api = if free_fn { "cfb::create(path)".to_string() } else { "OpenOptions::create(path)".to_string() };
        match (&got, &want) {
            (Ok(g), Ok(w)) if g == w => {}
            (Ok(g), Ok(w)) => {
                return Some(("path.create-differs".into(), format!("{} over an existing 40000-byte file, then a fixed script ({} bytes), leaves {} bytes; create_with in memory leaves {} bytes (first difference at {:?})", api, len, g.len(), w.len(), g.iter().zip(w.iter()).position(|(a, b)| a != b))))
            }
            (Err(a), Err(_)) => {
                let _ = a;
            }
            (a, b) => {
                return Some(("path.create-differs".into(), format!("{}: {} vs create_with: {}", api, a.as_ref().map(|v| format!("Ok({} bytes)", v.len())).unwrap_or_else(|e| e.brief()), b.as_ref().map(|v| format!("Ok({} bytes)", v.len())).unwrap_or_else(|e| e.brief()))))
            }
        }
    }
    o.stats.probe("path_api_configs");
    None
}

pub fn run(case: &Case, known: &BTreeSet<String>) -> Outcome {
    if case.mode == "foreign-chunked" {
        return run_foreign(case);
    }
    let mut o = Outcome::default();
    let v0 = case.version;
    let b0 = case.bufsize;
    let push = |o: &mut Outcome, rule: &str, site: &str, msg: String| {
        o.violations.push(Violation { property: "C18".into(), rule: rule.into(), site: site.into(), msg, step: 0 });
    };
    let reference = match one(case, known, SimDisk::new(Vec::new()), v0, b0) {
        Ok(r) => r,
        Err(e) => {
            o.harness_error = Some(e);
            return o;
        }
    };
    o.stats.sub_runs += 1;
    o.stats.seam_events += reference.seam;
    o.stats.ok_mutations = reference.ok_mut;
    o.stats.state_hashes = reference.states.clone();
    o.stats.trace_hash = reference.trace ^ crate::prng::mix(crate::prng::fnv(&reference.image));
    if reference.stopped {
        // the history diverges from the model on the plain disk: another property's business
        o.stats.probe("reference_diverged(other property)");
        return o;
    }
    let only = case.param("only_config", -1);
    let describe = |pos: Option<usize>| -> String {
        match pos {
            Some(p) => format!("first difference at call {} {}", p, case.ops.get(p).map(|x| x.to_json().to_string()).unwrap_or_default()),
            None => "same results, different length".into(),
        }
    };
    let first_diff = |a: &[u64], b: &[u64]| a.iter().zip(b.iter()).position(|(x, y)| x != y);
    // same-configuration comparisons
    let tmpdir = format!("{}/target/tmp/c18-{}", crate::supervisor::verif_dir(), std::process::id());
    let same_cfg: Vec<(&str, i64)> = vec![("repeat", 0), ("chunked", 1), ("cursor", 2), ("file", 3)];
    for (name, id) in same_cfg {
        if only >= 0 && only != id {
            continue;
        }
        let disk = match name {
            "repeat" => SimDisk::new(Vec::new()),
            "chunked" => {
                let d = SimDisk::new(Vec::new());
                d.0.borrow_mut().rates = Some(Rates { short_read: 300, short_write: 300, eintr: 200, rng: Rng::new(case.param("chunk_seed", 1) as u64) });
                d
            }
            "cursor" => SimDisk::with_cursor(),
            _ => {
                let _ = std::fs::create_dir_all(&tmpdir);
                let path = format!("{}/f.cfb", tmpdir);
                match std::fs::OpenOptions::new().read(true).write(true).create(true).truncate(true).open(&path) {
                    Ok(f) => SimDisk::with_file(f),
                    Err(e) => {
                        o.harness_error = Some(format!("cannot create scratch file: {}", e));
                        return o;
                    }
                }
            }
        };
        let r = match one(case, known, disk, v0, b0) {
            Ok(r) => r,
            Err(e) => {
                // creation failing under chunking faults is itself a difference
                push(&mut o, &format!("{}.create-fails", name), "create", format!("creating the file on backend '{}' failed: {}", name, e));
                let mut rc = case.clone();
                rc.params.insert("only_config".into(), id);
                o.replay_case = Some(rc);
                break;
            }
        };
        o.stats.sub_runs += 1;
        o.stats.seam_events += r.seam;
        o.stats.boundary_checks += 1;
        o.stats.absorb_fired(&r.fired);
        let mut bad: Option<(String, String)> = None;
        if r.full != reference.full {
            bad = Some((format!("{}.results-differ", name), format!("API results on backend '{}' differ from the plain run: {}", name, describe(first_diff(&r.full, &reference.full)))));
        } else if r.image != reference.image {
            let pos = r.image.iter().zip(reference.image.iter()).position(|(a, b)| a != b);
            bad = Some((format!("{}.image-differs", name), format!("final image on backend '{}' is not byte-identical to the plain run (lengths {} vs {}, first difference at byte {:?})", name, r.image.len(), reference.image.len(), pos)));
        } else if name == "repeat" && r.trace != reference.trace {
            // same results, same bytes, but the underlying calls came in another order: the
            // property does not forbid that (it would make fault positions unrepeatable, which
            // is the harness's problem) - measured, not judged
            o.stats.probe("repeat_run_seam_log_differs");
        }
        if let Some((rule, msg)) = bad {
            push(&mut o, &rule, "differential", msg);
            let mut rc = case.clone();
            rc.params.insert("only_config".into(), id);
            o.replay_case = Some(rc);
            break;
        }
    }
    let _ = std::fs::remove_dir_all(&tmpdir);
    // (g) the path-based constructors on a real file vs the *_with constructors on memory
    if o.violations.is_empty() && (only < 0 || only == 4) {
        if let Some((rule, msg)) = path_config(case, &reference.image, b0, &mut o) {
            push(&mut o, &rule, "path-api", msg);
            let mut rc = case.clone();
            rc.params.insert("only_config".into(), 4);
            o.replay_case = Some(rc);
        }
    }
    // cross-configuration comparisons (logical outcome)
    if o.violations.is_empty() && case.param("exact", 0) == 1 && (only < 0 || only >= 10) {
        let mut id = 10;
        'cfg: for ver in [3u16, 4] {
            for b in gen::BUFSIZES {
                id += 1;
                if ver == v0 && *b == b0 {
                    continue;
                }
                if only >= 10 && only != id {
                    continue;
                }
                let r = match one(case, known, SimDisk::new(Vec::new()), ver, *b) {
                    Ok(r) => r,
                    Err(e) => {
                        o.harness_error = Some(e);
                        return o;
                    }
                };
                o.stats.sub_runs += 1;
                o.stats.seam_events += r.seam;
                o.stats.boundary_checks += 1;
                if r.stopped {
                    continue;
                }
                // version() results legitimately differ between versions: masked hashes of that op are excluded
                let filt = |v: &[u64]| -> Vec<u64> { v.iter().enumerate().filter(|(i, _)| !matches!(case.ops.get(*i), Some(crate::ops::Op::Version))).map(|(_, h)| *h).collect() };
                let (a, bb) = (filt(&r.masked), filt(&reference.masked));
                let label = format!("V{} max_buffer_size={:?}", ver, b);
                let mut bad = None;
                if a != bb {
                    bad = Some(("config.results-differ", format!("logical results under [{}] differ from [V{} max_buffer_size={:?}]: {}", label, v0, b0, describe(first_diff(&a, &bb)))));
                } else if r.dump_hash != reference.dump_hash {
                    bad = Some(("config.final-dump-differs", format!("final logical content under [{}] differs from [V{} max_buffer_size={:?}]", label, v0, b0)));
                }
                if let Some((rule, msg)) = bad {
                    push(&mut o, rule, "differential", msg);
                    let mut rc = case.clone();
                    rc.params.insert("only_config".into(), id);
                    o.replay_case = Some(rc);
                    break 'cfg;
                }
            }
        }
    }
    let chunk_fired: u64 = o.stats.faults_fired.values().sum();
    o.stats.nontrivial = o.stats.ok_mutations > 0 && (chunk_fired > 0 || only >= 0);
    o
}
