//! The file-backed constructors (`cfb::open`, `cfb::open_rw`, `cfb::create`,
//! `OpenOptions::{open, open_rw, create}`) on real files in a scratch directory
//! under /verif/target/tmp.  They take a path, so the SimDisk seam cannot sit
//! under them; they are compared differentially with the `*_with` constructors
//! on the same bytes.

use crate::driver::{clear_panic, dump_api, io_err, take_panic};
use crate::dump::Dump;
use crate::ops::Res;
use std::io::Read;
use std::panic::{catch_unwind, AssertUnwindSafe};

pub struct Scratch {
    dir: String,
}

impl Scratch {
    pub fn new(tag: &str) -> Result<Scratch, String> {
        let dir = format!("{}/target/tmp/{}-{}", crate::supervisor::verif_dir(), tag, std::process::id());
        std::fs::create_dir_all(&dir).map_err(|e| format!("cannot create scratch directory {}: {}", dir, e))?;
        Ok(Scratch { dir })
    }
    pub fn path(&self, name: &str) -> String {
        format!("{}/{}", self.dir, name)
    }
    pub fn put(&self, name: &str, bytes: &[u8]) -> Result<String, String> {
        let p = self.path(name);
        std::fs::write(&p, bytes).map_err(|e| format!("cannot write scratch file {}: {}", p, e))?;
        Ok(p)
    }
}

impl Drop for Scratch {
    fn drop(&mut self) {
        let _ = std::fs::remove_dir_all(&self.dir);
    }
}

fn options(strict: bool, bufsize: Option<usize>) -> cfb::OpenOptions {
    let mut o = cfb::OpenOptions::new();
    if let Some(b) = bufsize {
        o = o.max_buffer_size(b);
    }
    if strict {
        o = o.strict();
    }
    o
}

/// What one path-based open exposes: the dump, and for every stream (pre-order) the
/// count returned by ONE read() into a 70 000-byte buffer (depends on max_buffer_size).
#[derive(PartialEq, Eq, Debug)]
pub struct Seen {
    pub dump: Dump,
    pub first_reads: Vec<(String, usize)>,
}

fn look<F: std::io::Read + std::io::Seek>(cf: &mut cfb::CompoundFile<F>) -> Result<Seen, Res> {
    let dump = dump_api(cf, &[])?;
    let paths: Vec<String> = cf.walk().filter(|e| e.is_stream()).map(|e| e.path().to_string_lossy().replace('\\', "/")).collect();
    let mut first_reads = vec![];
    let mut buf = vec![0u8; 70_000];
    for p in paths {
        let mut s = cf.open_stream(&p).map_err(io_err)?;
        let n = s.read(&mut buf).map_err(io_err)?;
        first_reads.push((p, n));
    }
    Ok(Seen { dump, first_reads })
}

fn guarded<T>(f: impl FnOnce() -> Result<T, Res>) -> Result<T, Res> {
    clear_panic();
    let _w = crate::driver::callwatch::enter();
    match catch_unwind(AssertUnwindSafe(f)) {
        Ok(r) => r,
        Err(_) => Err(Res::Panic(take_panic())),
    }
}

/// `OpenOptions::new()[.strict()][.max_buffer_size(b)].open(path)` (or open_rw)
pub fn open_path(path: &str, strict: bool, rw: bool, bufsize: Option<usize>) -> Result<Seen, Res> {
    guarded(|| {
        let mut cf = if rw { options(strict, bufsize).open_rw(path) } else { options(strict, bufsize).open(path) }.map_err(io_err)?;
        look(&mut cf)
    })
}

/// the free functions `cfb::open(path)` / `cfb::open_rw(path)`
pub fn open_free(path: &str, rw: bool) -> Result<Seen, Res> {
    guarded(|| {
        let mut cf = if rw { cfb::open_rw(path) } else { cfb::open(path) }.map_err(io_err)?;
        look(&mut cf)
    })
}

/// the same bytes through `open_with` on a plain cursor
pub fn open_bytes(bytes: &[u8], strict: bool, bufsize: Option<usize>) -> Result<Seen, Res> {
    guarded(|| {
        let mut cf = options(strict, bufsize).open_with(std::io::Cursor::new(bytes.to_vec())).map_err(io_err)?;
        look(&mut cf)
    })
}

/// `cfb::create(path)` / `OpenOptions::create(path)`; returns the bytes of the file after drop
pub fn create_path(path: &str, free_fn: bool, bufsize: Option<usize>, then: impl FnOnce(&mut cfb::CompoundFile<std::fs::File>) -> std::io::Result<()>) -> Result<Vec<u8>, Res> {
    guarded(|| {
        let mut cf = if free_fn { cfb::create(path) } else { options(false, bufsize).create(path) }.map_err(io_err)?;
        then(&mut cf).map_err(io_err)?;
        cf.flush().map_err(io_err)?;
        drop(cf);
        std::fs::read(path).map_err(io_err)
    })
}

/// the same through `create_with` on a cursor
pub fn create_bytes(bufsize: Option<usize>, then: impl FnOnce(&mut cfb::CompoundFile<std::io::Cursor<Vec<u8>>>) -> std::io::Result<()>) -> Result<Vec<u8>, Res> {
    guarded(|| {
        let cur = std::io::Cursor::new(Vec::new());
        let mut cf = match bufsize {
            None => cfb::CompoundFile::create_with_version(cfb::Version::V4, cur),
            Some(_) => options(false, bufsize).create_with(cur),
        }
        .map_err(io_err)?;
        then(&mut cf).map_err(io_err)?;
        cf.flush().map_err(io_err)?;
        Ok(cf.into_inner().into_inner())
    })
}
