//! Logical content of a compound file, as seen through (a) the library's public
//! API, (b) the reference model, (c) the independent parser `imgck`, and as
//! given to (d) the independent writer `imgwr`.  All four speak this type so
//! they can be compared with `==` and diffed with `diff`.

/// Metadata of one directory entry, in on-disk units.
#[derive(Clone, Debug, PartialEq, Eq, Default)]
pub struct Meta {
    /// CLSID in canonical (RFC 4122 / `Uuid::as_bytes`) byte order.
    pub clsid: [u8; 16],
    pub state_bits: u32,
    /// 100 ns ticks since 1601-01-01.
    pub created: u64,
    pub modified: u64,
}

#[derive(Clone, Debug, PartialEq, Eq)]
pub struct Node {
    pub name: String,
    pub is_stream: bool,
    pub meta: Meta,
    /// Stream bytes (empty for storages).
    pub data: Vec<u8>,
    /// Children in listing order (empty for streams).
    pub children: Vec<Node>,
}

impl Node {
    pub fn storage(name: &str) -> Node {
        Node {
            name: name.to_string(),
            is_stream: false,
            meta: Meta::default(),
            data: Vec::new(),
            children: Vec::new(),
        }
    }
    pub fn stream(name: &str, data: Vec<u8>) -> Node {
        Node {
            name: name.to_string(),
            is_stream: true,
            meta: Meta::default(),
            data,
            children: Vec::new(),
        }
    }
    pub fn count(&self) -> usize {
        1 + self.children.iter().map(|c| c.count()).sum::<usize>()
    }
}

/// The whole file: `root.name` is "Root Entry", `root.is_stream` is false.
#[derive(Clone, Debug, PartialEq, Eq)]
pub struct Dump {
    pub root: Node,
}

impl Dump {
    pub fn empty() -> Dump {
        Dump { root: Node::storage("Root Entry") }
    }
}

fn short(data: &[u8]) -> String {
    let mut h: u64 = 0xcbf29ce484222325;
    for &b in data {
        h ^= b as u64;
        h = h.wrapping_mul(0x100000001b3);
    }
    format!("len={} fnv={:016x}", data.len(), h)
}

/// First difference between two dumps as a human-readable string.  `ignore_root_meta_times`
/// is never needed: the root's times are part of the logical content.
pub fn diff(a: &Dump, b: &Dump) -> Option<String> {
    diff_node("", &a.root, &b.root, true)
}

/// Like `diff` but skipping the contents/length of the streams whose full
/// paths (as produced by the dump, e.g. "/a/b") are listed in `skip`.
pub fn diff_except(a: &Dump, b: &Dump, skip: &[String]) -> Option<String> {
    diff_node_skip("", &a.root, &b.root, true, skip)
}

fn diff_node(path: &str, a: &Node, b: &Node, is_root: bool) -> Option<String> {
    diff_node_skip(path, a, b, is_root, &[])
}

fn diff_node_skip(
    path: &str,
    a: &Node,
    b: &Node,
    is_root: bool,
    skip: &[String],
) -> Option<String> {
    let here = if is_root { "/".to_string() } else { format!("{}/{}", path, a.name) };
    if a.name != b.name {
        return Some(format!("{}: name {:?} vs {:?}", here, a.name, b.name));
    }
    if a.is_stream != b.is_stream {
        return Some(format!("{}: is_stream {} vs {}", here, a.is_stream, b.is_stream));
    }
    if a.meta != b.meta {
        return Some(format!("{}: meta {:?} vs {:?}", here, a.meta, b.meta));
    }
    let skipped = skip.iter().any(|s| s == &here);
    if !skipped && a.data != b.data {
        let pos = a.data.iter().zip(b.data.iter()).position(|(x, y)| x != y);
        return Some(format!(
            "{}: data differs ({} vs {}; first mismatch at {:?})",
            here,
            short(&a.data),
            short(&b.data),
            pos
        ));
    }
    if a.children.len() != b.children.len()
        || a.children.iter().zip(b.children.iter()).any(|(x, y)| x.name != y.name)
    {
        let an: Vec<&str> = a.children.iter().map(|c| c.name.as_str()).collect();
        let bn: Vec<&str> = b.children.iter().map(|c| c.name.as_str()).collect();
        return Some(format!("{}: children {:?} vs {:?}", here, an, bn));
    }
    let sub = if is_root { String::new() } else { here.clone() };
    for (x, y) in a.children.iter().zip(b.children.iter()) {
        if let Some(d) = diff_node_skip(&sub, x, y, false, skip) {
            return Some(d);
        }
    }
    None
}

/// FNV-1a hash of the logical content (used for state counting / trace hashes).
pub fn hash_dump(d: &Dump) -> u64 {
    let mut h = crate::prng::Fnv::new();
    hash_node(&d.root, &mut h);
    h.finish()
}

fn hash_node(n: &Node, h: &mut crate::prng::Fnv) {
    h.write(n.name.as_bytes());
    h.write(&[n.is_stream as u8, 0xff]);
    h.write(&n.meta.clsid);
    h.write(&n.meta.state_bits.to_le_bytes());
    h.write(&n.meta.created.to_le_bytes());
    h.write(&n.meta.modified.to_le_bytes());
    h.write(&(n.data.len() as u64).to_le_bytes());
    h.write(&n.data);
    h.write(&(n.children.len() as u32).to_le_bytes());
    for c in &n.children {
        hash_node(c, h);
    }
}

/// Shape hash: names are ignored, sizes reduced to classes.  Used to count
/// distinct abstract states.
pub fn shape_hash(d: &Dump) -> u64 {
    fn class(len: usize) -> u8 {
        match len {
            0 => 0,
            1..=63 => 1,
            64 => 2,
            65..=4095 => 3,
            4096 => 4,
            4097..=65535 => 5,
            _ => 6,
        }
    }
    fn go(n: &Node, h: &mut crate::prng::Fnv) {
        h.write(&[n.is_stream as u8, class(n.data.len()), n.children.len() as u8]);
        for c in &n.children {
            go(c, h);
        }
    }
    let mut h = crate::prng::Fnv::new();
    go(&d.root, &mut h);
    h.finish()
}
