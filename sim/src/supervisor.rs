//! Supervisor / worker processes, watchdog, minimiser, replay, evidence.
//!
//! `cfbsim run --check Cxx --tier T` spawns W worker processes; worker `i`
//! executes cases `i, i+W, ...` sequentially.  A case is a pure function of
//! (seed, check, index), so results do not depend on W.

use crate::case::{Case, Stats, Violation};
use crate::checks::{self, CheckDef, Tier};
use serde_json::{json, Value};
use std::collections::{BTreeMap, BTreeSet, HashSet};
use std::io::{BufRead, BufReader, Read, Write};
use std::process::{Child, Command, Stdio};
use std::sync::mpsc;
use std::time::{Duration, Instant};

/// Home of the machinery: /verif, or the snapshot a background run works in (VERIF_HOME), so
/// that such a run reads ITS findings/witnesses and writes ITS replays, not the live ones.
pub fn verif_dir() -> String {
    std::env::var("VERIF_HOME").unwrap_or_else(|_| "/verif".to_string())
}

// ---------------------------------------------------------------------------
// counting allocator (peak live bytes per case)

pub mod alloc_count {
    use std::alloc::{GlobalAlloc, Layout, System};
    use std::sync::atomic::{AtomicUsize, Ordering};
    pub struct Counting;
    static CUR: AtomicUsize = AtomicUsize::new(0);
    static PEAK: AtomicUsize = AtomicUsize::new(0);
    unsafe impl GlobalAlloc for Counting {
        unsafe fn alloc(&self, l: Layout) -> *mut u8 {
            let p = System.alloc(l);
            if !p.is_null() {
                let c = CUR.fetch_add(l.size(), Ordering::Relaxed) + l.size();
                PEAK.fetch_max(c, Ordering::Relaxed);
            }
            p
        }
        unsafe fn dealloc(&self, p: *mut u8, l: Layout) {
            CUR.fetch_sub(l.size(), Ordering::Relaxed);
            System.dealloc(p, l)
        }
        unsafe fn realloc(&self, p: *mut u8, l: Layout, new: usize) -> *mut u8 {
            let q = System.realloc(p, l, new);
            if !q.is_null() {
                if new >= l.size() {
                    let c = CUR.fetch_add(new - l.size(), Ordering::Relaxed) + (new - l.size());
                    PEAK.fetch_max(c, Ordering::Relaxed);
                } else {
                    CUR.fetch_sub(l.size() - new, Ordering::Relaxed);
                }
            }
            q
        }
    }
    pub fn reset_peak() -> usize {
        let c = CUR.load(Ordering::Relaxed);
        PEAK.store(c, Ordering::Relaxed);
        c
    }
    pub fn peak() -> usize {
        PEAK.load(Ordering::Relaxed)
    }
}

// ---------------------------------------------------------------------------
// known findings

#[derive(Clone, Debug)]
pub struct Finding {
    pub property: String,
    pub sig: String,
    pub witness: String,
    pub text: String,
}

pub fn known_findings_path() -> String {
    std::env::var("VERIF_KNOWN").unwrap_or_else(|_| format!("{}/KNOWN_FINDINGS.txt", verif_dir()))
}

pub fn load_findings() -> Vec<Finding> {
    let mut out = vec![];
    let text = match std::fs::read_to_string(known_findings_path()) {
        Ok(t) => t,
        Err(_) => return out,
    };
    for line in text.lines() {
        let line = line.trim();
        if !line.starts_with("finding:") {
            continue;
        }
        let (head, txt) = match line.split_once("::") {
            Some((h, t)) => (h, t.trim()),
            None => (line, ""),
        };
        let mut f = Finding { property: String::new(), sig: String::new(), witness: String::new(), text: txt.to_string() };
        for tok in head["finding:".len()..].split_whitespace() {
            if let Some(v) = tok.strip_prefix("property=") {
                f.property = v.to_string();
            } else if let Some(v) = tok.strip_prefix("sig=") {
                f.sig = v.to_string();
            } else if let Some(v) = tok.strip_prefix("witness=") {
                f.witness = v.to_string();
            }
        }
        if !f.property.is_empty() && !f.sig.is_empty() {
            out.push(f);
        }
    }
    out
}

pub fn known_sigs(property: &str) -> BTreeSet<String> {
    load_findings().into_iter().filter(|f| f.property == property).map(|f| f.sig).collect()
}

// ---------------------------------------------------------------------------
// worker

fn seed_from_env() -> u64 {
    std::env::var("VERIF_SEED").ok().and_then(|s| s.parse().ok()).unwrap_or(1)
}

fn tmp_dir() -> String {
    let d = format!("{}/target/tmp", verif_dir());
    let _ = std::fs::create_dir_all(&d);
    d
}

pub struct Agg {
    pub cases: u64,
    pub stats: Stats,
    pub nontrivial_hashes: HashSet<u64>,
    pub state_hashes: HashSet<u64>,
    pub peak_mem: usize,
    /// largest CPU time one case needed in a worker (seconds) and its index: the headroom
    /// of the CPU watchdog is judged against this
    pub max_case_cpu: (f64, u64),
    pub max_call_cpu: f64,
    pub harness_errors: Vec<String>,
}

fn merge_stats(into: &mut Stats, s: &Stats) {
    into.seam_events += s.seam_events;
    into.api_calls += s.api_calls;
    into.ok_mutations += s.ok_mutations;
    into.boundary_checks += s.boundary_checks;
    into.inconclusive += s.inconclusive;
    into.sub_runs += s.sub_runs;
    into.clock_span_ticks = into.clock_span_ticks.max(s.clock_span_ticks);
    for (k, v) in &s.faults_fired {
        *into.faults_fired.entry(k.clone()).or_insert(0) += v;
    }
    for (k, v) in &s.probes {
        *into.probes.entry(k.clone()).or_insert(0) += v;
    }
    for (k, v) in &s.op_outcomes {
        *into.op_outcomes.entry(k.clone()).or_insert(0) += v;
    }
    for (k, v) in &s.known_hits {
        *into.known_hits.entry(k.clone()).or_insert(0) += v;
    }
}

fn stats_from_json(v: &Value) -> Stats {
    let mut s = Stats::default();
    let num = |k: &str| v[k].as_u64().unwrap_or(0);
    s.seam_events = num("seam_events");
    s.api_calls = num("api_calls");
    s.ok_mutations = num("ok_mutations");
    s.boundary_checks = num("boundary_checks");
    s.inconclusive = num("inconclusive");
    s.sub_runs = num("sub_runs");
    s.clock_span_ticks = v["clock_span_ticks"].as_str().and_then(|x| x.parse().ok()).unwrap_or(0);
    let map = |k: &str| -> BTreeMap<String, u64> {
        v[k].as_object().map(|o| o.iter().map(|(a, b)| (a.clone(), b.as_u64().unwrap_or(0))).collect()).unwrap_or_default()
    };
    s.faults_fired = map("faults_fired");
    s.probes = map("probes");
    s.op_outcomes = map("op_outcomes");
    s.known_hits = map("known_hits");
    s
}

fn own_cpu_seconds() -> f64 {
    let mut ts = libc::timespec { tv_sec: 0, tv_nsec: 0 };
    unsafe {
        libc::clock_gettime(libc::CLOCK_PROCESS_CPUTIME_ID, &mut ts);
    }
    ts.tv_sec as f64 + ts.tv_nsec as f64 * 1e-9
}

/// `cfbsim worker --check C --tier T --seed S --shard i/W [--start n] [--end n]`
pub fn worker_main(args: &[String]) -> i32 {
    let get = |k: &str| args.iter().position(|a| a == k).and_then(|i| args.get(i + 1)).cloned();
    let check = get("--check").expect("--check");
    let tier = if get("--tier").as_deref() == Some("thorough") { Tier::Thorough } else { Tier::Quick };
    let seed: u64 = get("--seed").and_then(|s| s.parse().ok()).unwrap_or(1);
    let shard = get("--shard").unwrap_or_else(|| "0/1".into());
    let (si, sw) = shard.split_once('/').unwrap();
    let (si, sw): (u64, u64) = (si.parse().unwrap(), sw.parse().unwrap());
    let start: u64 = get("--start").and_then(|s| s.parse().ok()).unwrap_or(0);
    let def = checks::get(&check).expect("unknown check");
    let total = get("--end").and_then(|s| s.parse().ok()).unwrap_or((def.cases)(tier));
    let known = known_sigs(def.id);
    crate::driver::install_panic_hook();
    crate::driver::callwatch::start(if tier == Tier::Thorough { 90 } else { 30 });
    // memory ceiling for the whole worker
    unsafe {
        let lim = libc::rlimit { rlim_cur: 6 << 30, rlim_max: 6 << 30 };
        libc::setrlimit(libc::RLIMIT_AS, &lim);
    }
    let out = std::io::stdout();
    let mut out = out.lock();
    let subfile = format!("{}/sub-{}.bin", tmp_dir(), std::process::id());
    if crate::subcase::init(&subfile) {
        writeln!(out, "SUBFILE {}", subfile).unwrap();
    }
    let mut agg = Stats::default();
    let mut nontrivial: HashSet<u64> = HashSet::new();
    let mut states: HashSet<u64> = HashSet::new();
    let mut cases = 0u64;
    let mut peak_mem = 0usize;
    let mut max_cpu = (0f64, 0u64);
    let mut samples = 0;
    let mut idx = start.max(si);
    // align to shard
    while idx % sw != si {
        idx += 1;
    }
    while idx < total {
        writeln!(out, "CASE {}", idx).unwrap();
        out.flush().unwrap();
        let case = (def.gen)(seed, idx, tier);
        alloc_count::reset_peak();
        crate::subcase::clear();
        let cpu0 = own_cpu_seconds();
        let o = (def.run)(&case, &known);
        let used = own_cpu_seconds() - cpu0;
        if used > max_cpu.0 {
            max_cpu = (used, idx);
        }
        crate::subcase::clear();
        let pk = alloc_count::peak();
        peak_mem = peak_mem.max(pk);
        cases += 1;
        merge_stats(&mut agg, &o.stats);
        for h in &o.stats.state_hashes {
            states.insert(*h);
        }
        if o.stats.nontrivial {
            nontrivial.insert(o.stats.trace_hash);
        }
        if let Some(e) = &o.harness_error {
            writeln!(out, "H {}", json!({"idx": idx, "error": e, "case": case.to_json()})).unwrap();
        }
        for v in &o.violations {
            let rc = o.replay_case.as_ref().unwrap_or(&case);
            writeln!(out, "V {}", json!({"idx": idx, "violation": v.to_json(), "case": rc.to_json()})).unwrap();
        }
        if samples < 2 && (o.stats.nontrivial || idx + sw >= total) && si == 0 {
            samples += 1;
            writeln!(out, "S {}", json!({"idx": idx, "case": case.to_json(), "stats": o.stats.to_json(), "violations": o.violations.len()})).unwrap();
        }
        if std::env::var("VERIF_TRACE").is_ok() {
            writeln!(out, "T {} {:016x}", idx, o.stats.trace_hash).unwrap();
        }
        idx += sw;
    }
    // sets go through files
    let tmp = tmp_dir();
    let pid = std::process::id();
    let nt_file = format!("{}/nt-{}-{}.bin", tmp, pid, si);
    let st_file = format!("{}/st-{}-{}.bin", tmp, pid, si);
    let dumpset = |path: &str, set: &HashSet<u64>| {
        let mut buf = Vec::with_capacity(set.len() * 8);
        for h in set {
            buf.extend_from_slice(&h.to_le_bytes());
        }
        let _ = std::fs::write(path, buf);
    };
    dumpset(&nt_file, &nontrivial);
    dumpset(&st_file, &states);
    agg.state_hashes.clear();
    let _ = std::fs::remove_file(&subfile);
    writeln!(out, "SUMMARY {}", json!({"cases": cases, "stats": agg.to_json(), "peak_mem": peak_mem, "max_cpu": max_cpu.0, "max_cpu_idx": max_cpu.1, "max_call": crate::driver::callwatch::max_call_seconds(), "nt_file": nt_file, "st_file": st_file})).unwrap();
    out.flush().unwrap();
    0
}

// ---------------------------------------------------------------------------
// executing a single explicit case in a fresh process

/// `cfbsim exec-case` : case JSON on stdin, prints `SIG <sig>` lines and `TRACE <hash>`
pub fn exec_case_main() -> i32 {
    let mut s = String::new();
    std::io::stdin().read_to_string(&mut s).unwrap();
    let v: Value = match serde_json::from_str(&s) {
        Ok(v) => v,
        Err(e) => {
            eprintln!("bad json: {}", e);
            return 2;
        }
    };
    let cv = if v.get("case").is_some() { &v["case"] } else { &v };
    let case = match Case::from_json(cv) {
        Ok(c) => c,
        Err(e) => {
            eprintln!("bad case: {}", e);
            return 2;
        }
    };
    let def = match checks::get(&case.check) {
        Some(d) => d,
        None => {
            eprintln!("unknown check {}", case.check);
            return 2;
        }
    };
    crate::driver::install_panic_hook();
    crate::driver::callwatch::start(90);
    unsafe {
        let lim = libc::rlimit { rlim_cur: 6 << 30, rlim_max: 6 << 30 };
        libc::setrlimit(libc::RLIMIT_AS, &lim);
        let cpu = libc::rlimit { rlim_cur: 3600, rlim_max: 3600 };
        libc::setrlimit(libc::RLIMIT_CPU, &cpu);
    }
    let known: BTreeSet<String> = if std::env::var("VERIF_IGNORE_KNOWN").is_ok() { BTreeSet::new() } else { known_sigs(def.id) };
    println!("START");
    let o = (def.run)(&case, &known);
    for vi in &o.violations {
        println!("SIG {}", vi.sig());
        println!("MSG {}", vi.msg.replace('\n', " "));
    }
    if let Some(e) = &o.harness_error {
        println!("HARNESS {}", e);
    }
    println!("TRACE {:016x}", o.stats.trace_hash);
    println!("DONE");
    if o.violations.is_empty() {
        0
    } else {
        1
    }
}

/// Binary used for worker / exec-case subprocesses (None = this executable).  The thorough
/// tier switches it to the build without debug assertions and overflow checks for its
/// second batch.
static EXE_OVERRIDE: std::sync::Mutex<Option<std::path::PathBuf>> = std::sync::Mutex::new(None);

fn child_exe() -> std::path::PathBuf {
    EXE_OVERRIDE.lock().unwrap().clone().unwrap_or_else(|| std::env::current_exe().unwrap())
}

pub fn fast_bin_path() -> std::path::PathBuf {
    std::env::var("VERIF_FAST_BIN").map(std::path::PathBuf::from).unwrap_or_else(|_| std::path::PathBuf::from(format!("{}/target/fast/cfbsim", verif_dir())))
}

pub struct ExecResult {
    pub sigs: Vec<String>,
    pub msgs: Vec<String>,
    pub trace: String,
    pub harness: Option<String>,
}

/// Run a case in a fresh process (with a wall-clock timeout).  A process that
/// dies or times out yields the signature `abort@process` / `hang@process`.
pub fn exec_case_subprocess(case: &Case, ignore_known: bool, timeout_s: u64) -> ExecResult {
    let exe = child_exe();
    let mut cmd = Command::new(exe);
    cmd.arg("exec-case").stdin(Stdio::piped()).stdout(Stdio::piped()).stderr(Stdio::null());
    if ignore_known {
        cmd.env("VERIF_IGNORE_KNOWN", "1");
    }
    let mut child = cmd.spawn().expect("spawn exec-case");
    {
        let mut stdin = child.stdin.take().unwrap();
        let _ = stdin.write_all(case.to_json().to_string().as_bytes());
    }
    let stdout = child.stdout.take().unwrap();
    let (tx, rx) = mpsc::channel();
    std::thread::spawn(move || {
        let mut s = String::new();
        let _ = BufReader::new(stdout).read_to_string(&mut s);
        let _ = tx.send(s);
    });
    let outp = match rx.recv_timeout(Duration::from_secs(timeout_s)) {
        Ok(s) => {
            if child.wait().ok().and_then(|st| st.code()) == Some(crate::driver::callwatch::HANG_EXIT) {
                return ExecResult { sigs: vec!["hang@process".into()], msgs: vec![format!("one library call used more than {} CPU-seconds", crate::driver::callwatch::limit_s())], trace: String::new(), harness: None };
            }
            s
        }
        Err(_) => {
            let _ = child.kill();
            let _ = child.wait();
            return ExecResult { sigs: vec!["hang@process".into()], msgs: vec![format!("no result within {} s", timeout_s)], trace: String::new(), harness: None };
        }
    };
    let mut r = ExecResult { sigs: vec![], msgs: vec![], trace: String::new(), harness: None };
    let mut done = false;
    for l in outp.lines() {
        if let Some(s) = l.strip_prefix("SIG ") {
            r.sigs.push(s.to_string());
        } else if let Some(s) = l.strip_prefix("MSG ") {
            r.msgs.push(s.to_string());
        } else if let Some(s) = l.strip_prefix("TRACE ") {
            r.trace = s.to_string();
        } else if let Some(s) = l.strip_prefix("HARNESS ") {
            r.harness = Some(s.to_string());
        } else if l == "DONE" {
            done = true;
        }
    }
    if !done {
        r.sigs.push("abort@process".into());
        r.msgs.push("the process executing the case died (abort, stack overflow or memory limit)".into());
    }
    r
}

// ---------------------------------------------------------------------------
// minimiser

fn shrink_candidates(c: &Case) -> Vec<Case> {
    let mut out = vec![];
    let n = c.ops.len();
    if c.check == "C15" {
        // structure-preserving shrinking: prefix ops, and body ops in all repetitions at once
        let prefix = c.param("prefix_len", 0) as usize;
        let body = c.param("body_len", 0) as usize;
        let reps = crate::checks::c15::REPS;
        if body > 0 && prefix + body * reps == n {
            if prefix > 0 {
                let mut d = c.clone();
                d.ops.drain(0..prefix);
                d.params.insert("prefix_len".into(), 0);
                out.push(d);
            }
            for i in (0..prefix).rev() {
                let mut d = c.clone();
                d.ops.remove(i);
                d.params.insert("prefix_len".into(), prefix as i64 - 1);
                out.push(d);
            }
            if body > 1 {
                for j in (0..body).rev() {
                    let mut d = c.clone();
                    for r in (0..reps).rev() {
                        d.ops.remove(prefix + r * body + j);
                    }
                    d.params.insert("body_len".into(), body as i64 - 1);
                    out.push(d);
                }
            }
            if c.bufsize.is_some() {
                let mut d = c.clone();
                d.bufsize = None;
                out.push(d);
            }
            if c.version == 4 {
                let mut d = c.clone();
                d.version = 3;
                out.push(d);
            }
            return out;
        }
    }
    // remove chunks (halves, quarters ...), then singles
    let mut chunk = n / 2;
    while chunk >= 2 {
        let mut i = 0;
        while i < n {
            let mut d = c.clone();
            let end = (i + chunk).min(n);
            d.ops.drain(i..end);
            out.push(d);
            i += chunk;
        }
        chunk /= 2;
    }
    for i in (0..n).rev() {
        let mut d = c.clone();
        d.ops.remove(i);
        out.push(d);
    }
    for i in 0..c.faults.len() {
        let mut d = c.clone();
        d.faults.remove(i);
        out.push(d);
    }
    if c.bufsize.is_some() {
        let mut d = c.clone();
        d.bufsize = None;
        out.push(d);
    }
    if c.version == 4 && !matches!(c.init, crate::case::Init::Foreign { .. } | crate::case::Init::Image(_)) {
        let mut d = c.clone();
        d.version = 3;
        out.push(d);
    }
    // simplify arguments
    for i in 0..n {
        use crate::ops::Op;
        let simpler: Vec<Op> = match &c.ops[i] {
            Op::WriteWhole { path, len, nonce } => {
                let mut v = vec![];
                for &b in crate::gen::BOUNDARY_SIZES.iter().rev() {
                    if b < *len {
                        v.push(Op::WriteWhole { path: path.clone(), len: b, nonce: *nonce });
                        break;
                    }
                }
                if *len > 8 {
                    v.push(Op::WriteWhole { path: path.clone(), len: len / 2, nonce: *nonce });
                }
                v
            }
            Op::HWriteAll { h, len, nonce } | Op::HWrite { h, len, nonce } if *len > 1 => {
                vec![Op::HWriteAll { h: *h, len: len / 2, nonce: *nonce }, Op::HWriteAll { h: *h, len: len - 1, nonce: *nonce }]
            }
            Op::HSetLen { h, n } if *n > 1 => vec![Op::HSetLen { h: *h, n: n / 2 }, Op::HSetLen { h: *h, n: n - 1 }],
            Op::HReadFull { h, n } | Op::HRead { h, n } if *n > 1 => vec![Op::HReadFull { h: *h, n: n / 2 }],
            Op::HCreate { h, path } => vec![Op::HOpen { h: *h, path: path.clone() }],
            _ => vec![],
        };
        for s in simpler {
            let mut d = c.clone();
            d.ops[i] = s;
            out.push(d);
        }
    }
    out
}

fn case_size(c: &Case) -> (usize, usize, usize) {
    let arg: usize = c
        .ops
        .iter()
        .map(|o| match o {
            crate::ops::Op::WriteWhole { len, .. } => *len as usize,
            crate::ops::Op::HWriteAll { len, .. } | crate::ops::Op::HWrite { len, .. } => *len,
            crate::ops::Op::HSetLen { n, .. } => *n as usize,
            _ => 0,
        })
        .sum();
    (c.ops.len(), c.faults.len(), arg)
}

/// Greedy delta-debugging on the explicit case; keeps the same `sig`.
pub fn minimise(case: &Case, sig: &str, budget: Duration) -> Case {
    let t0 = Instant::now();
    let mut best = case.clone();
    let mut improved = true;
    let mut evals = 0;
    while improved && t0.elapsed() < budget {
        improved = false;
        for cand in shrink_candidates(&best) {
            if t0.elapsed() >= budget {
                break;
            }
            if case_size(&cand) >= case_size(&best) {
                continue;
            }
            evals += 1;
            let r = exec_case_subprocess(&cand, true, 60);
            if r.sigs.iter().any(|s| s == sig) {
                best = cand;
                improved = true;
                break;
            }
        }
    }
    eprintln!("[minimise] {} evaluations, {} -> {} ops", evals, case.ops.len(), best.ops.len());
    best
}

// ---------------------------------------------------------------------------
// supervisor

fn proc_cpu_seconds(pid: u32) -> Option<f64> {
    let s = std::fs::read_to_string(format!("/proc/{}/stat", pid)).ok()?;
    let rest = &s[s.rfind(')')? + 2..];
    let f: Vec<&str> = rest.split_whitespace().collect();
    let ut: f64 = f.get(11)?.parse().ok()?;
    let st: f64 = f.get(12)?.parse().ok()?;
    Some((ut + st) / 100.0)
}

fn proc_state(pid: u32) -> Option<char> {
    let s = std::fs::read_to_string(format!("/proc/{}/stat", pid)).ok()?;
    s[s.rfind(')')? + 2..].chars().next()
}

enum Msg {
    Line(usize, String),
    Eof(usize),
}

struct Worker {
    child: Child,
    shard: u64,
    current: Option<u64>,
    cpu_at_marker: f64,
    wall_at_marker: Instant,
    done: bool,
    summary: bool,
    subfile: Option<String>,
    last_cpu: f64,
    last_cpu_change: Instant,
}

pub struct RunResult {
    pub violations: Vec<(u64, Violation, Case)>,
    pub agg: Agg,
    pub samples: Vec<Value>,
}

fn spawn_worker(def: &CheckDef, tier: Tier, seed: u64, shard: u64, w: u64, start: u64, end: Option<u64>) -> Child {
    let exe = child_exe();
    let mut cmd = Command::new(exe);
    cmd.args(["worker", "--check", def.id, "--tier", tier.name(), "--seed", &seed.to_string(), "--shard", &format!("{}/{}", shard, w), "--start", &start.to_string()]);
    if let Some(e) = end {
        cmd.args(["--end", &e.to_string()]);
    }
    cmd.stdout(Stdio::piped()).stderr(Stdio::null()).stdin(Stdio::null());
    cmd.spawn().expect("spawn worker")
}

pub fn run_cases(def: &CheckDef, tier: Tier, seed: u64, nworkers: u64, end: Option<u64>) -> RunResult {
    let (tx, rx) = mpsc::channel::<Msg>();
    let mut workers: Vec<Worker> = vec![];
    let attach = |child: &mut Child, slot: usize, tx: mpsc::Sender<Msg>| {
        let stdout = child.stdout.take().unwrap();
        std::thread::spawn(move || {
            for l in BufReader::new(stdout).lines() {
                match l {
                    Ok(l) => {
                        if tx.send(Msg::Line(slot, l)).is_err() {
                            break;
                        }
                    }
                    Err(_) => break,
                }
            }
            let _ = tx.send(Msg::Eof(slot));
        });
    };
    for i in 0..nworkers {
        let mut child = spawn_worker(def, tier, seed, i, nworkers, 0, end);
        attach(&mut child, workers.len(), tx.clone());
        workers.push(Worker { child, shard: i, current: None, cpu_at_marker: 0.0, wall_at_marker: Instant::now(), done: false, summary: false, subfile: None, last_cpu: 0.0, last_cpu_change: Instant::now() });
    }
    let mut res = RunResult {
        violations: vec![],
        agg: Agg { cases: 0, stats: Stats::default(), nontrivial_hashes: HashSet::new(), state_hashes: HashSet::new(), peak_mem: 0, max_case_cpu: (0.0, 0), max_call_cpu: 0.0, harness_errors: vec![] },
        samples: vec![],
    };
    let readset = |path: &str, set: &mut HashSet<u64>| {
        if let Ok(b) = std::fs::read(path) {
            for c in b.chunks_exact(8) {
                set.insert(u64::from_le_bytes(c.try_into().unwrap()));
            }
            let _ = std::fs::remove_file(path);
        }
    };
    let mut live = workers.len();
    let mut respawns = 0;
    while live > 0 {
        match rx.recv_timeout(Duration::from_millis(500)) {
            Ok(Msg::Line(slot, l)) => {
                if let Some(pth) = l.strip_prefix("SUBFILE ") {
                    workers[slot].subfile = Some(pth.to_string());
                } else if let Some(n) = l.strip_prefix("CASE ") {
                    let w = &mut workers[slot];
                    w.current = n.parse().ok();
                    w.cpu_at_marker = proc_cpu_seconds(w.child.id()).unwrap_or(0.0);
                    w.wall_at_marker = Instant::now();
                    w.last_cpu = w.cpu_at_marker;
                    w.last_cpu_change = Instant::now();
                } else if let Some(j) = l.strip_prefix("V ") {
                    if let Ok(v) = serde_json::from_str::<Value>(j) {
                        let vi = &v["violation"];
                        let viol = Violation {
                            property: vi["property"].as_str().unwrap_or("").to_string(),
                            rule: vi["rule"].as_str().unwrap_or("").to_string(),
                            site: vi["site"].as_str().unwrap_or("").to_string(),
                            msg: vi["msg"].as_str().unwrap_or("").to_string(),
                            step: vi["step"].as_u64().unwrap_or(0) as usize,
                        };
                        if let Ok(c) = Case::from_json(&v["case"]) {
                            res.violations.push((v["idx"].as_u64().unwrap_or(0), viol, c));
                        }
                    }
                } else if let Some(j) = l.strip_prefix("H ") {
                    res.agg.harness_errors.push(j.to_string());
                } else if let Some(j) = l.strip_prefix("S ") {
                    if let Ok(v) = serde_json::from_str::<Value>(j) {
                        if res.samples.len() < 3 {
                            res.samples.push(v);
                        }
                    }
                } else if let Some(j) = l.strip_prefix("SUMMARY ") {
                    if let Ok(v) = serde_json::from_str::<Value>(j) {
                        res.agg.cases += v["cases"].as_u64().unwrap_or(0);
                        merge_stats(&mut res.agg.stats, &stats_from_json(&v["stats"]));
                        res.agg.peak_mem = res.agg.peak_mem.max(v["peak_mem"].as_u64().unwrap_or(0) as usize);
                        res.agg.max_call_cpu = res.agg.max_call_cpu.max(v["max_call"].as_f64().unwrap_or(0.0));
                        let mc = v["max_cpu"].as_f64().unwrap_or(0.0);
                        if mc > res.agg.max_case_cpu.0 {
                            res.agg.max_case_cpu = (mc, v["max_cpu_idx"].as_u64().unwrap_or(0));
                        }
                        readset(v["nt_file"].as_str().unwrap_or(""), &mut res.agg.nontrivial_hashes);
                        readset(v["st_file"].as_str().unwrap_or(""), &mut res.agg.state_hashes);
                        workers[slot].summary = true;
                    }
                } else if l.starts_with("T ") && std::env::var("VERIF_TRACE").is_ok() {
                    println!("{}", l);
                }
            }
            Ok(Msg::Eof(slot)) => {
                let w = &mut workers[slot];
                if w.done {
                    continue;
                }
                w.done = true;
                live -= 1;
                let status = w.child.wait().ok();
                if !w.summary {
                    // died without a summary: abort in the last announced case, or (exit code
                    // HANG_EXIT) one library call that used more CPU than the per-call limit
                    let call_hang = status.and_then(|s| s.code()) == Some(crate::driver::callwatch::HANG_EXIT);
                    let idx = w.current.unwrap_or(0);
                    let sub = w.subfile.as_ref().and_then(|p| crate::subcase::read(p));
                    if let Some(p) = &w.subfile {
                        let _ = std::fs::remove_file(p);
                    }
                    let pinpointed = sub.is_some();
                    let case = sub.unwrap_or_else(|| (def.gen)(seed, idx, tier));
                    res.violations.push((
                        idx,
                        if call_hang {
                            Violation { property: def.id.into(), rule: "hang".into(), site: "process".into(), msg: format!("one library call in case {} used more than {} CPU-seconds and the worker was ended{}", idx, crate::driver::callwatch::limit_s(), if pinpointed { " - the single run in progress was recovered" } else { "" }), step: 0 }
                        } else {
                            Violation { property: def.id.into(), rule: "abort".into(), site: "process".into(), msg: format!("worker process died (abort, stack overflow or memory limit) while executing case {}{}", idx, if pinpointed { " - the single run in progress was recovered" } else { "" }), step: 0 }
                        },
                        case,
                    ));
                    res.agg.cases += 1;
                    if respawns < 64 && res.violations.iter().filter(|(_, v, _)| v.site == "process").count() <= 6 {
                        respawns += 1;
                        let shard = w.shard;
                        let mut child = spawn_worker(def, tier, seed, shard, nworkers, idx + 1, end);
                        let slot2 = workers.len();
                        attach(&mut child, slot2, tx.clone());
                        workers.push(Worker { child, shard, current: None, cpu_at_marker: 0.0, wall_at_marker: Instant::now(), done: false, summary: false, subfile: None, last_cpu: 0.0, last_cpu_change: Instant::now() });
                        live += 1;
                    }
                }
            }
            Err(mpsc::RecvTimeoutError::Timeout) => {}
            Err(mpsc::RecvTimeoutError::Disconnected) => break,
        }
        // watchdog
        for slot in 0..workers.len() {
            let w = &mut workers[slot];
            if w.done || w.current.is_none() {
                continue;
            }
            let cpu = proc_cpu_seconds(w.child.id()).unwrap_or(0.0);
            if cpu > w.last_cpu + 0.02 {
                w.last_cpu = cpu;
                w.last_cpu_change = Instant::now();
            }
            // a worker is always CPU-bound: no CPU progress for 40 s of wall time inside a case
            // means it is blocked (e.g. a self-deadlock on the library's lock)
            // (a process that is merely waiting for a CPU on an overloaded machine is in state R and
            // is not blocked; a failed read of /proc proves nothing either)
            let state = proc_state(w.child.id());
            let blocked = w.last_cpu_change.elapsed() > Duration::from_secs(40) && w.wall_at_marker.elapsed() > Duration::from_secs(40) && matches!(state, Some('S') | Some('D'));
            let over_cpu = cpu - w.cpu_at_marker >= def.cpu_limit_s as f64;
            let over_wall = w.wall_at_marker.elapsed() > Duration::from_secs(3600.max(def.cpu_limit_s * 10));
            let stalled = blocked || over_cpu || over_wall;
            let why = if blocked { "made no CPU progress for 40 s while sleeping (blocked)" } else if over_cpu { "exceeded its CPU limit" } else { "exceeded its wall-clock limit" };
            if stalled {
                let idx = w.current.unwrap();
                let _ = w.child.kill();
                let _ = w.child.wait();
                w.done = true;
                w.summary = true; // handled here
                live -= 1;
                let sub = w.subfile.as_ref().and_then(|p| crate::subcase::read(p));
                if let Some(p) = &w.subfile {
                    let _ = std::fs::remove_file(p);
                }
                let pinpointed = sub.is_some();
                let case = sub.unwrap_or_else(|| (def.gen)(seed, idx, tier));
                res.violations.push((
                    idx,
                    Violation { property: def.id.into(), rule: "hang".into(), site: "process".into(), msg: format!("case {} {} (limits: {} CPU-seconds per case) and was killed{}", idx, why, def.cpu_limit_s, if pinpointed { " - the single run in progress was recovered" } else { "" }), step: 0 },
                    case,
                ));
                res.agg.cases += 1;
                if respawns < 64 && res.violations.iter().filter(|(_, v, _)| v.site == "process").count() <= 6 {
                    respawns += 1;
                    let shard = w.shard;
                    let mut child = spawn_worker(def, tier, seed, shard, nworkers, idx + 1, end);
                    let slot2 = workers.len();
                    attach(&mut child, slot2, tx.clone());
                    workers.push(Worker { child, shard, current: None, cpu_at_marker: 0.0, wall_at_marker: Instant::now(), done: false, summary: false, subfile: None, last_cpu: 0.0, last_cpu_change: Instant::now() });
                    live += 1;
                }
            }
        }
    }
    res
}

fn short_hash(s: &str) -> String {
    format!("{:08x}", crate::prng::fnv(s.as_bytes()) as u32)
}

pub fn write_replay(dir: &str, def_id: &str, seed: u64, idx: u64, v: &Violation, case: &Case, trace: &str) -> String {
    let _ = std::fs::create_dir_all(dir);
    let path = format!("{}/{}-{}-{}.json", dir, def_id, seed, short_hash(&format!("{}{}", v.sig(), case.to_json())));
    let profile = if EXE_OVERRIDE.lock().unwrap().is_some() { "fast" } else { "checked" };
    let doc = json!({
        "profile": profile,
        "property": def_id, "rule": v.rule, "site": v.site, "sig": v.sig(), "message": v.msg,
        "seed": seed, "case_index": idx, "trace_hash": trace, "case": case.to_json(),
    });
    std::fs::write(&path, serde_json::to_string_pretty(&doc).unwrap()).expect("write replay");
    path
}

/// `cfbsim replay <file>`: re-execute in a fresh process; exit 1 when the
/// recorded violation reproduces (prints the VIOLATION line), 0 when it does not.
pub fn replay_main(path: &str) -> i32 {
    let text = match std::fs::read_to_string(path) {
        Ok(t) => t,
        Err(e) => {
            eprintln!("cannot read {}: {}", path, e);
            return 2;
        }
    };
    let v: Value = serde_json::from_str(&text).unwrap();
    let case = match Case::from_json(&v["case"]) {
        Ok(c) => c,
        Err(e) => {
            eprintln!("bad case: {}", e);
            return 2;
        }
    };
    let want = v["sig"].as_str().unwrap_or("").to_string();
    if v["profile"].as_str() == Some("fast") {
        let fb = fast_bin_path();
        if !fb.exists() {
            eprintln!("this replay needs the build without debug assertions: cd /verif/sim && cargo build --profile fast");
            return 2;
        }
        *EXE_OVERRIDE.lock().unwrap() = Some(fb);
    }
    let r = exec_case_subprocess(&case, true, 600);
    println!("recorded: sig={} trace_hash={}", want, v["trace_hash"].as_str().unwrap_or(""));
    for (s, m) in r.sigs.iter().zip(r.msgs.iter()) {
        println!("observed: sig={} :: {}", s, m);
    }
    println!("observed trace_hash={}", r.trace);
    if r.sigs.iter().any(|s| *s == want) {
        println!("VIOLATION property={} replay={}", v["property"].as_str().unwrap_or("?"), path);
        1
    } else {
        println!("the recorded violation does not reproduce on this tree");
        0
    }
}

pub fn run_main(args: &[String]) -> i32 {
    let get = |k: &str| args.iter().position(|a| a == k).and_then(|i| args.get(i + 1)).cloned();
    let check = match get("--check") {
        Some(c) => c,
        None => {
            eprintln!("--check required");
            return 2;
        }
    };
    let tier = match get("--tier").or_else(|| std::env::var("VERIF_TIER").ok()).as_deref() {
        Some("thorough") => Tier::Thorough,
        _ => Tier::Quick,
    };
    let seed: u64 = get("--seed").and_then(|s| s.parse().ok()).unwrap_or_else(seed_from_env);
    let cores = std::thread::available_parallelism().map(|n| n.get() as u64).unwrap_or(4);
    let nworkers: u64 = get("-j").and_then(|s| s.parse().ok()).unwrap_or(cores.min(16));
    let end: Option<u64> = get("--cases").and_then(|s| s.parse().ok());
    crate::driver::callwatch::configure(if tier == Tier::Thorough { 90 } else { 30 });
    let def = match checks::get(&check) {
        Some(d) => d,
        None => {
            eprintln!("unknown check {}", check);
            return 2;
        }
    };
    if let Err(e) = crate::names::selfcheck() {
        eprintln!("HARNESS ERROR: name table: {}", e);
        return 2;
    }
    let t0 = Instant::now();
    println!("cfbsim check={} tier={} VERIF_SEED={} workers={}", def.id, tier.name(), seed, nworkers);

    // 1. known findings: replay each witness
    let findings: Vec<Finding> = load_findings().into_iter().filter(|f| f.property == def.id).collect();
    let mut known_lines = vec![];
    for f in &findings {
        let wpath = if f.witness.starts_with('/') { f.witness.clone() } else { format!("{}/{}", verif_dir(), f.witness) };
        let still = match std::fs::read_to_string(&wpath).ok().and_then(|t| serde_json::from_str::<Value>(&t).ok()) {
            Some(v) => match Case::from_json(&v["case"]) {
                Ok(c) => exec_case_subprocess(&c, true, 600).sigs.iter().any(|s| *s == f.sig),
                Err(_) => false,
            },
            None => false,
        };
        if still {
            println!("KNOWN-FINDING: property={} {} [sig={} witness={}]", def.id, f.text, f.sig, f.witness);
            known_lines.push(json!({"sig": f.sig, "witness": f.witness, "reproduces": true}));
        } else {
            println!("note: listed finding sig={} no longer reproduces from its witness {}", f.sig, f.witness);
            known_lines.push(json!({"sig": f.sig, "witness": f.witness, "reproduces": false}));
        }
    }

    // 1b. regression witnesses of repaired defects: must no longer reproduce
    let mut regress_fail = vec![];
    let mut regress_n = 0;
    if let Ok(rd) = std::fs::read_dir(format!("{}/findings/fixed", verif_dir())) {
        let mut files: Vec<_> = rd.flatten().map(|e| e.path()).filter(|p| p.extension().map(|x| x == "json").unwrap_or(false)).collect();
        files.sort();
        for f in files {
            let v: Value = match std::fs::read_to_string(&f).ok().and_then(|t| serde_json::from_str(&t).ok()) {
                Some(v) => v,
                None => continue,
            };
            if v["case"]["check"].as_str() != Some(def.id) {
                continue;
            }
            if let Ok(c) = Case::from_json(&v["case"]) {
                regress_n += 1;
                let r = exec_case_subprocess(&c, true, 600);
                if !r.sigs.is_empty() {
                    println!("regression: witness {} fails again: {:?} :: {:?}", f.display(), r.sigs, r.msgs.first());
                    println!("VIOLATION property={} replay={}", def.id, f.display());
                    regress_fail.push(f.display().to_string());
                }
            }
        }
    }

    // 2. the batch
    let res = run_cases(&def, tier, seed, nworkers, end);
    let batch_wall = t0.elapsed().as_secs_f64();

    // 2b. thorough tier: a second, smaller batch on the build WITHOUT debug assertions and
    // overflow checks (what users of a release build run: arithmetic wraps, debug_assert! is
    // gone, so the same defect shows as silent corruption, a hang or a huge allocation)
    let mut fast_summary = json!(null);
    let mut fast_violations: Vec<(u64, Violation, Case)> = vec![];
    if tier == Tier::Thorough && end.is_none() && fast_bin_path().exists() {
        let total = (def.cases)(tier);
        let n = (total / 5).max(1);
        *EXE_OVERRIDE.lock().unwrap() = Some(fast_bin_path());
        let r2 = run_cases(&def, tier, seed, nworkers, Some(n));
        *EXE_OVERRIDE.lock().unwrap() = None;
        println!("fast-profile batch: cases={} violations={}", r2.agg.cases, r2.violations.len());
        fast_summary = json!({"cases": r2.agg.cases, "sub_runs": r2.agg.stats.sub_runs, "violations": r2.violations.len(), "binary": fast_bin_path().display().to_string()});
        fast_violations = r2.violations;
    }

    // 3. violations: one report per distinct signature
    let mut by_sig: BTreeMap<String, (u64, Violation, Case, u64)> = BTreeMap::new();
    for (idx, v, c) in res.violations.iter() {
        let e = by_sig.entry(v.sig()).or_insert((*idx, v.clone(), c.clone(), 0));
        e.3 += 1;
        if *idx < e.0 {
            e.0 = *idx;
            e.1 = v.clone();
            e.2 = c.clone();
        }
    }
    let mut exit = 0;
    let mut harness_error = !res.agg.harness_errors.is_empty();
    let replay_dir = format!("{}/replays", verif_dir());
    let mut reported = vec![];
    let min_budget = Duration::from_secs(if tier == Tier::Quick { 40 } else { 180 } / (by_sig.len().max(1) as u64).min(8).max(1));
    for (sig, (idx, v, case, count)) in by_sig.iter().take(12) {
        // confirm in a fresh process
        let process_level = sig.ends_with("@process");
        let r0 = exec_case_subprocess(case, true, if process_level { (def.cpu_limit_s * 4).clamp(300, 1800) } else { 600 });
        if !r0.sigs.iter().any(|s| s == sig) {
            eprintln!("HARNESS ERROR: violation {} of case {} does not reproduce in a fresh process (observed {:?})", sig, idx, r0.sigs);
            harness_error = true;
            continue;
        }
        let small = if process_level { case.clone() } else { minimise(case, sig, min_budget) };
        let r1 = if process_level { ExecResult { sigs: r0.sigs.clone(), msgs: r0.msgs.clone(), trace: r0.trace.clone(), harness: None } } else { exec_case_subprocess(&small, true, 600) };
        let (final_case, r) = if r1.sigs.iter().any(|s| s == sig) { (small, r1) } else { (case.clone(), r0) };
        let msg = r.sigs.iter().zip(r.msgs.iter()).find(|(s, _)| *s == sig).map(|(_, m)| m.clone()).unwrap_or(v.msg.clone());
        let mut v2 = v.clone();
        v2.msg = msg;
        let path = write_replay(&replay_dir, def.id, seed, *idx, &v2, &final_case, &r.trace);
        println!("violation sig={} cases={} first_case={} ops={} :: {}", sig, count, idx, final_case.ops.len(), v2.msg);
        println!("VIOLATION property={} replay={}", def.id, path);
        reported.push(json!({"sig": sig, "cases": count, "replay": path, "message": v2.msg}));
        exit = 1;
    }
    if !fast_violations.is_empty() {
        let mut fast_by_sig: BTreeMap<String, (u64, Violation, Case, u64)> = BTreeMap::new();
        for (idx, v, c) in fast_violations.iter() {
            let e = fast_by_sig.entry(v.sig()).or_insert((*idx, v.clone(), c.clone(), 0));
            e.3 += 1;
        }
        *EXE_OVERRIDE.lock().unwrap() = Some(fast_bin_path());
        for (sig, (idx, v, case, count)) in fast_by_sig.iter().take(8) {
            if by_sig.contains_key(sig) {
                continue; // already reported from the checked build
            }
            let r0 = exec_case_subprocess(case, true, 600);
            if !r0.sigs.iter().any(|s| s == sig) {
                eprintln!("HARNESS ERROR: fast-profile violation {} of case {} does not reproduce (observed {:?})", sig, idx, r0.sigs);
                harness_error = true;
                continue;
            }
            let process_level = sig.ends_with("@process");
            let small = if process_level { case.clone() } else { minimise(case, sig, min_budget) };
            let r1 = exec_case_subprocess(&small, true, 600);
            let (final_case, r) = if r1.sigs.iter().any(|s| s == sig) { (small, r1) } else { (case.clone(), r0) };
            let msg = r.sigs.iter().zip(r.msgs.iter()).find(|(s, _)| *s == sig).map(|(_, m)| m.clone()).unwrap_or(v.msg.clone());
            let mut v2 = v.clone();
            v2.msg = format!("[build without debug assertions] {}", msg);
            let path = write_replay(&replay_dir, def.id, seed, *idx, &v2, &final_case, &r.trace);
            println!("violation sig={} cases={} first_case={} ops={} :: {}", sig, count, idx, final_case.ops.len(), v2.msg);
            println!("VIOLATION property={} replay={}", def.id, path);
            reported.push(json!({"sig": sig, "cases": count, "replay": path, "message": v2.msg, "profile": "fast"}));
            exit = 1;
        }
        *EXE_OVERRIDE.lock().unwrap() = None;
    }
    for h in res.agg.harness_errors.iter().take(5) {
        eprintln!("HARNESS ERROR: {}", &h[..h.len().min(600)]);
    }

    // 4. evidence
    let wall = t0.elapsed().as_secs_f64();
    let st = &res.agg.stats;
    let per_hour = if batch_wall > 0.0 { (res.agg.cases as f64 / batch_wall * 3600.0) as u64 } else { 0 };
    let zero_probes: Vec<String> = def.expect_probes.iter().filter(|p| st.probes.get(**p).copied().unwrap_or(0) == 0).map(|p| p.to_string()).collect();
    for p in &zero_probes {
        println!("warning: reach probe '{}' was never hit in this run", p);
    }
    let evidence = json!({
        "property_id": def.id,
        "tier": tier.name(),
        "seed": seed,
        "level": def.level,
        "wall_s": wall,
        "violations": by_sig.len(),
        "assumptions": def.assumptions,
        "coverage": {
            "evaluations": if def.count_subruns { st.sub_runs } else { res.agg.cases },
            "distinct_nontrivial": if def.count_subruns { res.agg.state_hashes.len() } else { res.agg.nontrivial_hashes.len() },
            "cases": res.agg.cases,
            "nontrivial_cases": res.agg.nontrivial_hashes.len(),
            "counting_note": if def.count_subruns { "evaluations = executions (one per injected fault position / damaged image / deviation); distinct_nontrivial = distinct hashes of those executions' seam logs or damaged images, as counted by the workers; cases = base workloads / base images" } else { "evaluations = cases (complete simulated runs); distinct_nontrivial = distinct (seam log, final image) hashes among the cases that are non-trivial by 'rule'" },
            "rule": def.rule,
            "samples": res.samples,
            "exhaustive": false,
            "simulated_runs_per_hour": per_hour,
            "sub_runs": st.sub_runs,
            "api_calls": st.api_calls,
            "successful_mutations": st.ok_mutations,
            "boundary_checks": st.boundary_checks,
            "simulated_io_events": st.seam_events,
            "sim_clock_span_ticks": st.clock_span_ticks.to_string(),
            "simulated_time_note": "no timers in the crate: time is logical (seam event counter) plus the sim clock installed through the cfb_verif hook",
            "fault_kinds": def.fault_kinds,
            "faults_fired": st.faults_fired,
            "distinct_abstract_states": res.agg.state_hashes.len(),
            "distinct_op_outcome_pairs": st.op_outcomes.len(),
            "op_outcomes": st.op_outcomes,
            "reach_probes": st.probes,
            "probes_stuck_at_zero": zero_probes,
            "inconclusive": st.inconclusive,
            "peak_live_bytes": res.agg.peak_mem,
            "max_case_cpu_seconds": res.agg.max_case_cpu.0,
            "max_case_cpu_case_index": res.agg.max_case_cpu.1,
            "cpu_watchdog_limit_seconds": def.cpu_limit_s,
            "max_library_call_cpu_seconds": res.agg.max_call_cpu,
            "per_call_cpu_limit_seconds": crate::driver::callwatch::limit_s(),
            "known_finding_hits": st.known_hits,
            "known_findings": known_lines,
            "reported": reported,
            "fast_profile_batch": fast_summary,
            "regression_witnesses_replayed": regress_n,
            "regression_witnesses_failing": regress_fail,
            "real_vs_stub": checks::REAL_VS_STUB,
            "workers": nworkers,
        }
    });
    // partial runs (--cases) and self-tests must not replace the evidence of a real run
    let epath = if end.is_some() || std::env::var("VERIF_NO_EVIDENCE").is_ok() {
        format!("{}/evidence-partial-{}.json", tmp_dir(), def.id)
    } else {
        format!("{}/evidence/{}.json", verif_dir(), def.id)
    };
    let _ = std::fs::create_dir_all(format!("{}/evidence", verif_dir()));
    if let Err(e) = std::fs::write(&epath, serde_json::to_string_pretty(&evidence).unwrap()) {
        eprintln!("HARNESS ERROR: cannot write {}: {}", epath, e);
        return 2;
    }
    println!(
        "done: cases={} distinct_nontrivial={} states={} seam_events={} faults_fired={:?} wall={:.1}s ({} cases/h) violations={} known_hits={:?}",
        res.agg.cases,
        res.agg.nontrivial_hashes.len(),
        res.agg.state_hashes.len(),
        st.seam_events,
        st.faults_fired,
        wall,
        per_hour,
        by_sig.len(),
        st.known_hits
    );
    if !regress_fail.is_empty() {
        exit = 1;
    }
    if harness_error && exit == 0 {
        return 2;
    }
    exit
}
