//! Storage-fault corruptors: single-field corruptions located with the
//! independent parser (F-FC), bit flips (F-BF), truncation / extension (F-TR),
//! lost and misdirected sector writes (F-LW / F-MW), and the documented
//! tolerated deviations (C16 recipes).

use crate::imgck::{self, Layout};
use crate::prng::Rng;

#[derive(Clone, Debug)]
pub struct Mutation {
    pub desc: String,
    pub kind: &'static str, // F-FC, F-BF, F-TR, F-LW, F-MW
    pub edit: Edit,
}

#[derive(Clone, Debug)]
pub enum Edit {
    Put { offset: usize, bytes: Vec<u8> },
    Truncate(usize),
    Extend(Vec<u8>),
    Multi(Vec<(usize, Vec<u8>)>),
}

impl Mutation {
    pub fn apply(&self, img: &[u8]) -> Vec<u8> {
        let mut v = img.to_vec();
        match &self.edit {
            Edit::Put { offset, bytes } => put(&mut v, *offset, bytes),
            Edit::Truncate(n) => v.truncate(*n),
            Edit::Extend(b) => v.extend_from_slice(b),
            Edit::Multi(es) => {
                for (o, b) in es {
                    put(&mut v, *o, b);
                }
            }
        }
        v
    }
}

fn put(v: &mut Vec<u8>, offset: usize, bytes: &[u8]) {
    if offset + bytes.len() <= v.len() {
        v[offset..offset + bytes.len()].copy_from_slice(bytes);
    }
}

const FREESECT: u32 = 0xFFFF_FFFF;
const ENDOFCHAIN: u32 = 0xFFFF_FFFE;
const FATSECT: u32 = 0xFFFF_FFFD;
const DIFSECT: u32 = 0xFFFF_FFFC;

fn u32_palette(n: u32, this: u32, extra: &[u32]) -> Vec<u32> {
    let mut v = vec![
        0, 1, 2, this, this.wrapping_add(1), this.wrapping_sub(1), n.wrapping_sub(1), n, n.wrapping_add(1), 0xFFFF_FFFA, 0xFFFF_FFFB, DIFSECT, FATSECT, ENDOFCHAIN, FREESECT, 0x7FFF_FFFF, 0x8000_0000, 63, 64, 4095, 4096,
    ];
    v.extend_from_slice(extra);
    v.sort();
    v.dedup();
    v
}

fn read_u32(img: &[u8], off: usize) -> u32 {
    if off + 4 <= img.len() {
        u32::from_le_bytes([img[off], img[off + 1], img[off + 2], img[off + 3]])
    } else {
        0
    }
}

/// Every single-field corruption of `img` (field x value palette).
pub fn field_mutations(img: &[u8], l: &Layout, cap_cells: usize, cap_entries: usize) -> Vec<Mutation> {
    let mut out = vec![];
    let n = l.num_sectors;
    let fc = |desc: String, offset: usize, bytes: Vec<u8>| Mutation { desc, kind: "F-FC", edit: Edit::Put { offset, bytes } };
    // header
    for (name, off, width) in imgck::header_field_offsets() {
        if name == "difat_slot" {
            continue;
        }
        match width {
            2 => {
                for v in [0u16, 1, 3, 4, 5, 6, 9, 12, 13, 0x3e, 0xfffe, 0xfeff, 0xffff] {
                    out.push(fc(format!("header.{}={:#x}", name, v), off, v.to_le_bytes().to_vec()));
                }
            }
            4 => {
                let cur = read_u32(img, off);
                for v in u32_palette(n, cur, &[109, 110, 128, 1024]) {
                    if v != cur {
                        out.push(fc(format!("header.{}={:#x}", name, v), off, v.to_le_bytes().to_vec()));
                    }
                }
            }
            _ => {
                let mut b = img[off..off + width].to_vec();
                b[0] ^= 0x01;
                out.push(fc(format!("header.{}^1", name), off, b));
                out.push(fc(format!("header.{}=ff", name), off, vec![0xff; width]));
            }
        }
    }
    // DIFAT slots: used ones, the first unused, the last header slot
    let used = l.difat.iter().take_while(|x| **x != FREESECT).count();
    let mut slots: Vec<usize> = (0..used.min(6)).collect();
    slots.push(used);
    slots.push(108);
    if l.difat.len() > 109 {
        slots.push(109);
        slots.push(l.difat.len() - 1);
        slots.push(used.saturating_sub(1));
    }
    slots.sort();
    slots.dedup();
    for i in slots {
        if let Some(off) = imgck::difat_slot_offset(l, i) {
            let cur = read_u32(img, off);
            for v in u32_palette(n, cur, &[]) {
                if v != cur {
                    out.push(fc(format!("difat[{}]={:#x}", i, v), off, v.to_le_bytes().to_vec()));
                }
            }
        }
    }
    // DIFAT sector next pointers
    for (j, s) in l.difat_sectors.iter().enumerate() {
        let off = imgck::sector_offset(l, *s) + l.sector_len - 4;
        let cur = read_u32(img, off);
        for v in u32_palette(n, cur, &[*s]) {
            if v != cur {
                out.push(fc(format!("difat_sector[{}].next={:#x}", j, v), off, v.to_le_bytes().to_vec()));
            }
        }
    }
    // FAT cells (ring closing / cross-linking values come from the palette's this±1 and chain starts)
    let starts: Vec<u32> = l.entries.iter().filter(|e| e.obj_type == 2 || e.obj_type == 5).map(|e| e.start_sector).filter(|s| *s < n).collect();
    let total_cells = (n as usize + 3).min(l.fat.len());
    let step = (total_cells / cap_cells.max(1)).max(1);
    let mut s = 0usize;
    while s < total_cells {
        if let Some(off) = imgck::fat_cell_offset(l, s as u32) {
            let cur = read_u32(img, off);
            let mut extra = starts.clone();
            extra.truncate(4);
            for v in u32_palette(n, s as u32, &extra) {
                if v != cur {
                    out.push(fc(format!("fat[{}]={:#x}", s, v), off, v.to_le_bytes().to_vec()));
                }
            }
        }
        s += step;
    }
    // MiniFAT cells
    let mtotal = l.minifat.len();
    let mstep = (mtotal / cap_cells.max(1)).max(1);
    let mut m = 0usize;
    let mn = mtotal as u32;
    while m < mtotal {
        if let Some(off) = imgck::minifat_cell_offset(l, m as u32) {
            let cur = read_u32(img, off);
            for v in u32_palette(mn, m as u32, &[]) {
                if v != cur {
                    out.push(fc(format!("minifat[{}]={:#x}", m, v), off, v.to_le_bytes().to_vec()));
                }
            }
        }
        m += mstep;
    }
    // directory entries
    let ne = l.entries.len() as u32;
    for e in l.entries.iter().take(cap_entries) {
        for (fname, foff, width) in imgck::entry_field_offsets() {
            let off = e.offset + foff;
            if off + width > img.len() {
                continue;
            }
            match fname {
                "name" => {
                    // lone surrogate, forbidden character, all 0xFFFF, no terminator anywhere
                    let mut b = img[off..off + 64].to_vec();
                    b[0] = 0x00;
                    b[1] = 0xD8;
                    out.push(fc(format!("entry[{}].name=lone-surrogate", e.slot), off, b));
                    let mut b = img[off..off + 64].to_vec();
                    b[0] = b'/';
                    b[1] = 0;
                    out.push(fc(format!("entry[{}].name[0]='/'", e.slot), off, b));
                    out.push(fc(format!("entry[{}].name=ffff..", e.slot), off, vec![0xff; 64]));
                    out.push(fc(format!("entry[{}].name=AAAA..", e.slot), off, [0x41u8, 0].repeat(32)));
                }
                "name_len" => {
                    for v in [0u16, 1, 2, 3, 4, 62, 63, 64, 65, 66, 128, 0xfffe, 0xffff] {
                        if v != e.name_len_field {
                            out.push(fc(format!("entry[{}].name_len={}", e.slot, v), off, v.to_le_bytes().to_vec()));
                        }
                    }
                }
                "type" => {
                    for v in [0u8, 1, 2, 3, 4, 5, 6, 255] {
                        if v != e.obj_type {
                            out.push(fc(format!("entry[{}].type={}", e.slot, v), off, vec![v]));
                        }
                    }
                }
                "color" => {
                    for v in [0u8, 1, 2, 255] {
                        if v != e.color {
                            out.push(fc(format!("entry[{}].color={}", e.slot, v), off, vec![v]));
                        }
                    }
                }
                "left" | "right" | "child" => {
                    let cur = read_u32(img, off);
                    for v in u32_palette(ne, e.slot, &[]) {
                        if v != cur {
                            out.push(fc(format!("entry[{}].{}={:#x}", e.slot, fname, v), off, v.to_le_bytes().to_vec()));
                        }
                    }
                }
                "start" => {
                    let cur = read_u32(img, off);
                    for v in u32_palette(n, cur, &[l.hdr_first_dir, l.hdr_first_minifat, l.fat_sectors.first().copied().unwrap_or(0)]) {
                        if v != cur {
                            out.push(fc(format!("entry[{}].start={:#x}", e.slot, v), off, v.to_le_bytes().to_vec()));
                        }
                    }
                }
                "size" => {
                    let cur = e.size;
                    let vals: Vec<u64> = vec![
                        0, 1, 63, 64, 65, 4095, 4096, 4097, cur.wrapping_add(1), cur.wrapping_sub(1), cur.wrapping_add(64), cur.wrapping_add(l.sector_len as u64), img.len() as u64, img.len() as u64 * 2, 1 << 31, (1 << 32) - 1, 1 << 32,
                        (1 << 32) + 100, 1 << 40, 1 << 63, u64::MAX, u64::MAX - 63,
                    ];
                    let mut vals = vals;
                    vals.sort();
                    vals.dedup();
                    for v in vals {
                        if v != cur {
                            out.push(fc(format!("entry[{}].size={:#x}", e.slot, v), off, v.to_le_bytes().to_vec()));
                        }
                    }
                }
                "clsid" | "created" | "modified" => {
                    out.push(fc(format!("entry[{}].{}=ff..", e.slot, fname), off, vec![0xff; width]));
                    out.push(fc(format!("entry[{}].{}=01..", e.slot, fname), off, {
                        let mut b = vec![0u8; width];
                        b[0] = 1;
                        b
                    }));
                }
                "state" => {
                    out.push(fc(format!("entry[{}].state=ffffffff", e.slot), off, vec![0xff; 4]));
                }
                _ => {}
            }
        }
    }
    out
}

/// Truncations, extensions, bit flips, lost / misdirected sector writes.
pub fn bulk_mutations(img: &[u8], l: &Layout, older: Option<&[u8]>, rng: &mut Rng, nflips: usize) -> Vec<Mutation> {
    let mut out = vec![];
    let sl = l.sector_len.max(512);
    // truncation at every sector boundary +-1 (capped) and a few drawn offsets
    let nsect = img.len() / sl;
    let stepb = (nsect / 24).max(1);
    let mut i = 0;
    while i <= nsect {
        for d in [-1i64, 0, 1] {
            let t = (i * sl) as i64 + d;
            if t >= 0 && (t as usize) < img.len() {
                out.push(Mutation { desc: format!("truncate@{}", t), kind: "F-TR", edit: Edit::Truncate(t as usize) });
            }
        }
        i += stepb;
    }
    for t in [0usize, 1, 7, 8, 76, 511, 512, 513] {
        if t < img.len() {
            out.push(Mutation { desc: format!("truncate@{}", t), kind: "F-TR", edit: Edit::Truncate(t) });
        }
    }
    for _ in 0..6 {
        let t = rng.usize_below(img.len().max(1));
        out.push(Mutation { desc: format!("truncate@{}", t), kind: "F-TR", edit: Edit::Truncate(t) });
    }
    out.push(Mutation { desc: "extend+1 zero".into(), kind: "F-TR", edit: Edit::Extend(vec![0]) });
    out.push(Mutation { desc: "extend+sector zero".into(), kind: "F-TR", edit: Edit::Extend(vec![0; sl]) });
    out.push(Mutation { desc: "extend+sector ff".into(), kind: "F-TR", edit: Edit::Extend(vec![0xff; sl]) });
    out.push(Mutation { desc: "extend+3 sectors garbage".into(), kind: "F-TR", edit: Edit::Extend((0..3 * sl).map(|i| crate::prng::pattern_byte(99, i as u64)).collect()) });
    // bit flips, biased to structure (header, FAT, directory sectors)
    let mut regions: Vec<(usize, usize)> = vec![(0, 512.min(img.len()))];
    for s in l.fat_sectors.iter().chain(l.dir_sectors.iter()).chain(l.minifat_sectors.iter()).chain(l.difat_sectors.iter()) {
        let o = imgck::sector_offset(l, *s);
        if o + sl <= img.len() {
            regions.push((o, sl));
        }
    }
    for f in 0..nflips {
        let (o, len) = if f % 4 == 3 { (0, img.len()) } else { regions[rng.usize_below(regions.len())] };
        if len == 0 {
            continue;
        }
        let k = rng.range(1, 3);
        let mut es = vec![];
        let mut d = String::new();
        for _ in 0..k {
            let p = o + rng.usize_below(len);
            let bit = 1u8 << rng.below(8);
            es.push((p, vec![img[p] ^ bit]));
            d.push_str(&format!("{}^{:02x} ", p, bit));
        }
        out.push(Mutation { desc: format!("flip {}", d), kind: "F-BF", edit: Edit::Multi(es) });
    }
    // misdirected write: sector A's content lands on sector B
    let ns = l.num_sectors as usize;
    if ns >= 2 {
        let mut structural: Vec<u32> = l.fat_sectors.iter().chain(l.dir_sectors.iter()).chain(l.minifat_sectors.iter()).copied().collect();
        structural.truncate(8);
        for b in structural {
            for _ in 0..2 {
                let a = rng.usize_below(ns) as u32;
                if a == b {
                    continue;
                }
                let (oa, ob) = (imgck::sector_offset(l, a), imgck::sector_offset(l, b));
                if oa + sl <= img.len() && ob + sl <= img.len() {
                    out.push(Mutation { desc: format!("misdirected: sector {} content written over sector {}", a, b), kind: "F-MW", edit: Edit::Put { offset: ob, bytes: img[oa..oa + sl].to_vec() } });
                }
            }
        }
    }
    // lost write: a sector (or the header) reverts to its content in an older snapshot
    if let Some(old) = older {
        let common = old.len().min(img.len()) / sl;
        let mut n = 0;
        for s in 0..common {
            let o = s * sl;
            if old[o..o + sl] != img[o..o + sl] {
                out.push(Mutation { desc: format!("lost write: file sector {} reverts to its older content", s), kind: "F-LW", edit: Edit::Put { offset: o, bytes: old[o..o + sl].to_vec() } });
                n += 1;
                if n >= 12 {
                    break;
                }
            }
        }
    }
    out
}

// ---------------------------------------------------------------------------
// C16: documented tolerated deviations

#[derive(Clone, Debug)]
pub struct Deviation {
    pub recipe: &'static str,
    pub place: String,
    pub edits: Vec<(usize, Vec<u8>)>,
    /// strict open is expected to reject the deviated image
    pub strict_rejects: bool,
}

impl Deviation {
    pub fn apply(&self, img: &[u8]) -> Vec<u8> {
        let mut v = img.to_vec();
        for (o, b) in &self.edits {
            put(&mut v, *o, b);
        }
        v
    }
}

/// A valid variant of a valid image without DIFAT sectors: one spare DIFAT sector, all of its
/// slots free, appended at the end of the file, marked DIFSECT in the FAT, named and counted in
/// the header - spare capacity as another writer might reserve it.  None if the image already
/// has DIFAT sectors, has no FAT cell for one more sector, or the result does not pass the
/// independent checker.
pub fn add_spare_difat_sector(image: &[u8]) -> Option<Vec<u8>> {
    let p = imgck::check(image);
    if p.fatal.is_some() || !p.violations.is_empty() {
        return None;
    }
    let l = &p.layout;
    if !l.difat_sectors.is_empty() || l.sector_len < 512 {
        return None;
    }
    let new_id = l.num_sectors;
    let per = l.sector_len / 4;
    let fat_sector = *l.fat_sectors.get(new_id as usize / per)?;
    let cell_off = imgck::sector_offset(l, fat_sector) + 4 * (new_id as usize % per);
    let mut out = image.to_vec();
    if out.len() != imgck::sector_offset(l, new_id) || cell_off + 4 > out.len() {
        return None;
    }
    if out[cell_off..cell_off + 4] != FREESECT.to_le_bytes() {
        return None;
    }
    out[cell_off..cell_off + 4].copy_from_slice(&DIFSECT.to_le_bytes());
    let mut sec = vec![0xFFu8; l.sector_len];
    let n = sec.len();
    sec[n - 4..].copy_from_slice(&ENDOFCHAIN.to_le_bytes());
    out.extend_from_slice(&sec);
    out[68..72].copy_from_slice(&new_id.to_le_bytes());
    out[72..76].copy_from_slice(&1u32.to_le_bytes());
    let q = imgck::check(&out);
    if q.fatal.is_some() || !q.violations.is_empty() || q.layout.difat_sectors.len() != 1 {
        return None;
    }
    Some(out)
}

fn le32(v: u32) -> Vec<u8> {
    v.to_le_bytes().to_vec()
}

/// Every documented deviation at every applicable place of a VALID image.
pub fn deviations(img: &[u8], l: &Layout) -> Vec<Deviation> {
    let mut out = vec![];
    let n = l.num_sectors as usize;
    let dev = |recipe: &'static str, place: String, edits: Vec<(usize, Vec<u8>)>| Deviation { recipe, place, edits, strict_rejects: true };
    // 1. zero-padded FAT tail (cells beyond the last sector are 0 instead of FREESECT)
    if l.fat.len() > n {
        let tail: Vec<usize> = (n..l.fat.len()).collect();
        let mut starts = vec![n];
        if tail.len() > 1 {
            starts.push(n + tail.len() / 2);
            starts.push(l.fat.len() - 1);
        }
        starts.dedup();
        for st in starts {
            let mut edits = vec![];
            for c in st..l.fat.len() {
                if let Some(off) = imgck::fat_cell_offset(l, c as u32) {
                    edits.push((off, le32(0)));
                }
            }
            if !edits.is_empty() {
                out.push(dev("zero-padded-fat", format!("cells {}..{}", st, l.fat.len()), edits));
            }
        }
    }
    // 2. zero-padded DIFAT tail (only DIFAT sectors carry padding the library strips)
    if !l.difat_sectors.is_empty() {
        let used = l.fat_sectors.len();
        // (zeros are tolerated in DIFAT sectors only, never in the header's 109 slots; with a spare
        // DIFAT sector the padding starts at its first slot although fewer than 109 slots are used)
        if l.difat.len() > used.max(109) {
            let mut edits = vec![];
            for i in used.max(109)..l.difat.len() {
                if let Some(off) = imgck::difat_slot_offset(l, i) {
                    edits.push((off, le32(0)));
                }
            }
            if !edits.is_empty() {
                out.push(dev("zero-padded-difat", format!("slots {}..{}", used, l.difat.len()), edits));
            }
        }
    }
    // a stale cell may hold anything: a terminator, the free marker, a link into a live chain,
    // or a link past the end of the FAT
    let live = l.dir_sectors.get(1).copied().or_else(|| l.entries.iter().find(|e| e.reachable && e.obj_type == 2 && e.size >= 4096).map(|e| l.fat.get(e.start_sector as usize).copied().unwrap_or(ENDOFCHAIN)).filter(|v| *v < l.num_sectors));
    let mut stale: Vec<u32> = vec![ENDOFCHAIN, FREESECT, l.num_sectors + 1000];
    if let Some(v) = live {
        stale.push(v);
    }
    // 3. FAT sector not marked FATSECT
    for s in &l.fat_sectors {
        if let Some(off) = imgck::fat_cell_offset(l, *s) {
            for v in stale.iter().copied() {
                out.push(dev("fat-sector-not-marked", format!("fat sector {} cell={:#x}", s, v), vec![(off, le32(v))]));
            }
        }
    }
    // 4. DIFAT sector not marked DIFSECT
    for s in &l.difat_sectors {
        if let Some(off) = imgck::fat_cell_offset(l, *s) {
            for v in stale.iter().copied() {
                out.push(dev("difat-sector-not-marked", format!("difat sector {} cell={:#x}", s, v), vec![(off, le32(v))]));
            }
        }
    }
    // 5. DIFAT chain terminated by FREESECT
    if let Some(last) = l.difat_sectors.last() {
        let off = imgck::sector_offset(l, *last) + l.sector_len - 4;
        out.push(dev("difat-chain-ends-with-free", format!("difat sector {}", last), vec![(off, le32(FREESECT))]));
    }
    // 6. adjacent red nodes: a node and one of its sibling-tree children both red
    for e in l.entries.iter().filter(|e| e.reachable && e.obj_type != 5 && e.obj_type != 0) {
        for (side, c) in [("left", e.left), ("right", e.right)] {
            if (c as usize) < l.entries.len() && c != 0xFFFF_FFFF {
                let ce = &l.entries[c as usize];
                out.push(dev("adjacent-red-nodes", format!("entry {} and its {} child {}", e.slot, side, c), vec![(e.offset + 67, vec![0]), (ce.offset + 67, vec![0])]));
            }
        }
    }
    // 7. name without terminator
    for e in l.entries.iter().filter(|e| e.reachable && e.obj_type != 0) {
        let units = (e.name_len_field / 2).saturating_sub(1) as usize;
        if units < 32 && e.name_len_field >= 2 {
            out.push(dev("name-not-terminated", format!("entry {}", e.slot), vec![(e.offset + 2 * units, vec![0x58, 0x00])]));
        }
    }
    // 8. wrong root name
    if let Some(r) = l.entries.first() {
        let mut name = vec![0u8; 64];
        name[0] = b'R';
        out.push(dev("wrong-root-name", "root entry named \"R\"".into(), vec![(r.offset, name), (r.offset + 64, vec![4, 0])]));
        // names that are ALMOST right: another letter case, one unit short, one unit long
        // ... and names that would not even be valid for an ordinary object (the stored root name is
        // documented as ignored entirely): separator characters, empty, 31 units, outside the BMP
        for wrong in ["ROOT ENTRY", "root entry", "Root entry", "Root Entr", "Root Entry2", "Root:Entry", "Root/Entry", "a\\b", "!", "", "R\u{10400}\u{1F600}t", "0123456789012345678901234567890"] {
            let mut name = vec![0u8; 64];
            for (i, u) in wrong.encode_utf16().enumerate() {
                name[2 * i..2 * i + 2].copy_from_slice(&u.to_le_bytes());
            }
            let len_field = ((wrong.encode_utf16().count() + 1) * 2) as u16;
            out.push(dev("wrong-root-name", format!("root entry named {:?}", wrong), vec![(r.offset, name), (r.offset + 64, len_field.to_le_bytes().to_vec())]));
        }
    }
    // 9. CLSID / timestamps on a stream
    for e in l.entries.iter().filter(|e| e.reachable && e.obj_type == 2) {
        out.push(dev("stream-clsid", format!("entry {}", e.slot), vec![(e.offset + 80, vec![0x11; 16])]));
        out.push(dev("stream-created", format!("entry {}", e.slot), vec![(e.offset + 100, vec![1, 2, 3, 4, 5, 6, 7, 1])]));
        out.push(dev("stream-modified", format!("entry {}", e.slot), vec![(e.offset + 108, vec![1, 0, 0, 0, 0, 0, 0, 0])]));
    }
    // 10. start sector / size on a storage
    for e in l.entries.iter().filter(|e| e.reachable && e.obj_type == 1) {
        for v in [5u32, ENDOFCHAIN, FREESECT] {
            out.push(dev("storage-start-sector", format!("entry {} start={:#x}", e.slot, v), vec![(e.offset + 116, le32(v))]));
        }
        out.push(dev("storage-size", format!("entry {}", e.slot), vec![(e.offset + 120, vec![100, 0, 0, 0, 0, 0, 0, 0])]));
    }
    // 11. wrong sector counts in the header
    out.push(dev("wrong-num-fat-sectors", "+1".into(), vec![(44, le32(l.hdr_num_fat + 1))]));
    if l.hdr_num_fat > 0 {
        out.push(dev("wrong-num-fat-sectors", "-1".into(), vec![(44, le32(l.hdr_num_fat - 1))]));
    }
    out.push(dev("wrong-num-difat-sectors", "+1".into(), vec![(72, le32(l.hdr_num_difat + 1))]));
    if l.hdr_num_difat > 0 {
        out.push(dev("wrong-num-difat-sectors", "-1".into(), vec![(72, le32(l.hdr_num_difat - 1))]));
        if l.hdr_num_difat > 1 {
            out.push(dev("wrong-num-difat-sectors", "=0".into(), vec![(72, le32(0))]));
        }
    }
    out.push(dev("wrong-num-minifat-sectors", "+1".into(), vec![(64, le32(l.hdr_num_minifat + 1))]));
    if l.hdr_num_minifat > 0 {
        out.push(dev("wrong-num-minifat-sectors", "-1".into(), vec![(64, le32(l.hdr_num_minifat - 1))]));
    }
    // 12. non-zero directory sector count in version 3
    if l.version == 3 {
        out.push(dev("v3-num-dir-sectors", "=1".into(), vec![(40, le32(1))]));
        out.push(dev("v3-num-dir-sectors", "=actual".into(), vec![(40, le32(l.dir_sectors.len() as u32))]));
    }
    // 13. MiniFAT longer than the mini stream: a used cell in the padding of the MiniFAT
    if !l.minifat_sectors.is_empty() {
        let root_minis = l.entries.first().map(|r| (r.size / 64) as usize).unwrap_or(0);
        if l.minifat.len() > root_minis {
            for c in [root_minis, l.minifat.len() - 1] {
                if let Some(off) = imgck::minifat_cell_offset(l, c as u32) {
                    out.push(dev("minifat-longer-than-ministream", format!("cell {} = ENDOFCHAIN", c), vec![(off, le32(ENDOFCHAIN))]));
                    // the surplus is documented as ignored, whatever it holds: a zero (zero padding,
                    // reads as "next is mini sector 0"), a mini sector some chain already uses,
                    // a number beyond the MiniFAT
                    out.push(dev("minifat-longer-than-ministream", format!("cell {} = 0", c), vec![(off, le32(0))]));
                    out.push(dev("minifat-longer-than-ministream", format!("cell {} = 1", c), vec![(off, le32(1))]));
                    out.push(dev("minifat-longer-than-ministream", format!("cell {} = beyond", c), vec![(off, le32(l.minifat.len() as u32 + 7))]));
                }
            }
            // ... and the whole surplus zero-padded
            let edits: Vec<(usize, Vec<u8>)> = (root_minis..l.minifat.len()).filter_map(|c| imgck::minifat_cell_offset(l, c as u32)).map(|off| (off, le32(0))).collect();
            if edits.len() > 1 {
                out.push(dev("minifat-longer-than-ministream", "whole surplus = 0".into(), edits));
            }
        }
    }
    let _ = (img, DIFSECT, FATSECT);
    out
}
