//! Swarm-style history generator.  Every choice is drawn from the case stream;
//! a shadow `Model` (advanced with canonical outcomes) tells what exists so
//! that most operations succeed and build state, while a configurable fraction
//! are near-misses.

use crate::model::{join, Model};
use crate::names::{self, NameClass};
use crate::ops::{Op, Whence, T};
use crate::prng::Rng;

pub const BOUNDARY_SIZES: &[u64] = &[0, 1, 63, 64, 65, 127, 128, 511, 512, 513, 4095, 4096, 4097, 8191, 8192, 8193];
pub const BUFSIZES: &[Option<usize>] = &[None, Some(0), Some(1), Some(1023), Some(1024), Some(1025), Some(1500), Some(4096), Some(5000), Some(65536)];

#[derive(Clone, Debug)]
pub struct GenCfg {
    pub max_ops: usize,
    pub names: Vec<String>,
    pub sizes: Vec<u64>,
    /// per cent of path arguments that are near-misses
    pub near_miss: u32,
    /// per cent of path arguments spelled in an alternative way
    pub spellings: u32,
    /// per cent of lookups that use another letter case
    pub case_variants: u32,
    pub weights: Vec<(&'static str, u32)>,
    pub max_objects: usize,
    pub max_depth: usize,
    pub invalid_names: bool,
    /// never remove/overwrite a stream (or an ancestor) that has an open handle
    pub protect_handles: bool,
    pub max_stream: u64,
    /// structural removals only while no handle is open (keeps C07's subject out of other checks)
    pub no_remove_with_open_handles: bool,
    /// set_len through a handle never grows the stream
    pub set_len_shrink_only: bool,
}

pub fn draw_sizes(rng: &mut Rng, max_stream: u64, sector: u64) -> Vec<u64> {
    let mut v: Vec<u64> = BOUNDARY_SIZES.to_vec();
    for _ in 0..4 {
        v.push(rng.below(max_stream + 1));
    }
    for _ in 0..3 {
        v.push(rng.below(5000));
    }
    // sector multiples +-1
    let k = rng.range(1, 6) * sector;
    v.extend_from_slice(&[k - 1, k, k + 1]);
    v.retain(|&s| s <= max_stream);
    v
}

pub fn c01_weights() -> Vec<(&'static str, u32)> {
    vec![
        ("create_storage", 8),
        ("create_storage_all", 3),
        ("remove_storage", 5),
        ("remove_storage_all", 2),
        ("create_stream", 3),
        ("create_new_stream", 3),
        ("remove_stream", 7),
        ("write_whole", 14),
        ("read_whole", 6),
        ("entry", 4),
        ("root_entry", 1),
        ("exists", 2),
        ("is_stream", 1),
        ("is_storage", 1),
        ("read_storage", 3),
        ("read_root_storage", 2),
        ("walk", 2),
        ("walk_storage", 2),
        ("reopen", 2),
        ("version", 1),
    ]
}

pub fn handle_weights() -> Vec<(&'static str, u32)> {
    vec![
        ("open_stream", 6),
        ("h_create_stream", 3),
        ("h_create_new_stream", 2),
        ("h_read", 8),
        ("h_read_full", 6),
        ("h_fill_buf", 4),
        ("h_consume", 4),
        ("h_write", 8),
        ("h_write_all", 8),
        ("h_seek", 10),
        ("h_set_len", 5),
        ("h_flush", 4),
        ("h_len", 2),
        ("h_pos", 2),
        ("h_drop", 3),
    ]
}

pub fn meta_weights() -> Vec<(&'static str, u32)> {
    vec![("set_state_bits", 4), ("set_storage_clsid", 4), ("set_created_time", 4), ("set_modified_time", 4), ("touch", 3), ("set_clock", 3), ("flush", 1)]
}

/// Subset the weight table swarm-style: each op kind is disabled with p = 1/4
/// (never the essential builders).
pub fn swarm(rng: &mut Rng, mut w: Vec<(&'static str, u32)>) -> Vec<(&'static str, u32)> {
    for e in w.iter_mut() {
        let essential = matches!(e.0, "write_whole" | "create_storage" | "open_stream" | "h_write_all");
        if !essential && rng.chance(1, 4) {
            e.1 = 0;
        } else if rng.chance(1, 5) {
            e.1 *= 3;
        }
    }
    w
}

fn pick_weighted<'a>(rng: &mut Rng, w: &'a [(&'static str, u32)]) -> &'static str {
    let total: u32 = w.iter().map(|x| x.1).sum();
    let mut r = rng.below(total.max(1) as u64) as u32;
    for (k, x) in w {
        if r < *x {
            return k;
        }
        r -= x;
    }
    w[0].0
}

pub struct Gen<'a> {
    pub rng: &'a mut Rng,
    pub cfg: &'a GenCfg,
    pub model: Model,
    pub nonce: u32,
}

const SPECIAL_TIMES: &[T] = &[
    T { secs: 0, nanos: 0 },
    T { secs: -11_644_473_600, nanos: 0 },   // 1601-01-01
    T { secs: -11_644_473_600, nanos: 100 }, // + 1 tick
    T { secs: -11_644_473_601, nanos: 999_999_900 }, // - 1 tick
    T { secs: -11_644_473_601, nanos: 0 },
    T { secs: -20_000_000_000, nanos: 5 },   // before 1601
    T { secs: -1, nanos: 999_999_999 },
    T { secs: -1, nanos: 999_999_900 },
    T { secs: -1, nanos: 50 },
    T { secs: 0, nanos: 99 },
    T { secs: 0, nanos: 100 },
    T { secs: 0, nanos: 199 },
    T { secs: 1, nanos: 1 },
    T { secs: 1_700_000_000, nanos: 123_456_789 },
    T { secs: 1_833_029_933_770, nanos: 955_161_500 }, // exactly u64::MAX ticks
    T { secs: 1_833_029_933_770, nanos: 955_161_600 }, // one past
    T { secs: 1_833_029_933_771, nanos: 0 },
    T { secs: 4_000_000_000_000, nanos: 0 },  // far beyond the tick range
    T { secs: i64::MAX / 4, nanos: 999_999_999 },
    T { secs: i64::MIN / 4, nanos: 1 },
];

pub fn draw_time(rng: &mut Rng) -> T {
    if rng.chance(1, 2) {
        *rng.pick(SPECIAL_TIMES)
    } else {
        match rng.below(4) {
            0 => T { secs: rng.below(4_000_000_000) as i64, nanos: rng.below(1_000_000_000) as u32 },
            1 => T { secs: -(rng.below(12_000_000_000) as i64), nanos: rng.below(1_000_000_000) as u32 },
            2 => T { secs: rng.below(2_000_000_000_000) as i64, nanos: (rng.below(10_000_000) * 100) as u32 },
            _ => T { secs: -11_644_473_600 + rng.range(0, 3) as i64 - 1, nanos: rng.below(1_000_000_000) as u32 },
        }
    }
}

impl<'a> Gen<'a> {
    pub fn new(rng: &'a mut Rng, cfg: &'a GenCfg, model: Model) -> Gen<'a> {
        Gen { rng, cfg, model, nonce: 1 }
    }

    fn fresh_nonce(&mut self) -> u32 {
        self.nonce += 1;
        self.nonce.wrapping_mul(2654435761) | 1
    }

    fn storages(&self) -> Vec<Vec<String>> {
        self.model.all_paths().into_iter().filter(|(_, s)| !*s).map(|(p, _)| p).collect()
    }
    fn streams(&self) -> Vec<Vec<String>> {
        self.model.all_paths().into_iter().filter(|(_, s)| *s).map(|(p, _)| p).collect()
    }

    fn protected(&self, path: &[String]) -> bool {
        if !self.cfg.protect_handles {
            return false;
        }
        // path or anything below it has an open handle
        for (p, is_stream) in self.model.all_paths() {
            if is_stream && p.len() >= path.len() && p[..path.len()].iter().zip(path.iter()).all(|(a, b)| names::cfb_eq(a, b)) {
                if let Some(n) = self.model.lookup(&p) {
                    if self.model.has_handle_on(n.id) {
                        return true;
                    }
                }
            }
        }
        false
    }

    fn spell(&mut self, names: &[String]) -> String {
        let base = join(names);
        if !self.rng.chance(self.cfg.spellings as u64, 100) {
            return base;
        }
        let mut s = String::new();
        match self.rng.below(3) {
            0 => {}
            1 => s.push('/'),
            _ => s.push_str("./"),
        }
        for (i, n) in names.iter().enumerate() {
            if i > 0 || s.is_empty() && self.rng.chance(1, 2) {
                s.push('/');
            }
            match self.rng.below(6) {
                0 => s.push_str("./"),
                1 => s.push('/'),
                2 => {
                    s.push_str("zz/../");
                }
                _ => {}
            }
            s.push_str(n);
        }
        if names.is_empty() {
            s = (*self.rng.pick(&["/", "", ".", "/.", "//", "/x/..", "x/.."])).to_string();
        } else if self.rng.chance(1, 3) {
            s.push('/');
        }
        // make sure our own spelling normalises to the same thing
        match crate::model::parse_path(&s) {
            Ok(p) if p == names => s,
            _ => base,
        }
    }

    fn case_var(&mut self, names: &[String]) -> Vec<String> {
        if self.rng.chance(self.cfg.case_variants as u64, 100) {
            names.iter().map(|n| if names::is_agreed(n) { names::case_variant(n, self.rng) } else { n.clone() }).collect()
        } else {
            names.to_vec()
        }
    }

    /// A path to an existing object of the wanted kind (0 any, 1 stream, 2 storage),
    /// or a near-miss.
    fn existing(&mut self, kind: u8) -> String {
        if self.rng.chance(self.cfg.near_miss as u64, 100) {
            return self.near_miss(kind);
        }
        let cands: Vec<Vec<String>> = match kind {
            1 => self.streams(),
            2 => self.storages(),
            _ => self.model.all_paths().into_iter().map(|(p, _)| p).collect(),
        };
        if cands.is_empty() {
            return self.near_miss(kind);
        }
        let p = cands[self.rng.usize_below(cands.len())].clone();
        let p = self.case_var(&p);
        self.spell(&p)
    }

    fn near_miss(&mut self, kind: u8) -> String {
        let all = self.model.all_paths();
        match self.rng.below(7) {
            0 => {
                // missing leaf under an existing storage
                let st = self.storages();
                let mut p = st[self.rng.usize_below(st.len())].clone();
                p.push(self.rng.pick(&self.cfg.names).clone());
                join(&p)
            }
            1 => {
                // missing parent
                let mut p = vec![format!("nope{}", self.rng.below(3))];
                p.push(self.rng.pick(&self.cfg.names).clone());
                join(&p)
            }
            2 => {
                // wrong type
                let cands: Vec<Vec<String>> = match kind {
                    1 => self.storages(),
                    2 => self.streams(),
                    _ => all.iter().map(|(p, _)| p.clone()).collect(),
                };
                if cands.is_empty() {
                    "/".into()
                } else {
                    join(&cands[self.rng.usize_below(cands.len())])
                }
            }
            3 => {
                // below a stream
                let st = self.streams();
                if st.is_empty() {
                    "/missing/x".into()
                } else {
                    let mut p = st[self.rng.usize_below(st.len())].clone();
                    p.push(self.rng.pick(&self.cfg.names).clone());
                    join(&p)
                }
            }
            4 => (*self.rng.pick(&["..", "/..", "a/../..", "/../x", "../../.."])).to_string(),
            5 => "/".to_string(),
            _ => {
                if self.cfg.invalid_names {
                    self.invalid_name_path()
                } else {
                    "/missing".into()
                }
            }
        }
    }

    fn invalid_name_path(&mut self) -> String {
        let st = self.storages();
        let mut p = st[self.rng.usize_below(st.len())].clone();
        // an invalid name is InvalidInput wherever it is asked for: also under a parent that
        // does not exist
        if self.rng.chance(1, 6) {
            p.push("no-such-parent".into());
        }
        let bad = match self.rng.below(7) {
            // too long in UTF-16 units although not in characters (each is a surrogate pair)
            5 => "\u{1F600}".repeat(self.rng.range(16, 31) as usize),
            6 => {
                let k = self.rng.range(1, 15) as usize;
                "\u{10400}".repeat(k) + &"z".repeat(32 - 2 * k)
            }
            0 => "a:b".to_string(),
            1 => "x!y".to_string(),
            2 => "back\\slash".to_string(),
            3 => "n".repeat(32),
            _ => {
                let n = self.rng.range(32, 40) as usize;
                names::gen_name(self.rng, NameClass::Ascii, 31) + &"q".repeat(n - 31)
            }
        };
        p.push(bad);
        join(&p)
    }

    /// A path for a new object: existing storage + unused pool name (or near-miss).
    fn new_path(&mut self) -> String {
        if self.rng.chance(self.cfg.near_miss as u64, 100) {
            return match self.rng.below(4) {
                0 => {
                    // already exists
                    let all: Vec<Vec<String>> = self.model.all_paths().into_iter().map(|(p, _)| p).collect();
                    let p = all[self.rng.usize_below(all.len())].clone();
                    let p = self.case_var(&p);
                    join(&p)
                }
                1 if self.cfg.invalid_names => self.invalid_name_path(),
                _ => self.near_miss(0),
            };
        }
        let st: Vec<Vec<String>> = self.storages().into_iter().filter(|p| p.len() < self.cfg.max_depth).collect();
        let parent = if st.is_empty() { vec![] } else { st[self.rng.usize_below(st.len())].clone() };
        let pn = self.model.lookup(&parent).unwrap();
        let free: Vec<&String> = self.cfg.names.iter().filter(|n| !pn.children.iter().any(|c| names::cfb_eq(&c.name, n))).collect();
        let mut p = parent.clone();
        if free.is_empty() {
            p.push(self.rng.pick(&self.cfg.names).clone());
        } else {
            p.push(free[self.rng.usize_below(free.len())].clone());
        }
        self.spell(&p)
    }

    fn size(&mut self) -> u64 {
        *self.rng.pick(&self.cfg.sizes)
    }

    fn open_handles(&self) -> Vec<usize> {
        (0..self.model.handles.len()).filter(|h| self.model.handles[*h].is_some()).collect()
    }

    fn handle_len_pos(&self, h: usize) -> (u64, u64) {
        let mh = self.model.handles[h].as_ref().unwrap();
        let len = self.model.handle_node(h).map(|n| n.data.len() as u64).unwrap_or(0);
        (len, mh.pos)
    }

    fn stream_without_handle(&mut self) -> Option<Vec<String>> {
        let c: Vec<Vec<String>> = self
            .streams()
            .into_iter()
            .filter(|p| !self.model.has_handle_on(self.model.lookup(p).unwrap().id))
            .collect();
        if c.is_empty() {
            None
        } else {
            Some(c[self.rng.usize_below(c.len())].clone())
        }
    }

    pub fn gen_op(&mut self) -> Option<Op> {
        let count = self.model.all_paths().len();
        let kind = pick_weighted(self.rng, &self.cfg.weights);
        let full = count >= self.cfg.max_objects;
        let op = match kind {
            "create_storage" if !full => Op::CreateStorage(self.new_path()),
            "create_storage_all" if !full => {
                if self.cfg.invalid_names && self.rng.chance(1, 4) {
                    // <existing storage>/<fresh valid>/<invalid>/<valid>: must be refused without
                    // leaving the fresh ancestor behind
                    let st = self.storages();
                    let parent = st[self.rng.usize_below(st.len())].clone();
                    let fresh = format!("fresh{}", self.rng.below(1000));
                    let bad = (*self.rng.pick(&["a:b", "x!y", "back\\slash", "nnnnnnnnnnnnnnnnnnnnnnnnnnnnnnnnn"])).to_string();
                    let mut names = parent;
                    names.push(fresh);
                    names.push(bad);
                    if self.rng.chance(2, 3) {
                        names.push("leaf".to_string());
                    }
                    return Some(Op::CreateStorageAll(join(&names)));
                }
                let mut p = self.new_path();
                if self.rng.chance(1, 2) {
                    p.push('/');
                    p.push_str(&self.rng.pick(&self.cfg.names).clone());
                }
                Op::CreateStorageAll(p)
            }
            "create_stream" if !full => {
                if self.rng.chance(1, 3) {
                    match self.stream_without_handle() {
                        Some(p) => Op::CreateStream(join(&p)),
                        None => Op::CreateStream(self.new_path()),
                    }
                } else {
                    Op::CreateStream(self.new_path())
                }
            }
            "create_new_stream" if !full => Op::CreateNewStream(self.new_path()),
            "write_whole" => {
                let len = self.size();
                let nonce = self.fresh_nonce();
                let path = if full || self.rng.chance(2, 5) {
                    match self.stream_without_handle() {
                        Some(p) => {
                            let p = self.case_var(&p);
                            self.spell(&p)
                        }
                        None => self.new_path(),
                    }
                } else {
                    self.new_path()
                };
                Op::WriteWhole { path, len, nonce }
            }
            "remove_storage" => Op::RemoveStorage(self.existing(2)),
            "remove_storage_all" => Op::RemoveStorageAll(self.existing(2)),
            "remove_stream" => Op::RemoveStream(self.existing(1)),
            "read_whole" => {
                if self.cfg.protect_handles {
                    match self.stream_without_handle() {
                        Some(p) => Op::ReadWhole(join(&p)),
                        None => return None,
                    }
                } else {
                    Op::ReadWhole(self.existing(1))
                }
            }
            "entry" => Op::Entry(self.existing(0)),
            "root_entry" => Op::RootEntry,
            "exists" => Op::Exists(self.existing(0)),
            "is_stream" => Op::IsStream(self.existing(0)),
            "is_storage" => Op::IsStorage(self.existing(0)),
            "read_storage" => Op::ReadStorage(self.existing(2)),
            "read_root_storage" => Op::ReadRoot,
            "walk" => Op::Walk,
            "walk_storage" => Op::WalkStorage(self.existing(2)),
            "reopen" => Op::Reopen { strict: self.rng.chance(1, 2) },
            "version" => Op::Version,
            "flush" => Op::FlushFile,
            "set_state_bits" => {
                let bits = match self.rng.below(5) {
                    0 => 0,
                    1 => 1,
                    2 => 0x8000_0000,
                    3 => u32::MAX,
                    _ => self.rng.next_u64() as u32,
                };
                Op::SetStateBits(self.existing(0), bits)
            }
            "set_storage_clsid" => {
                let mut c = [0u8; 16];
                match self.rng.below(4) {
                    0 => {}
                    1 => c = [0xff; 16],
                    _ => {
                        for b in c.iter_mut() {
                            *b = self.rng.next_u64() as u8;
                        }
                    }
                }
                Op::SetClsid(self.existing(0), c)
            }
            "set_created_time" => Op::SetCreated(self.existing(0), draw_time(self.rng)),
            "set_modified_time" => Op::SetModified(self.existing(0), draw_time(self.rng)),
            "touch" => Op::Touch(self.existing(0)),
            "set_clock" => Op::SetClock(draw_time(self.rng)),
            // ---- handles
            "open_stream" | "h_create_stream" | "h_create_new_stream" => {
                let free: Vec<usize> = (0..self.model.handles.len()).filter(|h| self.model.handles[*h].is_none()).collect();
                if free.is_empty() {
                    return None;
                }
                let h = free[self.rng.usize_below(free.len())];
                match kind {
                    "open_stream" => {
                        if self.rng.chance(self.cfg.near_miss as u64, 100) {
                            Op::HOpen { h, path: self.near_miss(1) }
                        } else {
                            match self.stream_without_handle() {
                                Some(p) => {
                                    let p = self.case_var(&p);
                                    Op::HOpen { h, path: self.spell(&p) }
                                }
                                None => return None,
                            }
                        }
                    }
                    "h_create_stream" if !full => {
                        if self.rng.chance(1, 3) {
                            match self.stream_without_handle() {
                                Some(p) => Op::HCreate { h, path: join(&p) },
                                None => Op::HCreate { h, path: self.new_path() },
                            }
                        } else {
                            Op::HCreate { h, path: self.new_path() }
                        }
                    }
                    "h_create_new_stream" if !full => Op::HCreateNew { h, path: self.new_path() },
                    _ => return None,
                }
            }
            k if k.starts_with("h_") => {
                let hs = self.open_handles();
                if hs.is_empty() {
                    return None;
                }
                let h = hs[self.rng.usize_below(hs.len())];
                let (len, pos) = self.handle_len_pos(h);
                match k {
                    "h_read" => Op::HRead { h, n: self.io_size() },
                    "h_read_full" => Op::HReadFull { h, n: self.io_size() },
                    "h_fill_buf" => Op::HFillBuf { h },
                    "h_consume" => {
                        let lf = self.model.handles[h].as_ref().unwrap().last_fill;
                        Op::HConsume { h, n: if lf == 0 { 0 } else { self.rng.range(0, lf as u64) as usize } }
                    }
                    "h_write" => {
                        let n = self.io_size().min((self.cfg.max_stream.saturating_sub(pos)) as usize);
                        Op::HWrite { h, len: n, nonce: self.fresh_nonce() }
                    }
                    "h_write_all" => {
                        let n = self.io_size().min((self.cfg.max_stream.saturating_sub(pos)) as usize);
                        Op::HWriteAll { h, len: n, nonce: self.fresh_nonce() }
                    }
                    "h_seek" => self.seek_op(h, len, pos),
                    "h_set_len" => {
                        let n = match self.rng.below(4) {
                            0 => self.size(),
                            1 => len.saturating_sub(self.rng.below(70)),
                            2 => (len + self.rng.below(70)).min(self.cfg.max_stream),
                            _ => {
                                let b = *self.rng.pick(&[64u64, 4096, 512, 1024, 8192]);
                                (b + self.rng.range(0, 2)).saturating_sub(1).min(self.cfg.max_stream)
                            }
                        };
                        let n = if self.cfg.set_len_shrink_only { n.min(len) } else { n };
                        Op::HSetLen { h, n }
                    }
                    "h_flush" => Op::HFlush { h },
                    "h_len" => Op::HLen { h },
                    "h_pos" => Op::HPos { h },
                    "h_drop" => Op::HDrop { h },
                    _ => return None,
                }
            }
            _ => return None,
        };
        // never a second handle on a stream that already has one (outside every statement)
        if let Op::HOpen { path, .. } | Op::HCreate { path, .. } | Op::HCreateNew { path, .. } = &op {
            if let Ok(names) = crate::model::parse_path(path) {
                if let Some(n) = self.model.lookup(&names) {
                    if n.is_stream && self.model.has_handle_on(n.id) {
                        return None;
                    }
                }
            }
        }
        if self.cfg.no_remove_with_open_handles
            && !self.open_handles().is_empty()
            && matches!(op, Op::RemoveStorage(_) | Op::RemoveStorageAll(_) | Op::RemoveStream(_))
        {
            return None;
        }
        // protection: never remove / overwrite something with an open handle
        if self.cfg.protect_handles {
            let victim: Option<&String> = match &op {
                Op::RemoveStorage(p) | Op::RemoveStorageAll(p) | Op::RemoveStream(p) | Op::CreateStream(p) => Some(p),
                Op::WriteWhole { path, .. } => Some(path),
                Op::HCreate { path, .. } => Some(path),
                _ => None,
            };
            if let Some(p) = victim {
                if let Ok(names) = crate::model::parse_path(p) {
                    if self.model.lookup(&names).is_some() && self.protected(&names) {
                        return None;
                    }
                }
            }
            if matches!(op, Op::Reopen { .. }) && !self.open_handles().is_empty() {
                // reopening drops handles: allowed, but keep it rare
                if !self.rng.chance(1, 4) {
                    return None;
                }
            }
        }
        Some(op)
    }

    fn io_size(&mut self) -> usize {
        match self.rng.below(8) {
            0 => 0,
            1 => 1,
            2 => *self.rng.pick(&[63usize, 64, 65, 511, 512, 513, 1023, 1024, 1025, 4095, 4096, 4097]),
            3 => self.rng.range(1, 200) as usize,
            4 => self.rng.range(200, 5000) as usize,
            5 => *self.rng.pick(&[1500usize, 5000, 8192, 16384]),
            6 => self.rng.range(1, 70000) as usize,
            _ => self.rng.range(1, 3000) as usize,
        }
    }

    fn seek_op(&mut self, h: usize, len: u64, pos: u64) -> Op {
        let near = |rng: &mut Rng, x: u64| -> u64 { (x as i64 + rng.range(0, 4) as i64 - 2).max(0) as u64 };
        match self.rng.below(12) {
            0 => Op::HSeek { h, whence: Whence::Start, off: 0, uoff: 0 },
            1 => Op::HSeek { h, whence: Whence::End, off: 0, uoff: 0 },
            2 => Op::HSeek { h, whence: Whence::Start, off: 0, uoff: self.rng.range(0, len) },
            3 => {
                let t = near(self.rng, len);
                Op::HSeek { h, whence: Whence::Start, off: 0, uoff: t }
            }
            4 => {
                let b = *self.rng.pick(&[64u64, 1024, 4096, 512, 1500, 5000, 65536]);
                let t = near(self.rng, b);
                Op::HSeek { h, whence: Whence::Start, off: 0, uoff: t }
            }
            5 => Op::HSeek { h, whence: Whence::Current, off: self.rng.range(0, len - pos) as i64, uoff: 0 },
            6 => Op::HSeek { h, whence: Whence::Current, off: -(self.rng.range(0, pos) as i64), uoff: 0 },
            7 => Op::HSeek { h, whence: Whence::End, off: -(self.rng.range(0, len) as i64), uoff: 0 },
            8 => {
                let off = *self.rng.pick(&[i64::MIN, i64::MAX, i64::MIN + 1, -1, 1, -(len as i64) - 1]);
                Op::HSeek { h, whence: Whence::End, off, uoff: 0 }
            }
            9 => {
                let off = *self.rng.pick(&[i64::MIN, i64::MAX, i64::MIN + 1, -(pos as i64) - 1, (len - pos) as i64 + 1]);
                Op::HSeek { h, whence: Whence::Current, off, uoff: 0 }
            }
            10 => {
                let u = *self.rng.pick(&[u64::MAX, u64::MAX - 1, 1 << 63, (1 << 63) - 1, 1 << 32, len + 1]);
                Op::HSeek { h, whence: Whence::Start, off: 0, uoff: u }
            }
            _ => Op::HSeek { h, whence: Whence::Current, off: self.rng.range(0, 2000) as i64 - 1000, uoff: 0 },
        }
    }

    pub fn history(&mut self, n: usize) -> Vec<Op> {
        let mut ops = Vec::new();
        let mut guard = 0;
        while ops.len() < n && guard < n * 20 {
            guard += 1;
            if let Some(op) = self.gen_op() {
                if std::env::var("VERIF_GENTRACE").is_ok() {
                    eprintln!("gen: {}", op.to_json());
                }
                self.model.predict(&op);
                ops.push(op);
            }
        }
        ops
    }
}

/// History length: 80 % <= 12 ops, tail up to `max`.
pub fn draw_len(rng: &mut Rng, max: usize) -> usize {
    if rng.chance(4, 5) {
        rng.range(1, 12.min(max as u64)) as usize
    } else {
        rng.range(1, max as u64) as usize
    }
}
