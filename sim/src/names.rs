//! Name order and validity, written from MS-CFB 2.6.1/2.6.4 and the crate's
//! documentation — not from the crate's `path.rs`.
//!
//! Order: shorter (in UTF-16 code units) first; equal lengths compare code unit
//! by code unit after simple upper-casing of each unit (surrogates unchanged).
//!
//! Upper-casing is exact only for the *agreed* classes (ASCII, Latin-1 letters,
//! Latin Extended-A pairs, basic Greek, basic Cyrillic) for which every
//! published simple-case table says the same thing; `is_agreed` tells whether a
//! name consists of agreed cased letters and case-less characters only.

use crate::prng::Rng;
use std::cmp::Ordering;

/// Simple upper-case of one agreed-class BMP code unit; None = not in table.
fn table_upper(u: u16) -> Option<u16> {
    match u {
        0x61..=0x7a => Some(u - 0x20),
        0xe0..=0xf6 | 0xf8..=0xfe => Some(u - 0x20),
        0x100..=0x12f | 0x132..=0x137 | 0x14a..=0x177 => Some(u & !1),
        0x139..=0x148 | 0x179..=0x17e => Some(if u & 1 == 0 { u - 1 } else { u }),
        // Latin digraphs with a title-case form (DZ-caron, LJ, NJ, DZ): upper, title and lower
        // form are three case variants of one letter; the simple upper-case mapping of all three
        // is the upper form in every Unicode version since 1.1
        0x1c4..=0x1cc => Some(0x1c4 + (u - 0x1c4) / 3 * 3),
        0x1f1..=0x1f3 => Some(0x1f1),
        0x3b1..=0x3c1 | 0x3c3..=0x3c9 => Some(u - 0x20),
        0x430..=0x44f => Some(u - 0x20),
        0x450..=0x45f => Some(u - 0x50),
        _ => None,
    }
}

/// Is this unit a letter of an agreed class (either case)?
fn in_agreed_cased(u: u16) -> bool {
    matches!(u,
        0x41..=0x5a | 0x61..=0x7a |
        0xc0..=0xd6 | 0xd8..=0xde | 0xe0..=0xf6 | 0xf8..=0xfe |
        0x100..=0x12f | 0x132..=0x137 | 0x139..=0x148 | 0x14a..=0x177 | 0x179..=0x17e |
        0x1c4..=0x1cc | 0x1f1..=0x1f3 |
        0x391..=0x3a1 | 0x3a3..=0x3a9 | 0x3b1..=0x3c1 | 0x3c3..=0x3c9 |
        0x400..=0x45f)
}

fn caseless_char(c: char) -> bool {
    let mut up = c.to_uppercase();
    let mut lo = c.to_lowercase();
    up.next() == Some(c) && up.next().is_none() && lo.next() == Some(c) && lo.next().is_none()
}

pub fn upper_unit(u: u16) -> u16 {
    if (0xd800..=0xdfff).contains(&u) {
        return u;
    }
    if let Some(t) = table_upper(u) {
        return t;
    }
    if in_agreed_cased(u) {
        return u;
    }
    // outside the agreed classes: best effort (std simple mapping when it is a
    // single BMP char); oracles do not rely on it.
    match char::from_u32(u as u32) {
        Some(c) => {
            let mut it = c.to_uppercase();
            match (it.next(), it.next()) {
                (Some(x), None) if (x as u32) < 0x10000 => x as u32 as u16,
                _ => u,
            }
        }
        None => u,
    }
}

pub fn cfb_cmp(a: &str, b: &str) -> Ordering {
    let ua: Vec<u16> = a.encode_utf16().collect();
    let ub: Vec<u16> = b.encode_utf16().collect();
    match ua.len().cmp(&ub.len()) {
        Ordering::Equal => {
            for (x, y) in ua.iter().zip(ub.iter()) {
                match upper_unit(*x).cmp(&upper_unit(*y)) {
                    Ordering::Equal => {}
                    o => return o,
                }
            }
            Ordering::Equal
        }
        o => o,
    }
}

/// Simple upper-case of a supplementary-plane character (Deseret, Osage, Adlam, ...), if it
/// has one.  MS-CFB folds per UTF-16 code unit and so never folds these; the crate documents
/// "simple upper-casing per character" and does fold them.  The model follows the crate's
/// documentation for EQUALITY (so that "found again under any letter-case variant" can be
/// judged for such names); their ORDER is never judged (`is_agreed` is false for them).
fn supplementary_upper(c: char) -> char {
    if (c as u32) < 0x10000 {
        return c;
    }
    let mut it = c.to_uppercase();
    match (it.next(), it.next()) {
        (Some(u), None) if (u as u32) >= 0x10000 => u,
        _ => c,
    }
}

pub fn cfb_eq(a: &str, b: &str) -> bool {
    if cfb_cmp(a, b) == Ordering::Equal {
        return true;
    }
    if a.chars().any(|c| (c as u32) >= 0x10000) || b.chars().any(|c| (c as u32) >= 0x10000) {
        let fa: String = a.chars().map(supplementary_upper).collect();
        let fb: String = b.chars().map(supplementary_upper).collect();
        return cfb_cmp(&fa, &fb) == Ordering::Equal;
    }
    false
}

/// Flip the case of every cased supplementary-plane letter in `name`.
pub fn flip_supplementary_case(name: &str) -> String {
    name.chars()
        .map(|c| {
            if (c as u32) < 0x10000 {
                return c;
            }
            let up = supplementary_upper(c);
            if up != c {
                return up;
            }
            let mut it = c.to_lowercase();
            match (it.next(), it.next()) {
                (Some(l), None) if (l as u32) >= 0x10000 => l,
                _ => c,
            }
        })
        .collect()
}

/// Cased supplementary-plane letters (lower-case forms): Deseret, Osage, Old Hungarian,
/// Warang Citi, Medefaidrin, Adlam.
pub const SUPPLEMENTARY_CASED: &[char] = &['\u{10428}', '\u{10437}', '\u{1044f}', '\u{104d8}', '\u{104fb}', '\u{10cc0}', '\u{118c0}', '\u{16e60}', '\u{1e922}', '\u{1e943}'];

pub fn units(name: &str) -> usize {
    name.encode_utf16().count()
}

/// MS-CFB 2.6.1 / crate docs: at most 31 UTF-16 units, none of / \ : !
pub fn name_valid(name: &str) -> bool {
    units(name) <= 31 && !name.chars().any(|c| matches!(c, '/' | '\\' | ':' | '!'))
}

/// All characters are agreed cased letters or case-less characters, so the
/// model's order and equality are exact for this name.
pub fn is_agreed(name: &str) -> bool {
    name.chars().all(|c| {
        let v = c as u32;
        if v < 0x10000 && in_agreed_cased(v as u16) {
            true
        } else {
            caseless_char(c)
        }
    })
}

/// Start-up self check of the table against std (a typo of mine must not become
/// an alarm).  Returns Err(description) on disagreement.
pub fn selfcheck() -> Result<(), String> {
    for u in 0u16..0x500 {
        if !in_agreed_cased(u) {
            continue;
        }
        let c = char::from_u32(u as u32).unwrap();
        let mut it = c.to_uppercase();
        let std_up = match (it.next(), it.next()) {
            (Some(x), None) => x as u32,
            _ => return Err(format!("agreed char U+{:04X} has multi-char upper in std", u)),
        };
        let mine = upper_unit(u) as u32;
        if std_up != mine {
            return Err(format!("U+{:04X}: table {:04X} vs std {:04X}", u, mine, std_up));
        }
    }
    Ok(())
}

/// Another case variant of `name` (agreed letters flipped at drawn positions).
pub fn case_variant(name: &str, rng: &mut Rng) -> String {
    name.chars()
        .map(|c| {
            let v = c as u32;
            if v < 0x10000 && in_agreed_cased(v as u16) && rng.chance(1, 2) {
                let up = upper_unit(v as u16);
                if up != v as u16 {
                    char::from_u32(up as u32).unwrap()
                } else {
                    // find the lower-case partner
                    let mut it = c.to_lowercase();
                    match (it.next(), it.next()) {
                        (Some(l), None) if (l as u32) < 0x10000 && upper_unit(l as u32 as u16) == v as u16 => l,
                        _ => c,
                    }
                }
            } else {
                c
            }
        })
        .collect()
}

const ASCII_POOL: &[u8] = b"abcdefghijklmnopqrstuvwxyzABCDEFGHIJKLMNOPQRSTUVWXYZ0123456789 _-.~$#@()[]{}+=,;'%&^";
const AGREED_NONASCII: &[char] = &[
    'é', 'É', 'ö', 'Ö', 'ñ', 'Ñ', 'ā', 'Ā', 'ž', 'Ž', 'ł', 'Ł', 'α', 'Α', 'ω', 'Ω', 'λ', 'Λ', 'б', 'Б', 'я', 'Я', 'ё',
    'Ё', 'џ', 'Џ', 'ǅ', 'ǆ', 'Ǆ', 'ǈ', 'ǉ', 'ǋ', 'ǲ', 'ǳ',
];
const CASELESS_POOL: &[char] = &[
    '中', '文', '日', '本', 'あ', 'ア', 'א', 'ב', 'ا', 'ب', '한', '글', '€', '→', '\u{ff61}', '\u{e000}', '\u{fffd}',
    '\u{ffee}', '\u{2603}', '\u{1f600}', '\u{10000}', '\u{1d11e}', '\u{20000}',
    // valid name characters that a reader may be tempted to treat specially: NUL (also as the
    // LAST unit of a name, where it looks like the terminator), controls, BOM, noncharacters
    '\u{0}', '\u{0}', '\u{1}', '\u{7f}', '\u{feff}', '\u{ffff}', '\u{fffe}',
];
/// Characters whose case mapping is disputed between Unicode versions / MS-CFB
/// exceptions / this crate's table.  Generated for robustness, never judged.
pub const DISPUTED_POOL: &[char] = &[
    'ß', 'ŉ', 'ǰ', 'ı', 'İ', 'ſ', 'µ', 'ÿ', 'ς', 'ΐ', 'ᾀ', 'ﬁ', '\u{10428}', '\u{10400}', 'ꙁ', 'ⴀ', 'Ⴀ',
    'ɐ', 'ᵹ', 'ꞔ',
];

#[derive(Clone, Copy, PartialEq, Eq, Debug)]
pub enum NameClass {
    Ascii,
    Agreed,
    Disputed,
}

/// Draw a *valid* name of `len` UTF-16 units (1..=31).
pub fn gen_name(rng: &mut Rng, class: NameClass, len: usize) -> String {
    let mut s = String::new();
    let mut n = 0usize;
    while n < len {
        let c: char = match class {
            NameClass::Ascii => ASCII_POOL[rng.usize_below(ASCII_POOL.len())] as char,
            NameClass::Agreed => match rng.below(4) {
                0 | 1 => ASCII_POOL[rng.usize_below(ASCII_POOL.len())] as char,
                2 => *rng.pick(AGREED_NONASCII),
                _ => *rng.pick(CASELESS_POOL),
            },
            NameClass::Disputed => match rng.below(4) {
                0 => ASCII_POOL[rng.usize_below(ASCII_POOL.len())] as char,
                1 => *rng.pick(AGREED_NONASCII),
                _ => *rng.pick(DISPUTED_POOL),
            },
        };
        let w = c.len_utf16();
        if n + w > len {
            continue;
        }
        if s.is_empty() && c == '.' {
            // "." and ".." are path syntax, not names
            continue;
        }
        s.push(c);
        n += w;
    }
    if s == ".." || s == "." {
        s = "x".repeat(len);
    }
    s
}

/// A small pool of distinct (case-insensitively) names.
pub fn gen_pool(rng: &mut Rng, class: NameClass, count: usize) -> Vec<String> {
    let mut pool: Vec<String> = Vec::new();
    let mut guard = 0;
    while pool.len() < count && guard < 10_000 {
        guard += 1;
        let len = match rng.below(10) {
            0 => 31,
            1 => 1,
            2 => rng.range(28, 31) as usize,
            _ => rng.range(1, 6) as usize,
        };
        // now and then the one name the format itself uses: an object called like the root
        let cand = if rng.chance(1, 40) { "Root Entry".to_string() } else { gen_name(rng, class, len) };
        if class == NameClass::Disputed {
            // never two names that some case mapping could identify
            let f = |s: &str| s.to_uppercase().to_lowercase();
            if pool.iter().any(|p| f(p) == f(&cand)) {
                continue;
            }
        }
        if pool.iter().any(|p| cfb_eq(p, &cand)) {
            continue;
        }
        pool.push(cand);
    }
    pool
}
